#![allow(dead_code)]
use rand_hc::{Hc128Core, Hc128Rng};
use rand_isaac::isaac::IsaacCore;
use rand_isaac::isaac64::Isaac64Core;
use rand_isaac::{Isaac64Rng, IsaacRng};
use rand_jitter::JitterRng;
use rand_xorshift::XorShiftRng;
use rand_xoshiro::*;

fn ss<T: Send + Sync>() {}

fn assert_send_sync() {
    ss::<Xoroshiro64Star>();
    ss::<Xoroshiro64StarStar>();
    ss::<Xoroshiro128Plus>();
    ss::<Xoroshiro128PlusPlus>();
    ss::<Xoroshiro128StarStar>();
    ss::<Xoshiro128Plus>();
    ss::<Xoshiro128PlusPlus>();
    ss::<Xoshiro128StarStar>();
    ss::<Xoshiro256Plus>();
    ss::<Xoshiro256PlusPlus>();
    ss::<Xoshiro256StarStar>();
    ss::<Xoshiro512Plus>();
    ss::<Xoshiro512PlusPlus>();
    ss::<Xoshiro512StarStar>();
    ss::<SplitMix64>();
    ss::<XorShiftRng>();
    ss::<Hc128Rng>();
    ss::<Hc128Core>();
    ss::<IsaacRng>();
    ss::<IsaacCore>();
    ss::<Isaac64Rng>();
    ss::<Isaac64Core>();
    ss::<JitterRng<fn() -> u64>>();
}
