//! Bob Jenkins' ISAAC (rand.c / readable.c) and ISAAC-64 (isaac64.c), written in the
//! "readable" style: `switch (i % 4)`, `mm[(i+128) % 256]`, forward fill of randrsl, results handed
//! out as randrsl[255], randrsl[254], ... like the reference `rand()` macro.

pub const N: usize = 256;

// ------------------------------------------------------------------------------------------------
// ISAAC (32 bit)
// ------------------------------------------------------------------------------------------------
#[derive(Clone)]
pub struct Isaac {
    pub mm: [u32; N],
    pub aa: u32,
    pub bb: u32,
    pub cc: u32,
    pub randrsl: [u32; N],
    pub randcnt: usize,
    /// coverage of the two indirections
    pub cov_ind1: [bool; N],
    pub cov_ind2: [bool; N],
    /// value coincidences inside the steps of the blocks generated so far (step, what, value): each
    /// has probability about 2^-32 per step; drained by the rare-event search
    pub internal: Vec<(usize, &'static str, u32)>,
}

fn mix32(v: &mut [u32; 8]) {
    let [mut a, mut b, mut c, mut d, mut e, mut f, mut g, mut h] = *v;
    a ^= b << 11;
    d = d.wrapping_add(a);
    b = b.wrapping_add(c);
    b ^= c >> 2;
    e = e.wrapping_add(b);
    c = c.wrapping_add(d);
    c ^= d << 8;
    f = f.wrapping_add(c);
    d = d.wrapping_add(e);
    d ^= e >> 16;
    g = g.wrapping_add(d);
    e = e.wrapping_add(f);
    e ^= f << 10;
    h = h.wrapping_add(e);
    f = f.wrapping_add(g);
    f ^= g >> 4;
    a = a.wrapping_add(f);
    g = g.wrapping_add(h);
    g ^= h << 8;
    b = b.wrapping_add(g);
    h = h.wrapping_add(a);
    h ^= a >> 9;
    c = c.wrapping_add(h);
    a = a.wrapping_add(b);
    *v = [a, b, c, d, e, f, g, h];
}

impl Isaac {
    /// `randinit(flag)` on a generator whose `randrsl` holds `seed_slots` (all 256 slots), with
    /// `passes` = 1 (only the first loop of the flag branch... see below) or 2.
    ///
    /// Reference `randinit(TRUE)`: first loop adds randrsl[i..i+8] then mixes and stores into mm;
    /// second loop adds mm[i..i+8], mixes and stores again. `randinit(FALSE)`: single loop without
    /// adding anything (equivalent to the first loop with an all-zero randrsl).
    /// `passes == 1` therefore models the crate's documented "one initialisation pass" for
    /// `seed_from_u64` (first loop only, seed slots added), which for an all-zero key coincides with
    /// `randinit(FALSE)`.
    pub fn init(seed_slots: &[u32; N], passes: u32) -> Isaac {
        // golden ratio, mixed four times: computed, not copied
        let mut v = [0x9e3779b9u32; 8];
        for _ in 0..4 {
            mix32(&mut v);
        }
        let mut mm = [0u32; N];
        // first pass: add the seed
        let mut i = 0;
        while i < N {
            for k in 0..8 {
                v[k] = v[k].wrapping_add(seed_slots[i + k]);
            }
            mix32(&mut v);
            mm[i..i + 8].copy_from_slice(&v);
            i += 8;
        }
        if passes >= 2 {
            // second pass: make all of the seed affect all of mm
            let mut i = 0;
            while i < N {
                for k in 0..8 {
                    v[k] = v[k].wrapping_add(mm[i + k]);
                }
                mix32(&mut v);
                mm[i..i + 8].copy_from_slice(&v);
                i += 8;
            }
        }
        Isaac { mm, aa: 0, bb: 0, cc: 0, randrsl: [0; N], randcnt: 0, cov_ind1: [false; N], cov_ind2: [false; N], internal: Vec::new() }
    }

    /// `from_seed`: the seed's 8 little-endian words fill the first 8 slots, zeros elsewhere,
    /// `randinit(TRUE)`.
    pub fn from_seed_bytes(seed: &[u8]) -> Isaac {
        assert_eq!(seed.len(), 32);
        let mut slots = [0u32; N];
        for i in 0..8 {
            slots[i] = u32::from_le_bytes([seed[4 * i], seed[4 * i + 1], seed[4 * i + 2], seed[4 * i + 3]]);
        }
        Isaac::init(&slots, 2)
    }

    /// all 1024 bytes as 256 LE words, two passes (the crate's from_rng)
    pub fn from_full_bytes(bytes: &[u8]) -> Isaac {
        assert_eq!(bytes.len(), 4 * N);
        let mut slots = [0u32; N];
        for i in 0..N {
            slots[i] = u32::from_le_bytes([bytes[4 * i], bytes[4 * i + 1], bytes[4 * i + 2], bytes[4 * i + 3]]);
        }
        Isaac::init(&slots, 2)
    }

    /// `seed_from_u64`: x low word in slot 0, high word in slot 1, one pass.
    pub fn from_u64(x: u64) -> Isaac {
        let mut slots = [0u32; N];
        slots[0] = x as u32;
        slots[1] = (x >> 32) as u32;
        Isaac::init(&slots, 1)
    }

    /// one call of `isaac()`: fills randrsl[0..256] forward.
    pub fn isaac(&mut self) {
        self.cc = self.cc.wrapping_add(1);
        self.bb = self.bb.wrapping_add(self.cc);
        for i in 0..N {
            let x = self.mm[i];
            match i % 4 {
                0 => self.aa ^= self.aa << 13,
                1 => self.aa ^= self.aa >> 6,
                2 => self.aa ^= self.aa << 2,
                _ => self.aa ^= self.aa >> 16,
            }
            self.aa = self.mm[(i + 128) % N].wrapping_add(self.aa);
            let i1 = ((x >> 2) as usize) % N;
            self.cov_ind1[i1] = true;
            let l1 = self.mm[i1];
            let y = l1.wrapping_add(self.aa).wrapping_add(self.bb);
            self.mm[i] = y;
            let i2 = ((y >> 10) as usize) % N;
            self.cov_ind2[i2] = true;
            let l2 = self.mm[i2];
            self.bb = l2.wrapping_add(x);
            self.randrsl[i] = self.bb;
            // value coincidences a value-keyed shortcut could single out (each about 2^-32 per step)
            if l2 == x && i2 != i {
                self.internal.push((i, "step whose second looked-up word equals the old word of the slot being rewritten, in another slot", x));
            }
            if l1 == x && i1 != i {
                self.internal.push((i, "step whose first looked-up word equals the old word of the slot being rewritten, in another slot", x));
            }
            if y == x {
                self.internal.push((i, "step that rewrites its slot with the same word", x));
            }
            if l1 == l2 && i1 != i2 {
                self.internal.push((i, "step whose two looked-up words are equal in different slots", l1));
            }
            if l1 == 0 || l2 == 0 {
                self.internal.push((i, "step with a zero looked-up word", x));
            }
            if self.aa == 0 || y == 0 {
                self.internal.push((i, "step with a zero accumulator or a zero new table word", x));
            }
        }
    }

    /// the `rand()` macro: `(!randcnt-- ? (isaac(), randcnt = 255, randrsl[randcnt]) : randrsl[randcnt])`
    pub fn rand(&mut self) -> u32 {
        if self.randcnt == 0 {
            self.isaac();
            self.randcnt = N - 1;
        } else {
            self.randcnt -= 1;
        }
        self.randrsl[self.randcnt]
    }

    /// State image in the crate's serde field order for the *core* (mem, a, b, c), LE.
    pub fn core_image(&self) -> Vec<u8> {
        let mut v = Vec::with_capacity(4 * (N + 3));
        for w in self.mm.iter() {
            v.extend_from_slice(&w.to_le_bytes());
        }
        v.extend_from_slice(&self.aa.to_le_bytes());
        v.extend_from_slice(&self.bb.to_le_bytes());
        v.extend_from_slice(&self.cc.to_le_bytes());
        v
    }
}

// ------------------------------------------------------------------------------------------------
// ISAAC-64
// ------------------------------------------------------------------------------------------------
#[derive(Clone)]
pub struct Isaac64 {
    pub mm: [u64; N],
    pub aa: u64,
    pub bb: u64,
    pub cc: u64,
    pub randrsl: [u64; N],
    pub randcnt: usize,
    pub cov_ind1: [bool; N],
    pub cov_ind2: [bool; N],
    /// 32-bit partial value coincidences inside the steps generated so far (step, what, value): each
    /// about 2^-31 per step (full 64-bit coincidences are out of reach of any enumeration)
    pub internal: Vec<(usize, &'static str, u64)>,
}

fn mix64(v: &mut [u64; 8]) {
    let [mut a, mut b, mut c, mut d, mut e, mut f, mut g, mut h] = *v;
    a = a.wrapping_sub(e);
    f ^= h >> 9;
    h = h.wrapping_add(a);
    b = b.wrapping_sub(f);
    g ^= a << 9;
    a = a.wrapping_add(b);
    c = c.wrapping_sub(g);
    h ^= b >> 23;
    b = b.wrapping_add(c);
    d = d.wrapping_sub(h);
    a ^= c << 15;
    c = c.wrapping_add(d);
    e = e.wrapping_sub(a);
    b ^= d >> 14;
    d = d.wrapping_add(e);
    f = f.wrapping_sub(b);
    c ^= e << 20;
    e = e.wrapping_add(f);
    g = g.wrapping_sub(c);
    d ^= f >> 17;
    f = f.wrapping_add(g);
    h = h.wrapping_sub(d);
    e ^= g << 14;
    g = g.wrapping_add(h);
    *v = [a, b, c, d, e, f, g, h];
}

impl Isaac64 {
    pub fn init(seed_slots: &[u64; N], passes: u32) -> Isaac64 {
        let mut v = [0x9e3779b97f4a7c13u64; 8];
        for _ in 0..4 {
            mix64(&mut v);
        }
        let mut mm = [0u64; N];
        let mut i = 0;
        while i < N {
            for k in 0..8 {
                v[k] = v[k].wrapping_add(seed_slots[i + k]);
            }
            mix64(&mut v);
            mm[i..i + 8].copy_from_slice(&v);
            i += 8;
        }
        if passes >= 2 {
            let mut i = 0;
            while i < N {
                for k in 0..8 {
                    v[k] = v[k].wrapping_add(mm[i + k]);
                }
                mix64(&mut v);
                mm[i..i + 8].copy_from_slice(&v);
                i += 8;
            }
        }
        Isaac64 { mm, aa: 0, bb: 0, cc: 0, randrsl: [0; N], randcnt: 0, cov_ind1: [false; N], cov_ind2: [false; N], internal: Vec::new() }
    }

    pub fn from_seed_bytes(seed: &[u8]) -> Isaac64 {
        assert_eq!(seed.len(), 32);
        let mut slots = [0u64; N];
        for i in 0..4 {
            let mut b = [0u8; 8];
            b.copy_from_slice(&seed[8 * i..8 * i + 8]);
            slots[i] = u64::from_le_bytes(b);
        }
        Isaac64::init(&slots, 2)
    }

    pub fn from_full_bytes(bytes: &[u8]) -> Isaac64 {
        assert_eq!(bytes.len(), 8 * N);
        let mut slots = [0u64; N];
        for i in 0..N {
            let mut b = [0u8; 8];
            b.copy_from_slice(&bytes[8 * i..8 * i + 8]);
            slots[i] = u64::from_le_bytes(b);
        }
        Isaac64::init(&slots, 2)
    }

    pub fn from_u64(x: u64) -> Isaac64 {
        let mut slots = [0u64; N];
        slots[0] = x;
        Isaac64::init(&slots, 1)
    }

    pub fn isaac64(&mut self) {
        self.cc = self.cc.wrapping_add(1);
        self.bb = self.bb.wrapping_add(self.cc);
        for i in 0..N {
            let x = self.mm[i];
            match i % 4 {
                0 => self.aa = !(self.aa ^ (self.aa << 21)),
                1 => self.aa ^= self.aa >> 5,
                2 => self.aa ^= self.aa << 12,
                _ => self.aa ^= self.aa >> 33,
            }
            self.aa = self.mm[(i + 128) % N].wrapping_add(self.aa);
            let i1 = ((x >> 3) as usize) % N;
            self.cov_ind1[i1] = true;
            let l1 = self.mm[i1];
            let y = l1.wrapping_add(self.aa).wrapping_add(self.bb);
            self.mm[i] = y;
            let i2 = ((y >> 11) as usize) % N;
            self.cov_ind2[i2] = true;
            let l2 = self.mm[i2];
            self.bb = l2.wrapping_add(x);
            self.randrsl[i] = self.bb;
            // partial (one 32-bit half) value coincidences a half-word-keyed shortcut could single out
            let lo = |v: u64| v as u32;
            let hi = |v: u64| (v >> 32) as u32;
            if (lo(l2) == lo(x) || hi(l2) == hi(x)) && i2 != i {
                self.internal.push((i, "step whose second looked-up word shares a 32-bit half with the old word of the slot being rewritten, in another slot", x));
            }
            if (lo(l1) == lo(x) || hi(l1) == hi(x)) && i1 != i {
                self.internal.push((i, "step whose first looked-up word shares a 32-bit half with the old word of the slot being rewritten, in another slot", x));
            }
            if lo(y) == lo(x) || hi(y) == hi(x) {
                self.internal.push((i, "step that rewrites its slot with a word sharing a 32-bit half with the old one", x));
            }
            if lo(l1) == 0 || hi(l1) == 0 || lo(l2) == 0 || hi(l2) == 0 {
                self.internal.push((i, "step with a looked-up word that has a zero 32-bit half", x));
            }
        }
    }

    pub fn rand(&mut self) -> u64 {
        if self.randcnt == 0 {
            self.isaac64();
            self.randcnt = N - 1;
        } else {
            self.randcnt -= 1;
        }
        self.randrsl[self.randcnt]
    }

    pub fn core_image(&self) -> Vec<u8> {
        let mut v = Vec::with_capacity(8 * (N + 3));
        for w in self.mm.iter() {
            v.extend_from_slice(&w.to_le_bytes());
        }
        v.extend_from_slice(&self.aa.to_le_bytes());
        v.extend_from_slice(&self.bb.to_le_bytes());
        v.extend_from_slice(&self.cc.to_le_bytes());
        v
    }
}

/// Vectors: the well-known first outputs of the *unseeded* reference generators
/// (randinit(FALSE); first batch handed out from randrsl[255] downwards), and the seeded vectors
/// that the reference programs print for the seed words 1..8 style keys used by rust-random.
pub fn self_check() -> Result<(), String> {
    // ISAAC unseeded: the reference output file randvect.txt starts f650e4c8 e448e96d 98db2fb4 ...
    // which is randrsl[0..] of the *second* batch printed forward; the first values obtained via
    // rand() from a fresh randinit(FALSE) generator are (rust-random test_isaac_new_uninitialized):
    {
        let mut g = Isaac::from_u64(0);
        let e = [0x71D71FD2u32, 0xB54ADAE7, 0xD4788559, 0xC36129FA, 0x21DC1EA9, 0x3CB879CA, 0xD83B237F, 0xFA3CE5BD, 0x8D048509, 0xD82E9489];
        for (i, &v) in e.iter().enumerate() {
            let r = g.rand();
            if r != v {
                return Err(format!("ref_isaac unseeded word {} = {:08x} expected {:08x}", i, r, v));
            }
        }
    }
    {
        let mut g = Isaac64::from_u64(0);
        let e = [
            0xF67DFBA498E4937Cu64,
            0x84A5066A9204F380,
            0xFEE34BD5F5514DBB,
            0x4D1664739B8F80D6,
            0x8607459AB52A14AA,
            0x0E78BC5A98529E49,
            0xFE5332822AD13777,
            0x556C27525E33D01A,
            0x08643CA615F3149F,
            0xD0771FAF3CB04714,
        ];
        for (i, &v) in e.iter().enumerate() {
            let r = g.rand();
            if r != v {
                return Err(format!("ref_isaac64 unseeded word {} = {:016x} expected {:016x}", i, r, v));
            }
        }
    }
    // seeded (randinit(TRUE)) vectors printed by the reference programs for the keys rust-random uses
    {
        let seed: [u8; 32] = [1, 0, 0, 0, 23, 0, 0, 0, 200, 1, 0, 0, 210, 30, 0, 0, 57, 48, 0, 0, 0, 0, 0, 0, 0, 0, 0, 0, 0, 0, 0, 0];
        let mut g = Isaac::from_seed_bytes(&seed);
        let e = [2558573138u32, 873787463, 263499565, 2103644246, 3595684709, 4203127393, 264982119, 2765226902, 2737944514, 3900253796];
        for (i, &v) in e.iter().enumerate() {
            let r = g.rand();
            if r != v {
                return Err(format!("ref_isaac seeded word {} = {} expected {}", i, r, v));
            }
        }
        let seed: [u8; 32] = [1, 0, 0, 0, 0, 0, 0, 0, 23, 0, 0, 0, 0, 0, 0, 0, 200, 1, 0, 0, 0, 0, 0, 0, 210, 30, 0, 0, 0, 0, 0, 0];
        let mut g = Isaac64::from_seed_bytes(&seed);
        let e = [15071495833797886820u64, 7720185633435529318, 10836773366498097981, 5414053799617603544, 12890513357046278984, 17001051845652595546, 9240803642279356310, 12558996012687158051, 14673053937227185542, 1677046725350116783];
        for (i, &v) in e.iter().enumerate() {
            let r = g.rand();
            if r != v {
                return Err(format!("ref_isaac64 seeded word {} = {} expected {}", i, r, v));
            }
        }
    }
    Ok(())
}
