//! The Jitterentropy 2.1.0 collection procedure as rand_jitter documents it, as a pure function of
//! the readings the timer returns. The model consumes readings from a slice and reports how many
//! it used. No memory-access noise source (it has no influence on results), no loop-count folding
//! beyond *consuming* the reading it is based on.

/// Fibonacci LFSR x^64+x^61+x^56+x^31+x^28+x^23+1: the 64 bits of `time` are injected LSB first.
pub fn lfsr(mut data: u64, time: u64) -> u64 {
    for i in 0..64 {
        let bit = (time >> i) & 1;
        data ^= bit;
        let fb = ((data >> 63) ^ (data >> 60) ^ (data >> 55) ^ (data >> 30) ^ (data >> 27) ^ (data >> 22)) & 1;
        // the crate applies the taps sequentially on the low bit; taps 60..22 read bits above bit 0,
        // which the earlier xors did not change, so the sequential and the parallel form agree.
        data ^= fb;
        data = data.rotate_left(1);
    }
    data
}

/// stir: mixer starts at 0x98badcfe10325476; for each pool bit i (LSB first): if set, mixer ^=
/// 0x67452301efcdab89; then mixer = rotl(mixer,1); finally pool ^= mixer.
pub fn stir(pool: u64) -> u64 {
    const CONSTANT: u64 = 0x67452301efcdab89;
    let mut mixer: u64 = 0x98badcfe10325476;
    for i in 0..64 {
        if (pool >> i) & 1 == 1 {
            mixer ^= CONSTANT;
        }
        mixer = mixer.rotate_left(1);
    }
    pool ^ mixer
}

#[derive(Clone, Debug)]
pub struct Model {
    pub pool: u64,
    pub rounds: u8,
    pub half_pending: bool,
    /// instrumentation (not part of the compared state): stuck measurements seen so far
    /// (priming measurements included) and completed collections
    pub stuck_events: u64,
    pub collections: u64,
}

/// Stuck-test state of one collection.
#[derive(Clone, Copy, Default)]
struct Ec {
    prev_time: u64,
    last_delta: i32,
    last_delta2: i32,
}

impl Ec {
    fn stuck(&mut self, d: i32) -> bool {
        let d2 = self.last_delta.wrapping_sub(d);
        let d3 = d2.wrapping_sub(self.last_delta2);
        self.last_delta = d;
        self.last_delta2 = d2;
        d == 0 || d2 == 0 || d3 == 0
    }
}

pub struct Readings<'a> {
    pub r: &'a [u64],
    pub pos: usize,
}

/// Raised when the script runs out: the call "did not return" within the horizon.
#[derive(Debug, Clone, Copy, PartialEq, Eq)]
pub struct OutOfReadings;

impl<'a> Readings<'a> {
    pub fn new(r: &'a [u64], pos: usize) -> Self {
        Readings { r, pos }
    }
    fn next(&mut self) -> Result<u64, OutOfReadings> {
        if self.pos >= self.r.len() {
            return Err(OutOfReadings);
        }
        let v = self.r[self.pos];
        self.pos += 1;
        Ok(v)
    }
}

#[derive(Clone, Debug, PartialEq, Eq)]
pub enum TimerVerdict {
    Ok(u8),
    NoTimer,
    CoarseTimer,
    NotMonotonic,
    TinyVariations,
    TooManyStuck,
}

impl Model {
    pub fn new() -> Model {
        Model { pool: 0, rounds: 64, half_pending: false, stuck_events: 0, collections: 0 }
    }

    /// One measurement: [loop-count reading][probe reading][loop-count reading]; returns accepted?
    fn measure(&mut self, ec: &mut Ec, rd: &mut Readings) -> Result<bool, OutOfReadings> {
        let _lc1 = rd.next()?; // memory-access loop count
        let t = rd.next()?;
        let delta = t.wrapping_sub(ec.prev_time) as i64 as i32;
        ec.prev_time = t;
        let _lc2 = rd.next()?; // lfsr loop count
        self.pool = lfsr(self.pool, delta as i64 as u64); // sign-extended 32-bit delta
        if ec.stuck(delta) {
            self.stuck_events += 1;
            return Ok(false);
        }
        self.pool = self.pool.rotate_left(7);
        Ok(true)
    }

    /// One 64-bit collection.
    pub fn collect(&mut self, rd: &mut Readings) -> Result<u64, OutOfReadings> {
        let mut ec = Ec { prev_time: rd.next()?, last_delta: 0, last_delta2: 0 };
        let _ = self.measure(&mut ec, rd)?; // priming measurement (folded, result ignored)
        for _ in 0..self.rounds {
            while !self.measure(&mut ec, rd)? {}
        }
        self.pool = stir(self.pool);
        self.collections += 1;
        Ok(self.pool)
    }

    pub fn next_u64(&mut self, rd: &mut Readings) -> Result<u64, OutOfReadings> {
        self.half_pending = false;
        self.collect(rd)
    }

    pub fn next_u32(&mut self, rd: &mut Readings) -> Result<u32, OutOfReadings> {
        if self.half_pending {
            self.half_pending = false;
            Ok((self.pool >> 32) as u32)
        } else {
            let v = self.next_u64(rd)?;
            self.half_pending = true;
            Ok(v as u32)
        }
    }

    pub fn fill_bytes(&mut self, dest: &mut [u8], rd: &mut Readings) -> Result<(), OutOfReadings> {
        let mut off = 0;
        while dest.len() - off >= 8 {
            let v = self.next_u64(rd)?.to_le_bytes();
            dest[off..off + 8].copy_from_slice(&v);
            off += 8;
        }
        let n = dest.len() - off;
        if n > 4 {
            let v = self.next_u64(rd)?.to_le_bytes();
            dest[off..].copy_from_slice(&v[..n]);
        } else if n > 0 {
            let v = self.next_u32(rd)?.to_le_bytes();
            dest[off..].copy_from_slice(&v[..n]);
        }
        Ok(())
    }

    /// timer_stats(var_rounds): time; [lc][lc] if var; fold the full 64-bit time; time2.
    pub fn timer_stats(&mut self, var_rounds: bool, rd: &mut Readings) -> Result<i64, OutOfReadings> {
        let t = rd.next()?;
        if var_rounds {
            let _ = rd.next()?;
            let _ = rd.next()?;
        }
        self.pool = lfsr(self.pool, t);
        let t2 = rd.next()?;
        Ok(t2.wrapping_sub(t) as i64)
    }

    pub fn set_rounds(&mut self, r: u8) {
        assert!(r > 0);
        self.rounds = r;
    }

    pub fn clone_model(&self) -> Model {
        Model { pool: self.pool, rounds: self.rounds, half_pending: false, stuck_events: self.stuck_events, collections: self.collections }
    }

    /// test_timer as documented (after the two fixes recorded in known_findings.json):
    /// one priming reading, then 400 probes of 4 readings [time][lc][lc][time2]; the first 100 only
    /// warm up (but still return NoTimer/CoarseTimer); side effect: every probe folds `time` into
    /// the pool.
    pub fn test_timer(&mut self, rd: &mut Readings) -> Result<TimerVerdict, OutOfReadings> {
        let mut ec = Ec { prev_time: rd.next()?, last_delta: 0, last_delta2: 0 };
        let mut delta_sum: u64 = 0;
        let mut old_delta: i32 = 0;
        let mut backwards = 0u32;
        let mut count_mod = 0u32;
        let mut count_stuck = 0u32;
        for i in 0..400u32 {
            let time = rd.next()?;
            let _ = rd.next()?;
            let _ = rd.next()?;
            self.pool = lfsr(self.pool, time);
            let time2 = rd.next()?;
            if time == 0 || time2 == 0 {
                return Ok(TimerVerdict::NoTimer);
            }
            let delta = time2.wrapping_sub(time) as i64 as i32;
            if delta == 0 {
                return Ok(TimerVerdict::CoarseTimer);
            }
            if i < 100 {
                continue;
            }
            if ec.stuck(delta) {
                count_stuck += 1;
            }
            if time2 <= time {
                backwards += 1;
            }
            if delta % 100 == 0 {
                count_mod += 1;
            }
            delta_sum += (delta as i64 - old_delta as i64).unsigned_abs();
            old_delta = delta;
        }
        if backwards > 3 {
            return Ok(TimerVerdict::NotMonotonic);
        }
        if delta_sum < 2 * 300 {
            return Ok(TimerVerdict::TinyVariations);
        }
        if count_mod > 270 {
            return Ok(TimerVerdict::CoarseTimer);
        }
        if count_stuck > 270 {
            return Ok(TimerVerdict::TooManyStuck);
        }
        let mean = delta_sum / 300;
        Ok(TimerVerdict::Ok(rounds_for_mean(mean)))
    }
}

/// The crate's documented estimate: bits per round = log2(mean)/2, rounds = roundup(64 / bits);
/// for mean < 16 an exact table, above it `bitlen` is used for log2.
pub fn rounds_for_mean(mean: u64) -> u8 {
    if mean >= 16 {
        let log2 = 64 - mean.leading_zeros();
        ((128 + log2 - 1) / log2) as u8
    } else {
        // ceil(64 / (log2(mean)/2)) computed independently with exact integer arithmetic:
        // smallest r with mean^r >= 2^128
        if mean < 2 {
            return 0;
        }
        let mut r = 0u32;
        // compare r*log2(mean) >= 128 via big powers: use f64 with a safety re-check on integers
        // (mean <= 15, r <= 128: mean^r overflows u128, so use logarithms in high precision via
        // repeated squaring on (mantissa, exponent) pairs is overkill; a 256-bit product suffices)
        let mut acc = [1u64, 0, 0, 0, 0, 0, 0, 0, 0]; // 576-bit little-endian accumulator
        loop {
            // acc >= 2^128 ?
            if acc[2..].iter().any(|&w| w != 0) {
                return r as u8;
            }
            // acc *= mean
            let mut carry = 0u128;
            for w in acc.iter_mut() {
                let p = (*w as u128) * (mean as u128) + carry;
                *w = p as u64;
                carry = p >> 64;
            }
            r += 1;
        }
    }
}

pub fn self_check() -> Result<(), String> {
    // the table printed in the crate's documentation/comment for means 2..15
    let table = [128u8, 81, 64, 56, 50, 46, 43, 41, 39, 38, 36, 35, 34, 33];
    for (i, &t) in table.iter().enumerate() {
        let m = (i + 2) as u64;
        if rounds_for_mean(m) != t {
            return Err(format!("ref_jitter rounds_for_mean({}) = {} expected {}", m, rounds_for_mean(m), t));
        }
    }
    // LFSR: folding 0 into 0 stays 0; folding a single 1-bit into an empty pool gives the feedback image
    if lfsr(0, 0) != 0 {
        return Err("ref_jitter lfsr(0,0) != 0".into());
    }
    // stir of 0 is the rotated start mixer (64 rotations = identity)
    if stir(0) != 0x98badcfe10325476 {
        return Err("ref_jitter stir(0)".into());
    }
    Ok(())
}
