//! Marsaglia's xor128 (Xorshift RNGs, 2003, p. 5): t=(x^(x<<11)); x=y; y=z; z=w; w=(w^(w>>19))^(t^(t>>8)).

/// state (x,y,z,w); returns the new w.
#[inline(always)]
pub fn step(s: &mut [u32; 4]) -> u32 {
    let t = s[0] ^ (s[0] << 11);
    s[0] = s[1];
    s[1] = s[2];
    s[2] = s[3];
    s[3] = (s[3] ^ (s[3] >> 19)) ^ (t ^ (t >> 8));
    s[3]
}

pub fn state_from_seed(seed: &[u8]) -> [u32; 4] {
    assert_eq!(seed.len(), 16);
    let mut s = [0u32; 4];
    for i in 0..4 {
        s[i] = u32::from_le_bytes([seed[4 * i], seed[4 * i + 1], seed[4 * i + 2], seed[4 * i + 3]]);
    }
    s
}

pub fn seed_from_state(s: &[u32; 4]) -> Vec<u8> {
    let mut v = Vec::with_capacity(16);
    for w in s {
        v.extend_from_slice(&w.to_le_bytes());
    }
    v
}

/// The all-zero-seed replacement documented by rand_xorshift.
pub const ZERO_REPLACEMENT: [u32; 4] = [0x0BAD_5EED; 4];

pub fn self_check() -> Result<(), String> {
    // Marsaglia's paper defaults: x=123456789,y=362436069,z=521288629,w=88675123 -> first outputs
    let mut s = [123456789u32, 362436069, 521288629, 88675123];
    let e = [3701687786u32, 458299110, 2500872618, 3633119408, 516391518];
    for (i, &v) in e.iter().enumerate() {
        let r = step(&mut s);
        if r != v {
            return Err(format!("ref_xor128 word {} = {} expected {}", i, r, v));
        }
    }
    Ok(())
}
