//! Documented seed expansions.

use crate::xoshiro::splitmix64_next;

/// xoshiro family `seed_from_u64(x)`: the first `len` bytes of the SplitMix64 stream started at x
/// (each u64 little-endian; a trailing partial word takes the low bytes... not needed: lengths are
/// multiples of 8).
pub fn splitmix_expand(x: u64, len: usize) -> Vec<u8> {
    let mut st = x;
    let mut out = Vec::with_capacity(len);
    while out.len() < len {
        let v = splitmix64_next(&mut st).to_le_bytes();
        let take = (len - out.len()).min(8);
        out.extend_from_slice(&v[..take]);
    }
    out
}

/// rand_core 0.9 default `seed_from_u64`: PCG32 (XSH-RR), state advanced first, MUL/INC as
/// documented, each 32-bit output little-endian.
pub fn pcg32_expand(x: u64, len: usize) -> Vec<u8> {
    const MUL: u64 = 6364136223846793005;
    const INC: u64 = 11634580027462260723;
    let mut state = x;
    let mut out = Vec::with_capacity(len);
    while out.len() < len {
        state = state.wrapping_mul(MUL).wrapping_add(INC);
        let xorshifted = (((state >> 18) ^ state) >> 27) as u32;
        let rot = (state >> 59) as u32;
        let v = xorshifted.rotate_right(rot).to_le_bytes();
        let take = (len - out.len()).min(4);
        out.extend_from_slice(&v[..take]);
    }
    out
}

pub fn inv_odd(a: u64) -> u64 {
    // Newton iteration for the inverse of an odd number modulo 2^64
    let mut x = a;
    for _ in 0..6 {
        x = x.wrapping_mul(2u64.wrapping_sub(a.wrapping_mul(x)));
    }
    x
}

pub fn unxorshift(mut z: u64, k: u32) -> u64 {
    // invert z ^= z >> k
    let mut s = k;
    while s < 64 {
        z ^= z >> s;
        s *= 2;
    }
    z
}

/// Inverse of the splitmix64.c output function (finaliser), so that arguments whose j-th expansion
/// word has a chosen value can be constructed.
pub fn splitmix_unmix(y: u64) -> u64 {
    let mut z = unxorshift(y, 31);
    z = z.wrapping_mul(inv_odd(0x94d049bb133111eb));
    z = unxorshift(z, 27);
    z = z.wrapping_mul(inv_odd(0xbf58476d1ce4e5b9));
    unxorshift(z, 30)
}

/// The u64 argument x for which the j-th (1-based) SplitMix64 output of the stream started at x is y.
pub fn splitmix_argument_for(j: u64, y: u64) -> u64 {
    splitmix_unmix(y).wrapping_sub(j.wrapping_mul(crate::xoshiro::SPLITMIX_PHI))
}

/// SplitMix64 counters (state *before* the call) for which a chosen intermediate value of the
/// finaliser of next_u64 (stage 0..=4: after the first xor-shift, the first multiply, the second
/// xor-shift, the second multiply, the final xor-shift) equals `v`.
pub fn splitmix_counter_for_stage64(stage: usize, v: u64) -> u64 {
    let (c1, c2) = (0xbf58476d1ce4e5b9u64, 0x94d049bb133111ebu64);
    let mut z = v;
    if stage >= 4 {
        z = unxorshift(z, 31);
    }
    if stage >= 3 {
        z = z.wrapping_mul(inv_odd(c2));
    }
    if stage >= 2 {
        z = unxorshift(z, 27);
    }
    if stage >= 1 {
        z = z.wrapping_mul(inv_odd(c1));
    }
    z = unxorshift(z, 30);
    z.wrapping_sub(crate::xoshiro::SPLITMIX_PHI)
}

/// The same for the 32-bit finaliser of next_u32 (stage 0..=3: after the first xor-shift, the first
/// multiply, the second xor-shift, the second multiply).
pub fn splitmix_counter_for_stage32(stage: usize, v: u64) -> u64 {
    let (d1, d2) = (0x62a9d9ed799705f5u64, 0xcb24d0a5c88c35b3u64);
    let mut z = v;
    if stage >= 3 {
        z = z.wrapping_mul(inv_odd(d2));
    }
    if stage >= 2 {
        z = unxorshift(z, 28);
    }
    if stage >= 1 {
        z = z.wrapping_mul(inv_odd(d1));
    }
    z = unxorshift(z, 33);
    z.wrapping_sub(crate::xoshiro::SPLITMIX_PHI)
}

pub fn self_check() -> Result<(), String> {
    // stage inverses: recompute forwards
    for (st, v) in [(0usize, 0xffff_ffffu64), (1, 1 << 32), (2, 0x1_2345_6789), (3, u64::MAX), (4, 0)] {
        let x = splitmix_counter_for_stage64(st, v);
        let z0 = x.wrapping_add(crate::xoshiro::SPLITMIX_PHI);
        let a1 = z0 ^ (z0 >> 30);
        let a2 = a1.wrapping_mul(0xbf58476d1ce4e5b9);
        let a3 = a2 ^ (a2 >> 27);
        let a4 = a3.wrapping_mul(0x94d049bb133111eb);
        let a5 = a4 ^ (a4 >> 31);
        if [a1, a2, a3, a4, a5][st] != v {
            return Err(format!("splitmix stage inverse (64) failed for stage {} v={:#x}", st, v));
        }
    }
    for (st, v) in [(0usize, 7u64), (1, 1 << 33), (2, 0x1_ffff_ffff), (3, u64::MAX)] {
        let x = splitmix_counter_for_stage32(st, v);
        let z0 = x.wrapping_add(crate::xoshiro::SPLITMIX_PHI);
        let b1 = z0 ^ (z0 >> 33);
        let b2 = b1.wrapping_mul(0x62a9d9ed799705f5);
        let b3 = b2 ^ (b2 >> 28);
        let b4 = b3.wrapping_mul(0xcb24d0a5c88c35b3);
        if [b1, b2, b3, b4][st] != v {
            return Err(format!("splitmix stage inverse (32) failed for stage {} v={:#x}", st, v));
        }
    }
    for (j, y) in [(1u64, 0u64), (3, 0xdeadbeef00000000), (8, 0x00000000ffffffff), (2, u64::MAX)] {
        let x = splitmix_argument_for(j, y);
        let e = splitmix_expand(x, 8 * j as usize);
        let got = u64::from_le_bytes(e[8 * (j as usize - 1)..8 * j as usize].try_into().unwrap());
        if got != y {
            return Err(format!("splitmix inverse self-check failed for j={} y={:#x}", j, y));
        }
    }
    Ok(())
}
