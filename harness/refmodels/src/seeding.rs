//! Documented seed expansions.

use crate::xoshiro::splitmix64_next;

/// xoshiro family `seed_from_u64(x)`: the first `len` bytes of the SplitMix64 stream started at x
/// (each u64 little-endian; a trailing partial word takes the low bytes... not needed: lengths are
/// multiples of 8).
pub fn splitmix_expand(x: u64, len: usize) -> Vec<u8> {
    let mut st = x;
    let mut out = Vec::with_capacity(len);
    while out.len() < len {
        let v = splitmix64_next(&mut st).to_le_bytes();
        let take = (len - out.len()).min(8);
        out.extend_from_slice(&v[..take]);
    }
    out
}

/// rand_core 0.9 default `seed_from_u64`: PCG32 (XSH-RR), state advanced first, MUL/INC as
/// documented, each 32-bit output little-endian.
pub fn pcg32_expand(x: u64, len: usize) -> Vec<u8> {
    const MUL: u64 = 6364136223846793005;
    const INC: u64 = 11634580027462260723;
    let mut state = x;
    let mut out = Vec::with_capacity(len);
    while out.len() < len {
        state = state.wrapping_mul(MUL).wrapping_add(INC);
        let xorshifted = (((state >> 18) ^ state) >> 27) as u32;
        let rot = (state >> 59) as u32;
        let v = xorshifted.rotate_right(rot).to_le_bytes();
        let take = (len - out.len()).min(4);
        out.extend_from_slice(&v[..take]);
    }
    out
}

fn inv_odd(a: u64) -> u64 {
    // Newton iteration for the inverse of an odd number modulo 2^64
    let mut x = a;
    for _ in 0..6 {
        x = x.wrapping_mul(2u64.wrapping_sub(a.wrapping_mul(x)));
    }
    x
}

fn unxorshift(mut z: u64, k: u32) -> u64 {
    // invert z ^= z >> k
    let mut s = k;
    while s < 64 {
        z ^= z >> s;
        s *= 2;
    }
    z
}

/// Inverse of the splitmix64.c output function (finaliser), so that arguments whose j-th expansion
/// word has a chosen value can be constructed.
pub fn splitmix_unmix(y: u64) -> u64 {
    let mut z = unxorshift(y, 31);
    z = z.wrapping_mul(inv_odd(0x94d049bb133111eb));
    z = unxorshift(z, 27);
    z = z.wrapping_mul(inv_odd(0xbf58476d1ce4e5b9));
    unxorshift(z, 30)
}

/// The u64 argument x for which the j-th (1-based) SplitMix64 output of the stream started at x is y.
pub fn splitmix_argument_for(j: u64, y: u64) -> u64 {
    splitmix_unmix(y).wrapping_sub(j.wrapping_mul(crate::xoshiro::SPLITMIX_PHI))
}

pub fn self_check() -> Result<(), String> {
    for (j, y) in [(1u64, 0u64), (3, 0xdeadbeef00000000), (8, 0x00000000ffffffff), (2, u64::MAX)] {
        let x = splitmix_argument_for(j, y);
        let e = splitmix_expand(x, 8 * j as usize);
        let got = u64::from_le_bytes(e[8 * (j as usize - 1)..8 * j as usize].try_into().unwrap());
        if got != y {
            return Err(format!("splitmix inverse self-check failed for j={} y={:#x}", j, y));
        }
    }
    Ok(())
}
