//! Documented seed expansions.

use crate::xoshiro::splitmix64_next;

/// xoshiro family `seed_from_u64(x)`: the first `len` bytes of the SplitMix64 stream started at x
/// (each u64 little-endian; a trailing partial word takes the low bytes... not needed: lengths are
/// multiples of 8).
pub fn splitmix_expand(x: u64, len: usize) -> Vec<u8> {
    let mut st = x;
    let mut out = Vec::with_capacity(len);
    while out.len() < len {
        let v = splitmix64_next(&mut st).to_le_bytes();
        let take = (len - out.len()).min(8);
        out.extend_from_slice(&v[..take]);
    }
    out
}

/// rand_core 0.9 default `seed_from_u64`: PCG32 (XSH-RR), state advanced first, MUL/INC as
/// documented, each 32-bit output little-endian.
pub fn pcg32_expand(x: u64, len: usize) -> Vec<u8> {
    const MUL: u64 = 6364136223846793005;
    const INC: u64 = 11634580027462260723;
    let mut state = x;
    let mut out = Vec::with_capacity(len);
    while out.len() < len {
        state = state.wrapping_mul(MUL).wrapping_add(INC);
        let xorshifted = (((state >> 18) ^ state) >> 27) as u32;
        let rot = (state >> 59) as u32;
        let v = xorshifted.rotate_right(rot).to_le_bytes();
        let take = (len - out.len()).min(4);
        out.extend_from_slice(&v[..take]);
    }
    out
}
