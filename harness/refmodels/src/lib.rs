//! Reference models (oracles) for the rust-random/rngs verification harness.
//! None of this code depends on, or shares code with, the crates under test.
pub mod gf2;
pub mod hc128;
pub mod isaac;
pub mod jitter;
pub mod seeding;
pub mod xor128;
pub mod xoshiro;

/// Validate every model against its published vectors; the harness refuses to run otherwise.
pub fn self_check_all() -> Result<(), String> {
    xoshiro::self_check()?;
    xor128::self_check()?;
    hc128::self_check()?;
    isaac::self_check()?;
    jitter::self_check()?;
    gf2::self_check()?;
    seeding::self_check()?;
    Ok(())
}

#[cfg(test)]
mod tests {
    #[test]
    fn models_reproduce_published_vectors() {
        super::self_check_all().unwrap();
    }
}
