//! Dense GF(2) linear algebra on bit matrices, plus a small unsigned big integer for the order
//! computation of C07.

/// A bit vector of `n` bits in little-endian u64 words.
#[derive(Clone, PartialEq, Eq, Hash, Debug)]
pub struct BitVec {
    pub n: usize,
    pub w: Vec<u64>,
}

impl BitVec {
    pub fn zero(n: usize) -> BitVec {
        BitVec { n, w: vec![0; (n + 63) / 64] }
    }
    pub fn unit(n: usize, i: usize) -> BitVec {
        let mut v = BitVec::zero(n);
        v.set(i, true);
        v
    }
    pub fn from_bytes(n: usize, bytes: &[u8]) -> BitVec {
        assert_eq!(bytes.len() * 8, n);
        let mut v = BitVec::zero(n);
        for (i, b) in bytes.iter().enumerate() {
            v.w[i / 8] |= (*b as u64) << (8 * (i % 8));
        }
        v
    }
    pub fn to_bytes(&self) -> Vec<u8> {
        assert_eq!(self.n % 8, 0);
        (0..self.n / 8).map(|i| (self.w[i / 8] >> (8 * (i % 8))) as u8).collect()
    }
    #[inline]
    pub fn get(&self, i: usize) -> bool {
        (self.w[i / 64] >> (i % 64)) & 1 == 1
    }
    #[inline]
    pub fn set(&mut self, i: usize, b: bool) {
        if b {
            self.w[i / 64] |= 1 << (i % 64);
        } else {
            self.w[i / 64] &= !(1 << (i % 64));
        }
    }
    #[inline]
    pub fn xor_assign(&mut self, o: &BitVec) {
        for (a, b) in self.w.iter_mut().zip(o.w.iter()) {
            *a ^= *b;
        }
    }
    pub fn is_zero(&self) -> bool {
        self.w.iter().all(|&x| x == 0)
    }
    pub fn weight(&self) -> u32 {
        self.w.iter().map(|x| x.count_ones()).sum()
    }
}

/// Matrix with `rows` output bits and `cols` input bits, stored **by columns**: `col[j]` is the
/// image of basis vector e_j (a BitVec of `rows` bits). y = M x = XOR of col[j] for x_j = 1.
#[derive(Clone, PartialEq, Eq, Debug)]
pub struct Mat {
    pub rows: usize,
    pub cols: usize,
    pub col: Vec<BitVec>,
}

impl Mat {
    pub fn zero(rows: usize, cols: usize) -> Mat {
        Mat { rows, cols, col: (0..cols).map(|_| BitVec::zero(rows)).collect() }
    }
    pub fn identity(n: usize) -> Mat {
        Mat { rows: n, cols: n, col: (0..n).map(|i| BitVec::unit(n, i)).collect() }
    }
    pub fn is_identity(&self) -> bool {
        self.rows == self.cols && (0..self.cols).all(|j| self.col[j] == BitVec::unit(self.rows, j))
    }
    pub fn apply(&self, x: &BitVec) -> BitVec {
        assert_eq!(x.n, self.cols);
        let mut y = BitVec::zero(self.rows);
        for (wi, &word) in x.w.iter().enumerate() {
            let mut w = word;
            while w != 0 {
                let b = w.trailing_zeros() as usize;
                w &= w - 1;
                y.xor_assign(&self.col[wi * 64 + b]);
            }
        }
        y
    }
    /// self * other (apply other first).
    pub fn mul(&self, other: &Mat) -> Mat {
        assert_eq!(self.cols, other.rows);
        Mat { rows: self.rows, cols: other.cols, col: other.col.iter().map(|c| self.apply(c)).collect() }
    }
    pub fn square(&self) -> Mat {
        self.mul(self)
    }
    /// self^(2^k)
    pub fn pow2k(&self, k: usize) -> Mat {
        let mut m = self.clone();
        for _ in 0..k {
            m = m.square();
        }
        m
    }
    /// self^e for a big exponent given as little-endian u64 limbs.
    pub fn pow_big(&self, e: &BigU) -> Mat {
        let mut result = Mat::identity(self.rows);
        let nb = e.bits();
        if nb == 0 {
            return result;
        }
        for i in (0..nb).rev() {
            result = result.square();
            if e.bit(i) {
                result = result.mul(self);
            }
        }
        result
    }
    /// rank by Gaussian elimination on the columns.
    pub fn rank(&self) -> usize {
        self.rank_and_kernel().0
    }
    /// (rank, a non-zero kernel vector if rank < cols)
    pub fn rank_and_kernel(&self) -> (usize, Option<BitVec>) {
        // Eliminate on columns, tracking the combination of original columns.
        let mut cols: Vec<(BitVec, BitVec)> = self.col.iter().enumerate().map(|(j, c)| (c.clone(), BitVec::unit(self.cols, j))).collect();
        let mut rank = 0;
        let mut kernel = None;
        let mut pivots: Vec<(usize, usize)> = Vec::new(); // (pivot row bit, index in cols)
        for j in 0..cols.len() {
            // reduce column j by existing pivots
            for &(pr, pj) in pivots.iter() {
                if cols[j].0.get(pr) {
                    let (a, b) = (cols[pj].0.clone(), cols[pj].1.clone());
                    cols[j].0.xor_assign(&a);
                    cols[j].1.xor_assign(&b);
                }
            }
            if cols[j].0.is_zero() {
                if kernel.is_none() {
                    kernel = Some(cols[j].1.clone());
                }
            } else {
                // pivot = lowest set bit
                let mut pr = 0;
                for (wi, &w) in cols[j].0.w.iter().enumerate() {
                    if w != 0 {
                        pr = wi * 64 + w.trailing_zeros() as usize;
                        break;
                    }
                }
                pivots.push((pr, j));
                rank += 1;
            }
        }
        (rank, kernel)
    }
    /// Solve M x = y for a square matrix; None if y is not in the image. (Gaussian elimination on
    /// the column combination tracker.)
    pub fn solve(&self, y: &BitVec) -> Option<BitVec> {
        assert_eq!(y.n, self.rows);
        // reduced columns with their combination of original columns, pivot on lowest set bit
        let mut basis: Vec<(usize, BitVec, BitVec)> = Vec::new(); // (pivot bit, vector, combination)
        for j in 0..self.cols {
            let mut v = self.col[j].clone();
            let mut comb = BitVec::unit(self.cols, j);
            loop {
                let Some(pb) = lowest_bit(&v) else { break };
                if let Some((_, bv, bc)) = basis.iter().find(|(p, _, _)| *p == pb) {
                    v.xor_assign(bv);
                    comb.xor_assign(bc);
                } else {
                    basis.push((pb, v.clone(), comb.clone()));
                    break;
                }
            }
        }
        let mut r = y.clone();
        let mut x = BitVec::zero(self.cols);
        loop {
            let Some(pb) = lowest_bit(&r) else { return Some(x) };
            let (_, bv, bc) = basis.iter().find(|(p, _, _)| *p == pb)?;
            r.xor_assign(bv);
            x.xor_assign(bc);
        }
    }
    pub fn xor(&self, o: &Mat) -> Mat {
        assert!(self.rows == o.rows && self.cols == o.cols);
        let mut m = self.clone();
        for (a, b) in m.col.iter_mut().zip(o.col.iter()) {
            a.xor_assign(b);
        }
        m
    }
    /// content digest for de-duplication / evidence
    pub fn digest(&self) -> u64 {
        let mut h: u64 = 0xcbf29ce484222325;
        for c in &self.col {
            for &w in &c.w {
                h ^= w;
                h = h.wrapping_mul(0x100000001b3);
                h ^= h >> 29;
            }
        }
        h
    }
}

fn lowest_bit(v: &BitVec) -> Option<usize> {
    for (wi, &w) in v.w.iter().enumerate() {
        if w != 0 {
            return Some(wi * 64 + w.trailing_zeros() as usize);
        }
    }
    None
}

// ------------------------------------------------------------------------------------------------
// Unsigned big integers (little-endian u64 limbs), just enough for (2^n - 1)/p and Miller–Rabin.
// ------------------------------------------------------------------------------------------------
#[derive(Clone, PartialEq, Eq, Debug)]
pub struct BigU {
    pub l: Vec<u64>,
}

impl BigU {
    pub fn from_u64(x: u64) -> BigU {
        BigU { l: vec![x] }.norm()
    }
    pub fn zero() -> BigU {
        BigU { l: vec![] }
    }
    pub fn one() -> BigU {
        BigU::from_u64(1)
    }
    fn norm(mut self) -> BigU {
        while self.l.last() == Some(&0) {
            self.l.pop();
        }
        self
    }
    pub fn from_dec(s: &str) -> BigU {
        let mut r = BigU::zero();
        for ch in s.bytes() {
            assert!(ch.is_ascii_digit());
            r = r.mul_small(10).add(&BigU::from_u64((ch - b'0') as u64));
        }
        r
    }
    pub fn to_dec(&self) -> String {
        if self.is_zero() {
            return "0".into();
        }
        let mut digits = Vec::new();
        let mut cur = self.clone();
        while !cur.is_zero() {
            let (q, r) = cur.divrem_small(10);
            digits.push(b'0' + r as u8);
            cur = q;
        }
        digits.reverse();
        String::from_utf8(digits).unwrap()
    }
    /// 2^n - 1
    pub fn mersenne(n: usize) -> BigU {
        let mut l = vec![u64::MAX; n / 64];
        if n % 64 != 0 {
            l.push((1u64 << (n % 64)) - 1);
        }
        BigU { l }.norm()
    }
    pub fn is_zero(&self) -> bool {
        self.l.is_empty()
    }
    pub fn bits(&self) -> usize {
        match self.l.last() {
            None => 0,
            Some(&t) => (self.l.len() - 1) * 64 + (64 - t.leading_zeros() as usize),
        }
    }
    pub fn bit(&self, i: usize) -> bool {
        if i / 64 >= self.l.len() {
            false
        } else {
            (self.l[i / 64] >> (i % 64)) & 1 == 1
        }
    }
    pub fn cmp(&self, o: &BigU) -> std::cmp::Ordering {
        if self.l.len() != o.l.len() {
            return self.l.len().cmp(&o.l.len());
        }
        for i in (0..self.l.len()).rev() {
            if self.l[i] != o.l[i] {
                return self.l[i].cmp(&o.l[i]);
            }
        }
        std::cmp::Ordering::Equal
    }
    pub fn add(&self, o: &BigU) -> BigU {
        let n = self.l.len().max(o.l.len());
        let mut r = Vec::with_capacity(n + 1);
        let mut c = 0u128;
        for i in 0..n {
            let a = *self.l.get(i).unwrap_or(&0) as u128;
            let b = *o.l.get(i).unwrap_or(&0) as u128;
            let s = a + b + c;
            r.push(s as u64);
            c = s >> 64;
        }
        if c != 0 {
            r.push(c as u64);
        }
        BigU { l: r }.norm()
    }
    /// self - o, requires self >= o
    pub fn sub(&self, o: &BigU) -> BigU {
        assert!(self.cmp(o) != std::cmp::Ordering::Less);
        let mut r = Vec::with_capacity(self.l.len());
        let mut borrow = 0i128;
        for i in 0..self.l.len() {
            let a = self.l[i] as i128;
            let b = *o.l.get(i).unwrap_or(&0) as i128;
            let mut d = a - b - borrow;
            if d < 0 {
                d += 1i128 << 64;
                borrow = 1;
            } else {
                borrow = 0;
            }
            r.push(d as u64);
        }
        BigU { l: r }.norm()
    }
    pub fn mul_small(&self, m: u64) -> BigU {
        let mut r = Vec::with_capacity(self.l.len() + 1);
        let mut c = 0u128;
        for &a in &self.l {
            let p = (a as u128) * (m as u128) + c;
            r.push(p as u64);
            c = p >> 64;
        }
        if c != 0 {
            r.push(c as u64);
        }
        BigU { l: r }.norm()
    }
    pub fn mul(&self, o: &BigU) -> BigU {
        let mut r = vec![0u64; self.l.len() + o.l.len() + 1];
        for (i, &a) in self.l.iter().enumerate() {
            let mut c = 0u128;
            for (j, &b) in o.l.iter().enumerate() {
                let p = (a as u128) * (b as u128) + (r[i + j] as u128) + c;
                r[i + j] = p as u64;
                c = p >> 64;
            }
            let mut k = i + o.l.len();
            while c != 0 {
                let s = (r[k] as u128) + c;
                r[k] = s as u64;
                c = s >> 64;
                k += 1;
            }
        }
        BigU { l: r }.norm()
    }
    pub fn divrem_small(&self, d: u64) -> (BigU, u64) {
        let mut q = vec![0u64; self.l.len()];
        let mut rem = 0u128;
        for i in (0..self.l.len()).rev() {
            let cur = (rem << 64) | self.l[i] as u128;
            q[i] = (cur / d as u128) as u64;
            rem = cur % d as u128;
        }
        (BigU { l: q }.norm(), rem as u64)
    }
    pub fn shl1(&self) -> BigU {
        let mut r = Vec::with_capacity(self.l.len() + 1);
        let mut c = 0u64;
        for &a in &self.l {
            r.push((a << 1) | c);
            c = a >> 63;
        }
        if c != 0 {
            r.push(c);
        }
        BigU { l: r }.norm()
    }
    /// binary long division
    pub fn divrem(&self, d: &BigU) -> (BigU, BigU) {
        assert!(!d.is_zero());
        let nb = self.bits();
        let mut q = vec![0u64; self.l.len().max(1)];
        let mut r = BigU::zero();
        for i in (0..nb).rev() {
            r = r.shl1();
            if self.bit(i) {
                r = r.add(&BigU::one());
            }
            if r.cmp(d) != std::cmp::Ordering::Less {
                r = r.sub(d);
                q[i / 64] |= 1 << (i % 64);
            }
        }
        (BigU { l: q }.norm(), r)
    }
    pub fn rem(&self, d: &BigU) -> BigU {
        self.divrem(d).1
    }
    pub fn mulmod(&self, o: &BigU, m: &BigU) -> BigU {
        self.mul(o).rem(m)
    }
    pub fn powmod(&self, e: &BigU, m: &BigU) -> BigU {
        let mut result = BigU::one().rem(m);
        let base = self.rem(m);
        for i in (0..e.bits()).rev() {
            result = result.mulmod(&result, m);
            if e.bit(i) {
                result = result.mulmod(&base, m);
            }
        }
        result
    }
    /// Miller–Rabin with the first `k` prime bases.
    pub fn is_probable_prime(&self, k: usize) -> bool {
        const SMALL: [u64; 40] = [
            2, 3, 5, 7, 11, 13, 17, 19, 23, 29, 31, 37, 41, 43, 47, 53, 59, 61, 67, 71, 73, 79, 83, 89, 97, 101, 103, 107, 109, 113, 127, 131, 137, 139, 149, 151, 157, 163,
            167, 173,
        ];
        if self.bits() <= 1 {
            return false;
        }
        for &p in SMALL.iter() {
            let bp = BigU::from_u64(p);
            if self.cmp(&bp) == std::cmp::Ordering::Equal {
                return true;
            }
            if self.divrem_small(p).1 == 0 {
                return false;
            }
        }
        let one = BigU::one();
        let nm1 = self.sub(&one);
        let mut d = nm1.clone();
        let mut s = 0;
        while !d.bit(0) {
            d = d.divrem_small(2).0;
            s += 1;
        }
        'outer: for &a in SMALL.iter().take(k) {
            let mut x = BigU::from_u64(a).powmod(&d, self);
            if x == one || x == nm1 {
                continue;
            }
            for _ in 0..s - 1 {
                x = x.mulmod(&x, self);
                if x == nm1 {
                    continue 'outer;
                }
            }
            return false;
        }
        true
    }
}

/// The complete prime factorisation of 2^512 - 1 (Fermat-number factors F0..F8 and the known
/// factorisations of F5..F8). 2^n - 1 for n = 64, 128, 256 uses the leading 7, 9, 11 entries.
pub const FACTORS_2_512_M1: [&str; 13] = [
    "3",
    "5",
    "17",
    "257",
    "65537",
    "641",
    "6700417",
    // 2^64 + 1
    "274177",
    "67280421310721",
    // 2^128 + 1
    "59649589127497217",
    "5704689200685129054721",
    // 2^256 + 1
    "1238926361552897",
    "93461639715357977769163558199606896584051237541638188580280321",
];

/// prime factors of 2^n - 1 for n in {64,128,256,512}; validated (product + Miller–Rabin) on each call.
pub fn mersenne_factors(n: usize) -> Result<Vec<BigU>, String> {
    let count = match n {
        64 => 7,
        128 => 9,
        256 => 11,
        512 => 13,
        _ => return Err(format!("no factor table for 2^{}-1", n)),
    };
    let f: Vec<BigU> = FACTORS_2_512_M1[..count].iter().map(|s| BigU::from_dec(s)).collect();
    let mut prod = BigU::one();
    for p in &f {
        if !p.is_probable_prime(40) {
            return Err(format!("factor {} of 2^{}-1 is not prime", p.to_dec(), n));
        }
        prod = prod.mul(p);
    }
    if prod != BigU::mersenne(n) {
        return Err(format!("factor table product != 2^{}-1", n));
    }
    // distinctness (square-freeness of the table) is implied by product equality + listed values differing
    Ok(f)
}

pub fn self_check() -> Result<(), String> {
    for n in [64usize, 128, 256, 512] {
        mersenne_factors(n)?;
    }
    // a composite must be rejected
    if BigU::from_dec("18446744073709551617").is_probable_prime(40) {
        return Err("Miller-Rabin accepted 2^64+1".into());
    }
    // matrix sanity: a 64-bit rotate-by-1 has order 64
    let n = 64;
    let mut m = Mat::zero(n, n);
    for j in 0..n {
        m.col[j] = BitVec::unit(n, (j + 1) % n);
    }
    if !m.pow_big(&BigU::from_u64(64)).is_identity() || m.pow_big(&BigU::from_u64(32)).is_identity() {
        return Err("gf2 pow self-test failed".into());
    }
    if m.rank() != 64 {
        return Err("gf2 rank self-test failed".into());
    }
    Ok(())
}
