//! Reference models of the Blackman–Vigna generators, one plain function per published C file.
//! Written from the published sources (xoshiro.di.unimi.it); shares no code with rand_xoshiro.
//! A state is `[u64; 8]`; 32-bit generators keep their 32-bit words in the low halves.

#[derive(Clone, Copy, Debug, PartialEq, Eq, Hash)]
pub enum Kind {
    Xoroshiro64Star,
    Xoroshiro64StarStar,
    Xoroshiro128Plus,
    Xoroshiro128PlusPlus,
    Xoroshiro128StarStar,
    Xoshiro128Plus,
    Xoshiro128PlusPlus,
    Xoshiro128StarStar,
    Xoshiro256Plus,
    Xoshiro256PlusPlus,
    Xoshiro256StarStar,
    Xoshiro512Plus,
    Xoshiro512PlusPlus,
    Xoshiro512StarStar,
    SplitMix64,
}

pub const ALL: [Kind; 15] = [
    Kind::Xoroshiro64Star,
    Kind::Xoroshiro64StarStar,
    Kind::Xoroshiro128Plus,
    Kind::Xoroshiro128PlusPlus,
    Kind::Xoroshiro128StarStar,
    Kind::Xoshiro128Plus,
    Kind::Xoshiro128PlusPlus,
    Kind::Xoshiro128StarStar,
    Kind::Xoshiro256Plus,
    Kind::Xoshiro256PlusPlus,
    Kind::Xoshiro256StarStar,
    Kind::Xoshiro512Plus,
    Kind::Xoshiro512PlusPlus,
    Kind::Xoshiro512StarStar,
    Kind::SplitMix64,
];

impl Kind {
    pub fn name(self) -> &'static str {
        match self {
            Kind::Xoroshiro64Star => "Xoroshiro64Star",
            Kind::Xoroshiro64StarStar => "Xoroshiro64StarStar",
            Kind::Xoroshiro128Plus => "Xoroshiro128Plus",
            Kind::Xoroshiro128PlusPlus => "Xoroshiro128PlusPlus",
            Kind::Xoroshiro128StarStar => "Xoroshiro128StarStar",
            Kind::Xoshiro128Plus => "Xoshiro128Plus",
            Kind::Xoshiro128PlusPlus => "Xoshiro128PlusPlus",
            Kind::Xoshiro128StarStar => "Xoshiro128StarStar",
            Kind::Xoshiro256Plus => "Xoshiro256Plus",
            Kind::Xoshiro256PlusPlus => "Xoshiro256PlusPlus",
            Kind::Xoshiro256StarStar => "Xoshiro256StarStar",
            Kind::Xoshiro512Plus => "Xoshiro512Plus",
            Kind::Xoshiro512PlusPlus => "Xoshiro512PlusPlus",
            Kind::Xoshiro512StarStar => "Xoshiro512StarStar",
            Kind::SplitMix64 => "SplitMix64",
        }
    }
    pub fn from_name(n: &str) -> Option<Kind> {
        ALL.iter().copied().find(|k| k.name() == n)
    }
    /// number of state words
    pub fn words(self) -> usize {
        match self {
            Kind::Xoroshiro64Star | Kind::Xoroshiro64StarStar => 2,
            Kind::Xoroshiro128Plus | Kind::Xoroshiro128PlusPlus | Kind::Xoroshiro128StarStar => 2,
            Kind::Xoshiro128Plus | Kind::Xoshiro128PlusPlus | Kind::Xoshiro128StarStar => 4,
            Kind::Xoshiro256Plus | Kind::Xoshiro256PlusPlus | Kind::Xoshiro256StarStar => 4,
            Kind::Xoshiro512Plus | Kind::Xoshiro512PlusPlus | Kind::Xoshiro512StarStar => 8,
            Kind::SplitMix64 => 1,
        }
    }
    /// bits per state word (= native output width)
    pub fn word_bits(self) -> usize {
        match self {
            Kind::Xoroshiro64Star
            | Kind::Xoroshiro64StarStar
            | Kind::Xoshiro128Plus
            | Kind::Xoshiro128PlusPlus
            | Kind::Xoshiro128StarStar => 32,
            _ => 64,
        }
    }
    pub fn state_bits(self) -> usize {
        self.words() * self.word_bits()
    }
    pub fn seed_len(self) -> usize {
        self.state_bits() / 8
    }
    pub fn is_linear(self) -> bool {
        self != Kind::SplitMix64
    }
}

#[inline(always)]
fn rotl64(x: u64, k: u32) -> u64 {
    (x << k) | (x >> (64 - k))
}
#[inline(always)]
fn rotl32(x: u32, k: u32) -> u32 {
    (x << k) | (x >> (32 - k))
}

/// State from seed bytes: the words are the little-endian words of the seed.
pub fn state_from_seed(kind: Kind, seed: &[u8]) -> [u64; 8] {
    assert_eq!(seed.len(), kind.seed_len());
    let mut s = [0u64; 8];
    let wb = kind.word_bits() / 8;
    for i in 0..kind.words() {
        let mut v = 0u64;
        for j in 0..wb {
            v |= (seed[i * wb + j] as u64) << (8 * j);
        }
        s[i] = v;
    }
    s
}

/// Inverse of `state_from_seed`.
pub fn seed_from_state(kind: Kind, s: &[u64; 8]) -> Vec<u8> {
    let wb = kind.word_bits() / 8;
    let mut out = Vec::with_capacity(kind.seed_len());
    for i in 0..kind.words() {
        for j in 0..wb {
            out.push((s[i] >> (8 * j)) as u8);
        }
    }
    out
}

// ---- engines (the linear part), exactly as in the C files -------------------------------------

#[inline(always)]
fn engine_xoroshiro64(s: &mut [u64; 8]) {
    // xoroshiro64*.c / xoroshiro64**.c
    let s0 = s[0] as u32;
    let mut s1 = s[1] as u32;
    s1 ^= s0;
    s[0] = (rotl32(s0, 26) ^ s1 ^ (s1 << 9)) as u64;
    s[1] = rotl32(s1, 13) as u64;
}
#[inline(always)]
fn engine_xoroshiro128(s: &mut [u64; 8]) {
    // xoroshiro128+.c / xoroshiro128**.c : a=24, b=16, c=37
    let s0 = s[0];
    let mut s1 = s[1];
    s1 ^= s0;
    s[0] = rotl64(s0, 24) ^ s1 ^ (s1 << 16);
    s[1] = rotl64(s1, 37);
}
#[inline(always)]
fn engine_xoroshiro128pp(s: &mut [u64; 8]) {
    // xoroshiro128++.c : a=49, b=21, c=28
    let s0 = s[0];
    let mut s1 = s[1];
    s1 ^= s0;
    s[0] = rotl64(s0, 49) ^ s1 ^ (s1 << 21);
    s[1] = rotl64(s1, 28);
}
#[inline(always)]
fn engine_xoshiro128(s: &mut [u64; 8]) {
    let mut w = [s[0] as u32, s[1] as u32, s[2] as u32, s[3] as u32];
    let t = w[1] << 9;
    w[2] ^= w[0];
    w[3] ^= w[1];
    w[1] ^= w[2];
    w[0] ^= w[3];
    w[2] ^= t;
    w[3] = rotl32(w[3], 11);
    for i in 0..4 {
        s[i] = w[i] as u64;
    }
}
#[inline(always)]
fn engine_xoshiro256(s: &mut [u64; 8]) {
    let t = s[1] << 17;
    s[2] ^= s[0];
    s[3] ^= s[1];
    s[1] ^= s[2];
    s[0] ^= s[3];
    s[2] ^= t;
    s[3] = rotl64(s[3], 45);
}
#[inline(always)]
fn engine_xoshiro512(s: &mut [u64; 8]) {
    let t = s[1] << 11;
    s[2] ^= s[0];
    s[5] ^= s[1];
    s[1] ^= s[2];
    s[7] ^= s[3];
    s[3] ^= s[4];
    s[4] ^= s[5];
    s[0] ^= s[6];
    s[6] ^= s[7];
    s[6] ^= t;
    s[7] = rotl64(s[7], 21);
}

pub const SPLITMIX_PHI: u64 = 0x9e3779b97f4a7c15;

/// splitmix64.c: `z = (x += 0x9e3779b97f4a7c15); z = (z ^ (z >> 30)) * 0xbf58476d1ce4e5b9; ...`
#[inline(always)]
pub fn splitmix64_next(x: &mut u64) -> u64 {
    *x = x.wrapping_add(SPLITMIX_PHI);
    let mut z = *x;
    z = (z ^ (z >> 30)).wrapping_mul(0xbf58476d1ce4e5b9);
    z = (z ^ (z >> 27)).wrapping_mul(0x94d049bb133111eb);
    z ^ (z >> 31)
}

/// dsiutils SplitMix64RandomGenerator.nextInt(): Stafford's Mix4 variant, upper 32 bits.
#[inline(always)]
pub fn splitmix64_next_u32(x: &mut u64) -> u32 {
    *x = x.wrapping_add(SPLITMIX_PHI);
    let mut z = *x;
    z = (z ^ (z >> 33)).wrapping_mul(0x62a9d9ed799705f5);
    z = (z ^ (z >> 28)).wrapping_mul(0xcb24d0a5c88c35b3);
    (z >> 32) as u32
}

/// One native step: returns the native-width output (32-bit outputs in the low half).
#[inline(always)]
pub fn step(kind: Kind, s: &mut [u64; 8]) -> u64 {
    match kind {
        Kind::Xoroshiro64Star => {
            let r = (s[0] as u32).wrapping_mul(0x9E3779BB);
            engine_xoroshiro64(s);
            r as u64
        }
        Kind::Xoroshiro64StarStar => {
            let r = rotl32((s[0] as u32).wrapping_mul(0x9E3779BB), 5).wrapping_mul(5);
            engine_xoroshiro64(s);
            r as u64
        }
        Kind::Xoroshiro128Plus => {
            let r = s[0].wrapping_add(s[1]);
            engine_xoroshiro128(s);
            r
        }
        Kind::Xoroshiro128StarStar => {
            let r = rotl64(s[0].wrapping_mul(5), 7).wrapping_mul(9);
            engine_xoroshiro128(s);
            r
        }
        Kind::Xoroshiro128PlusPlus => {
            let r = rotl64(s[0].wrapping_add(s[1]), 17).wrapping_add(s[0]);
            engine_xoroshiro128pp(s);
            r
        }
        Kind::Xoshiro128Plus => {
            let r = (s[0] as u32).wrapping_add(s[3] as u32);
            engine_xoshiro128(s);
            r as u64
        }
        Kind::Xoshiro128PlusPlus => {
            let r = rotl32((s[0] as u32).wrapping_add(s[3] as u32), 7).wrapping_add(s[0] as u32);
            engine_xoshiro128(s);
            r as u64
        }
        Kind::Xoshiro128StarStar => {
            // version 1.1: s[1]
            let r = rotl32((s[1] as u32).wrapping_mul(5), 7).wrapping_mul(9);
            engine_xoshiro128(s);
            r as u64
        }
        Kind::Xoshiro256Plus => {
            let r = s[0].wrapping_add(s[3]);
            engine_xoshiro256(s);
            r
        }
        Kind::Xoshiro256PlusPlus => {
            let r = rotl64(s[0].wrapping_add(s[3]), 23).wrapping_add(s[0]);
            engine_xoshiro256(s);
            r
        }
        Kind::Xoshiro256StarStar => {
            let r = rotl64(s[1].wrapping_mul(5), 7).wrapping_mul(9);
            engine_xoshiro256(s);
            r
        }
        Kind::Xoshiro512Plus => {
            let r = s[0].wrapping_add(s[2]);
            engine_xoshiro512(s);
            r
        }
        Kind::Xoshiro512PlusPlus => {
            let r = rotl64(s[0].wrapping_add(s[2]), 17).wrapping_add(s[2]);
            engine_xoshiro512(s);
            r
        }
        Kind::Xoshiro512StarStar => {
            let r = rotl64(s[1].wrapping_mul(5), 7).wrapping_mul(9);
            engine_xoshiro512(s);
            r
        }
        Kind::SplitMix64 => splitmix64_next(&mut s[0]),
    }
}

/// Self-validation against the vectors printed by the reference C programs (the same vectors the
/// crates' own tests embed; this is the harness's independent copy).
pub fn self_check() -> Result<(), String> {
    fn run(kind: Kind, seed_words: &[u64], expect: &[u64]) -> Result<(), String> {
        let mut s = [0u64; 8];
        s[..seed_words.len()].copy_from_slice(seed_words);
        for (i, &e) in expect.iter().enumerate() {
            let r = step(kind, &mut s);
            if r != e {
                return Err(format!("ref_xoshiro {} output {} = {} expected {}", kind.name(), i, r, e));
            }
        }
        Ok(())
    }
    run(Kind::Xoroshiro64Star, &[1, 2], &[2654435771, 327208753, 4063491769, 4259754937, 261922412, 168123673, 552743735, 1672597395, 1031040050, 2755315674])?;
    run(Kind::Xoroshiro64StarStar, &[1, 2], &[3802928447, 813792938, 1618621494, 2955957307, 3252880261, 1129983909, 2539651700, 1327610908, 1757650787, 2763843748])?;
    run(Kind::Xoroshiro128Plus, &[1, 2], &[3, 412333834243, 2360170716294286339, 9295852285959843169, 2797080929874688578, 6019711933173041966, 3076529664176959358, 3521761819100106140, 7493067640054542992, 920801338098114767])?;
    run(Kind::Xoroshiro128PlusPlus, &[1, 2], &[393217, 669327710093319, 1732421326133921491, 11394790081659126983, 9555452776773192676, 3586421180005889563, 1691397964866707553, 10735626796753111697, 15216282715349408991, 14247243556711267923])?;
    run(Kind::Xoroshiro128StarStar, &[1, 2], &[5760, 97769243520, 9706862127477703552, 9223447511460779954, 8358291023205304566, 15695619998649302768, 8517900938696309774, 16586480348202605369, 6959129367028440372, 16822147227405758281])?;
    run(Kind::Xoshiro128Plus, &[1, 2, 3, 4], &[5, 12295, 25178119, 27286542, 39879690, 1140358681, 3276312097, 4110231701, 399823256, 2144435200])?;
    run(Kind::Xoshiro128PlusPlus, &[1, 2, 3, 4], &[641, 1573767, 3222811527, 3517856514, 836907274, 4247214768, 3867114732, 1355841295, 495546011, 621204420])?;
    run(Kind::Xoshiro128StarStar, &[1, 2, 3, 4], &[11520, 0, 5927040, 70819200, 2031721883, 1637235492, 1287239034, 3734860849, 3729100597, 4258142804])?;
    run(Kind::Xoshiro256Plus, &[1, 2, 3, 4], &[5, 211106232532999, 211106635186183, 9223759065350669058, 9250833439874351877, 13862484359527728515, 2346507365006083650, 1168864526675804870, 34095955243042024, 3466914240207415127])?;
    run(Kind::Xoshiro256PlusPlus, &[1, 2, 3, 4], &[41943041, 58720359, 3588806011781223, 3591011842654386, 9228616714210784205, 9973669472204895162, 14011001112246962877, 12406186145184390807, 15849039046786891736, 10450023813501588000])?;
    run(Kind::Xoshiro256StarStar, &[1, 2, 3, 4], &[11520, 0, 1509978240, 1215971899390074240, 1216172134540287360, 607988272756665600, 16172922978634559625, 8476171486693032832, 10595114339597558777, 2904607092377533576])?;
    run(Kind::Xoshiro512Plus, &[1, 2, 3, 4, 5, 6, 7, 8], &[4, 8, 4113, 25169936, 52776585412635, 57174648719367, 9223482039571869716, 9331471677901559830, 9340533895746033672, 14078399799840753678])?;
    run(Kind::Xoshiro512PlusPlus, &[1, 2, 3, 4, 5, 6, 7, 8], &[524291, 1048578, 539099140, 3299073855497, 6917532603230064654, 7494048333530275843, 14418333309547923463, 10960079161595355914, 18279570946505382726, 10209173166699159237])?;
    run(Kind::Xoshiro512StarStar, &[1, 2, 3, 4, 5, 6, 7, 8], &[11520, 0, 23040, 23667840, 144955163520, 303992986974289920, 25332796375735680, 296904390158016, 13911081092387501979, 15304787717237593024])?;
    // splitmix64.c
    {
        let mut x = 1477776061723855037u64;
        let e = [1985237415132408290u64, 2979275885539914483, 13511426838097143398, 8488337342461049707, 15141737807933549159];
        for (i, &v) in e.iter().enumerate() {
            let r = splitmix64_next(&mut x);
            if r != v {
                return Err(format!("ref splitmix64 output {} = {} expected {}", i, r, v));
            }
        }
        // dsiutils nextInt
        let mut x = 10u64;
        let e = [3930361779u32, 4016923089, 4113052479, 925926767, 1755287528, 802865554, 954171070, 3724185978];
        for (i, &v) in e.iter().enumerate() {
            let r = splitmix64_next_u32(&mut x);
            if r != v {
                return Err(format!("ref splitmix64 u32 output {} = {} expected {}", i, r, v));
            }
        }
    }
    Ok(())
}

fn inv_odd64(a: u64) -> u64 {
    let mut x = a;
    for _ in 0..6 {
        x = x.wrapping_mul(2u64.wrapping_sub(a.wrapping_mul(x)));
    }
    x
}
fn inv_odd32(a: u32) -> u32 {
    inv_odd64(a as u64) as u32
}

/// States (as seed bytes) for which the reference *output* of the next step is `target`: the
/// scrambler is inverted for a few choices of the free operand; the state words that do not enter
/// the scrambler are taken from `fill` (all zero or dense). What a fast path or guard keyed on the
/// output value (0, all ones, ...) would single out.
pub fn states_with_output(kind: Kind, target: u64, free_operands: &[u64], fill: &[u64; 8]) -> Vec<Vec<u8>> {
    let w = kind.word_bits();
    let mask: u64 = if w == 64 { u64::MAX } else { 0xffff_ffff };
    let t = target & mask;
    let mut out = Vec::new();
    let mut push = |words: &[(usize, u64)]| {
        let mut s = *fill;
        for &(i, v) in words {
            s[i] = v & mask;
        }
        for i in kind.words()..8 {
            s[i] = 0;
        }
        if s.iter().take(kind.words()).any(|&x| x != 0) {
            let mut chk = s;
            if step(kind, &mut chk) == t {
                out.push(seed_from_state(kind, &s));
            }
        }
    };
    let rotr = |x: u64, r: u32| if w == 64 { x.rotate_right(r) } else { ((x as u32).rotate_right(r)) as u64 };
    let sub = |a: u64, b: u64| a.wrapping_sub(b) & mask;
    match kind {
        Kind::Xoroshiro64Star => push(&[(0, (t as u32).wrapping_mul(inv_odd32(0x9E3779BB)) as u64)]),
        Kind::Xoroshiro64StarStar => push(&[(0, ((t as u32).wrapping_mul(inv_odd32(5)).rotate_right(5).wrapping_mul(inv_odd32(0x9E3779BB))) as u64)]),
        Kind::Xoroshiro128StarStar => push(&[(0, t.wrapping_mul(inv_odd64(9)).rotate_right(7).wrapping_mul(inv_odd64(5)))]),
        Kind::Xoshiro128StarStar => push(&[(1, ((t as u32).wrapping_mul(inv_odd32(9)).rotate_right(7).wrapping_mul(inv_odd32(5))) as u64)]),
        Kind::Xoshiro256StarStar | Kind::Xoshiro512StarStar => push(&[(1, t.wrapping_mul(inv_odd64(9)).rotate_right(7).wrapping_mul(inv_odd64(5)))]),
        Kind::Xoroshiro128Plus => {
            for &a in free_operands {
                push(&[(0, a), (1, sub(t, a))]);
            }
        }
        Kind::Xoshiro128Plus | Kind::Xoshiro256Plus => {
            for &a in free_operands {
                push(&[(0, a), (3, sub(t, a))]);
            }
        }
        Kind::Xoshiro512Plus => {
            for &a in free_operands {
                push(&[(0, a), (2, sub(t, a))]);
            }
        }
        Kind::Xoroshiro128PlusPlus => {
            for &a in free_operands {
                push(&[(0, a), (1, sub(rotr(sub(t, a), 17), a))]);
            }
        }
        Kind::Xoshiro128PlusPlus => {
            for &a in free_operands {
                push(&[(0, a), (3, sub(rotr(sub(t, a), 7), a))]);
            }
        }
        Kind::Xoshiro256PlusPlus => {
            for &a in free_operands {
                push(&[(0, a), (3, sub(rotr(sub(t, a), 23), a))]);
            }
        }
        Kind::Xoshiro512PlusPlus => {
            // result = rotl(s0 + s2, 17) + s2
            for &a in free_operands {
                push(&[(2, a), (0, sub(rotr(sub(t, a), 17), a))]);
            }
        }
        Kind::SplitMix64 => {
            push(&[(0, crate::seeding::splitmix_unmix(t).wrapping_sub(SPLITMIX_PHI))]);
        }
    }
    out
}
