//! HC-128 exactly as written in Hongjun Wu's specification ("The Stream Cipher HC-128"):
//! tables P[512], Q[512], expansion array W[1280], one keystream word per step, index arithmetic
//! `(j ⊟ k) mod 512`. No unrolling, no 16-word blocks, no precomputed indices.

pub struct Hc128 {
    p: [u32; 512],
    q: [u32; 512],
    /// step counter i (keystream word index), taken mod 1024 for the phase
    i: u64,
    /// coverage: which (phase, j) pairs were executed; which h-table indices were hit
    pub cov_steps: [bool; 1024],
    pub cov_h_lo: [bool; 512],
    pub cov_h_hi: [bool; 512],
    /// instrumentation for value-directed searches: the table increment (g1/g2 value) and the word that
    /// indexed the h function in the last step
    pub last_increment: u32,
    pub last_index_word: u32,
}

#[inline(always)]
fn rotr(x: u32, n: u32) -> u32 {
    (x >> n) | (x << (32 - n))
}
#[inline(always)]
fn rotl(x: u32, n: u32) -> u32 {
    (x << n) | (x >> (32 - n))
}
#[inline(always)]
fn f1(x: u32) -> u32 {
    rotr(x, 7) ^ rotr(x, 18) ^ (x >> 3)
}
#[inline(always)]
fn f2(x: u32) -> u32 {
    rotr(x, 17) ^ rotr(x, 19) ^ (x >> 10)
}
#[inline(always)]
fn g1(x: u32, y: u32, z: u32) -> u32 {
    (rotr(x, 10) ^ rotr(z, 23)).wrapping_add(rotr(y, 8))
}
#[inline(always)]
fn g2(x: u32, y: u32, z: u32) -> u32 {
    (rotl(x, 10) ^ rotl(z, 23)).wrapping_add(rotl(y, 8))
}
#[inline(always)]
fn m(j: usize, k: usize) -> usize {
    // j ⊟ k  =  (j - k) mod 512
    (j + 512 - (k % 512)) % 512
}

impl Hc128 {
    /// key: K0..K3, iv: IV0..IV3 (32-bit words).
    pub fn new(key: [u32; 4], iv: [u32; 4]) -> Hc128 {
        let mut w = [0u32; 1280];
        for i in 0..8 {
            w[i] = key[i % 4]; // K_{i+4} = K_i
        }
        for i in 0..8 {
            w[8 + i] = iv[i % 4]; // IV_{i+4} = IV_i
        }
        for i in 16..1280 {
            w[i] = f2(w[i - 2])
                .wrapping_add(w[i - 7])
                .wrapping_add(f1(w[i - 15]))
                .wrapping_add(w[i - 16])
                .wrapping_add(i as u32);
        }
        let mut s = Hc128 {
            p: [0; 512],
            q: [0; 512],
            i: 0,
            cov_steps: [false; 1024],
            cov_h_lo: [false; 512],
            cov_h_hi: [false; 512],
            last_increment: 1,
            last_index_word: 1,
        };
        for i in 0..512 {
            s.p[i] = w[i + 256];
            s.q[i] = w[i + 768];
        }
        // run the cipher 1024 steps and use the outputs to replace the table elements
        for i in 0..512 {
            s.p[i] = s.p[i].wrapping_add(g1(s.p[m(i, 3)], s.p[m(i, 10)], s.p[m(i, 511)])) ^ s.h1(s.p[m(i, 12)], false);
        }
        for i in 0..512 {
            s.q[i] = s.q[i].wrapping_add(g2(s.q[m(i, 3)], s.q[m(i, 10)], s.q[m(i, 511)])) ^ s.h2(s.q[m(i, 12)], false);
        }
        s.i = 0;
        s
    }

    pub fn from_seed_bytes(seed: &[u8]) -> Hc128 {
        assert_eq!(seed.len(), 32);
        let mut w = [0u32; 8];
        for i in 0..8 {
            w[i] = u32::from_le_bytes([seed[4 * i], seed[4 * i + 1], seed[4 * i + 2], seed[4 * i + 3]]);
        }
        Hc128::new([w[0], w[1], w[2], w[3]], [w[4], w[5], w[6], w[7]])
    }

    #[inline(always)]
    fn h1(&mut self, x: u32, cov: bool) -> u32 {
        let x0 = (x & 0xff) as usize;
        let x2 = ((x >> 16) & 0xff) as usize;
        if cov {
            self.cov_h_lo[x0] = true;
            self.cov_h_lo[256 + x2] = true;
        }
        self.q[x0].wrapping_add(self.q[256 + x2])
    }
    #[inline(always)]
    fn h2(&mut self, x: u32, cov: bool) -> u32 {
        let x0 = (x & 0xff) as usize;
        let x2 = ((x >> 16) & 0xff) as usize;
        if cov {
            self.cov_h_hi[x0] = true;
            self.cov_h_hi[256 + x2] = true;
        }
        self.p[x0].wrapping_add(self.p[256 + x2])
    }

    /// One keystream word s_i.
    pub fn next_word(&mut self) -> u32 {
        let j = (self.i % 512) as usize;
        let phase = (self.i % 1024) as usize;
        self.cov_steps[phase] = true;
        self.i = self.i.wrapping_add(1);
        if phase < 512 {
            let inc = g1(self.p[m(j, 3)], self.p[m(j, 10)], self.p[m(j, 511)]);
            self.last_increment = inc;
            self.p[j] = self.p[j].wrapping_add(inc);
            let x = self.p[m(j, 12)];
            self.last_index_word = x;
            self.h1(x, true) ^ self.p[j]
        } else {
            let inc = g2(self.q[m(j, 3)], self.q[m(j, 10)], self.q[m(j, 511)]);
            self.last_increment = inc;
            self.q[j] = self.q[j].wrapping_add(inc);
            let x = self.q[m(j, 12)];
            self.last_index_word = x;
            self.h2(x, true) ^ self.q[j]
        }
    }
}

/// Test vectors from the HC-128 paper (section "Test vectors"): all-zero key and IV; IV = 1; key = 0x55.
/// Keystream is given in the paper as a byte string; words are little-endian.
pub fn self_check() -> Result<(), String> {
    fn check(key: [u32; 4], iv: [u32; 4], expect: &[u32]) -> Result<(), String> {
        let mut h = Hc128::new(key, iv);
        for (i, &e) in expect.iter().enumerate() {
            let r = h.next_word();
            if r != e {
                return Err(format!("ref_hc128 key={:x?} iv={:x?} word {} = {:08x} expected {:08x}", key, iv, i, r, e));
            }
        }
        Ok(())
    }
    // paper vector 1: key = 0, IV = 0
    check(
        [0; 4],
        [0; 4],
        &[
            0x73150082, 0x3bfd03a0, 0xfb2fd77f, 0xaa63af0e, 0xde122fc6, 0xa7dc29b6, 0x62a68527, 0x8b75ec68, 0x9036db1e, 0x81896005, 0x00ade078, 0x491fbf9a, 0x1cdc3013,
            0x6c3d6e24, 0x90f664b2, 0x9cd57102,
        ],
    )?;
    // paper vector 2: key = 0, IV0 = 1
    check(
        [0; 4],
        [1, 0, 0, 0],
        &[
            0xc01893d5, 0xb7dbe958, 0x8f65ec98, 0x64176604, 0x36fc6724, 0xc82c6eec, 0x1b1c38a7, 0xc9b42a95, 0x323ef123, 0x0a6a908b, 0xce757b68, 0x9f14f7bb, 0xe4cde011,
            0xaeb5173f, 0x89608c94, 0xb5cf46ca,
        ],
    )?;
    // paper vector 3: key0 = 0x55, IV = 0
    check(
        [0x55, 0, 0, 0],
        [0; 4],
        &[
            0x518251a4, 0x04b4930a, 0xb02af931, 0x0639f032, 0xbcb4a47a, 0x5722480b, 0x2bf99f72, 0xcdc0e566, 0x310f0c56, 0xd3cc83e8, 0x663db8ef, 0x62dfe07f, 0x593e1790,
            0xc5ceaa9c, 0xab03806f, 0xc9a6e5a0,
        ],
    )?;
    // later position (words 1616..1632 of the all-zero key/IV stream: second pass through Q)
    {
        let mut h = Hc128::new([0; 4], [0; 4]);
        for _ in 0..1616 {
            h.next_word();
        }
        let e: [u64; 8] = [
            0xd8c4d6ca84d0fc10, 0xf16a5d91dc66e8e7, 0xd800de5bc37a8653, 0x7bae1f88c0dfbb4c, 0x3bfe1f374e6d4d14, 0x424b55676be3fa06, 0xe3a1e8758cbff579,
            0x417f7198c5652bcd,
        ];
        for (i, &v) in e.iter().enumerate() {
            let lo = h.next_word() as u64;
            let hi = h.next_word() as u64;
            if (hi << 32 | lo) != v {
                return Err(format!("ref_hc128 deep vector {} mismatch", i));
            }
        }
    }
    Ok(())
}
