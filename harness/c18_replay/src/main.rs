//! C18 corpus replayer. Built in 8 configurations by tools/c18.sh; prints one line
//! `<item label> <digest>` per corpus item. The corpus is a fixed enumeration (no randomness):
//! histories over the output alphabet from several seeds and buffer offsets for all 20 seedable
//! generator types, constructors, jumps, and scripted-timer JitterRng runs including hostile
//! timers. A panic inside an item is part of its digest ("PANIC").
//!
//! usage: c18_replay <depth> [VERIF_SEED]

use rand_core::{RngCore, SeedableRng};
use std::io::Write;
use std::panic::{catch_unwind, AssertUnwindSafe};
use std::sync::atomic::{AtomicUsize, Ordering};
use std::sync::Arc;

struct Fnv(u64);
impl Fnv {
    fn new() -> Fnv {
        Fnv(0xcbf29ce484222325)
    }
    fn bytes(&mut self, b: &[u8]) {
        for &x in b {
            self.0 ^= x as u64;
            self.0 = self.0.wrapping_mul(0x100000001b3);
        }
    }
    fn u64(&mut self, v: u64) {
        self.bytes(&v.to_le_bytes());
    }
}

#[derive(Clone, Copy, Debug)]
enum Op {
    U32,
    U64,
    Fill(usize),
    /// fill_bytes into a destination that starts `off` bytes after an 8-byte boundary
    FillAt(usize, usize),
    Jump,
    LongJump,
}

impl Op {
    fn short(&self) -> String {
        match self {
            Op::U32 => "u32".into(),
            Op::U64 => "u64".into(),
            Op::Fill(n) => format!("f{}", n),
            Op::FillAt(n, off) => format!("f{}@{}", n, off),
            Op::Jump => "j".into(),
            Op::LongJump => "lj".into(),
        }
    }
}

trait Jumps {
    fn do_jump(&mut self) {}
    fn do_long_jump(&mut self) {}
    const HAS_JUMP: bool = false;
}

macro_rules! no_jump { ($($t:ty),*) => { $(impl Jumps for $t {})* } }
macro_rules! has_jump { ($($t:ty),*) => { $(impl Jumps for $t {
    fn do_jump(&mut self) { self.jump() }
    fn do_long_jump(&mut self) { self.long_jump() }
    const HAS_JUMP: bool = true;
})* } }

use rand_hc::Hc128Rng;
use rand_isaac::{Isaac64Rng, IsaacRng};
use rand_jitter::JitterRng;
use rand_xorshift::XorShiftRng;
use rand_xoshiro::*;

no_jump!(Xoroshiro64Star, Xoroshiro64StarStar, SplitMix64, XorShiftRng, Hc128Rng, IsaacRng, Isaac64Rng);
has_jump!(Xoroshiro128Plus, Xoroshiro128PlusPlus, Xoroshiro128StarStar, Xoshiro128Plus, Xoshiro128PlusPlus, Xoshiro128StarStar, Xoshiro256Plus, Xoshiro256PlusPlus, Xoshiro256StarStar, Xoshiro512Plus, Xoshiro512PlusPlus, Xoshiro512StarStar);

fn filler(seed: u64, tag: u64, len: usize) -> Vec<u8> {
    let mut st = seed ^ tag.wrapping_mul(0x9e3779b97f4a7c15) ^ 0xD1B54A32D192ED03;
    let mut out = Vec::with_capacity(len + 8);
    while out.len() < len {
        st = st.wrapping_add(0x9e3779b97f4a7c15);
        let mut z = st;
        z = (z ^ (z >> 30)).wrapping_mul(0xbf58476d1ce4e5b9);
        z = (z ^ (z >> 27)).wrapping_mul(0x94d049bb133111eb);
        z ^= z >> 31;
        out.extend_from_slice(&z.to_le_bytes());
    }
    out.truncate(len);
    out
}

fn mk_seed<T: SeedableRng>(bytes: &[u8]) -> T::Seed {
    let mut s = T::Seed::default();
    s.as_mut().copy_from_slice(bytes);
    s
}

fn apply<T: RngCore + Jumps>(g: &mut T, op: Op, h: &mut Fnv) {
    match op {
        Op::U32 => h.u64(g.next_u32() as u64),
        Op::U64 => h.u64(g.next_u64()),
        Op::Fill(n) => {
            let mut b = vec![0u8; n];
            g.fill_bytes(&mut b);
            h.bytes(&b);
        }
        Op::FillAt(n, off) => {
            let mut backing = vec![0u64; (n + off) / 8 + 2];
            let bytes: &mut [u8] = unsafe { std::slice::from_raw_parts_mut(backing.as_mut_ptr() as *mut u8, backing.len() * 8) };
            g.fill_bytes(&mut bytes[off..off + n]);
            h.bytes(&bytes[off..off + n]);
        }
        Op::Jump => g.do_jump(),
        Op::LongJump => g.do_long_jump(),
    }
}

fn item(out: &mut Vec<String>, label: String, f: impl FnOnce(&mut Fnv)) {
    let mut h = Fnv::new();
    let r = catch_unwind(AssertUnwindSafe(|| f(&mut h)));
    match r {
        Ok(()) => out.push(format!("{} {:016x}", label, h.0)),
        Err(p) => {
            let kind = if p.downcast_ref::<Horizon>().is_some() { "HORIZON" } else { "PANIC" };
            out.push(format!("{} {}", label, kind));
        }
    }
}

fn histories(alphabet: &[Op], depth: usize) -> Vec<Vec<Op>> {
    let mut all = vec![vec![]];
    let mut layer: Vec<Vec<Op>> = vec![vec![]];
    for _ in 0..depth {
        let mut next = Vec::new();
        for h in &layer {
            for &o in alphabet {
                let mut n = h.clone();
                n.push(o);
                next.push(n);
            }
        }
        all.extend(next.iter().cloned());
        layer = next;
    }
    all
}

fn unhex(s: &str) -> Vec<u8> {
    (0..s.len() / 2).map(|i| u8::from_str_radix(&s[2 * i..2 * i + 2], 16).unwrap()).collect()
}

/// value-directed seeds computed by the main harness (states whose jump image has a zero word, equal
/// words, ...): lines "<Type> <jump|long_jump> <seed hex>"
fn corpus_aux<T: RngCore + SeedableRng + Jumps>(name: &str, aux: &[(String, String, Vec<u8>)], out: &mut Vec<String>) {
    for (i, (t, op, seed)) in aux.iter().enumerate().filter(|(_, a)| a.0 == name) {
        let _ = t;
        item(out, format!("{}/value-directed/{}/{}", name, op, i), |fx| {
            let mut g = T::from_seed(mk_seed::<T>(seed));
            if op == "jump" {
                g.do_jump();
            } else if op == "long_jump" {
                g.do_long_jump();
            } else {
                fx.u64(g.next_u32() as u64);
            }
            for _ in 0..3 {
                fx.u64(g.next_u64());
            }
        });
    }
}

fn corpus_type<T: RngCore + SeedableRng + Jumps>(name: &str, seed_len: usize, block_words: usize, word_bytes: usize, depth: usize, vseed: u64, out: &mut Vec<String>) {
    let mut alphabet = vec![Op::U32, Op::U64, Op::Fill(0), Op::Fill(3), Op::Fill(5), Op::Fill(9), Op::Fill(17), Op::FillAt(13, 1), Op::FillAt(8197, 3)];
    if block_words > 0 {
        alphabet.push(Op::Fill(block_words * word_bytes - 3));
    }
    if T::HAS_JUMP {
        alphabet.push(Op::Jump);
        alphabet.push(Op::LongJump);
    }
    let seeds: Vec<Vec<u8>> = vec![vec![0u8; seed_len], (0..seed_len).map(|i| (i + 1) as u8).collect(), vec![0xff; seed_len], filler(vseed, 0x18, seed_len)];
    let prefixes: Vec<usize> = if block_words > 0 { vec![0, block_words - 1] } else { vec![0, 1] };
    let hs = histories(&alphabet, depth);
    for (si, s) in seeds.iter().enumerate() {
        for &p in &prefixes {
            for h in &hs {
                let label = format!("{}/s{}/p{}/{}", name, si, p, h.iter().map(|o| o.short()).collect::<Vec<_>>().join(","));
                item(out, label, |fx| {
                    let mut g = T::from_seed(mk_seed::<T>(s));
                    for _ in 0..p {
                        if word_bytes == 4 {
                            g.next_u32();
                        } else {
                            g.next_u64();
                        }
                    }
                    for &op in h {
                        apply(&mut g, op, fx);
                    }
                    // and what comes next
                    fx.u64(g.next_u64());
                    fx.u64(g.next_u32() as u64);
                });
            }
        }
    }
    // constructors: byte probes and u64 arguments
    for pos in 0..seed_len {
        for val in [0x01u8, 0x80, 0xA5, 0xFF] {
            let mut s = vec![0u8; seed_len];
            s[pos] = val;
            item(out, format!("{}/from_seed/b{}={:02x}", name, pos, val), |fx| {
                let mut g = T::from_seed(mk_seed::<T>(&s));
                for _ in 0..4 {
                    fx.u64(g.next_u64());
                }
            });
        }
    }
    // every pair of seed bits (sparse seeds reach rarely used carries in the key expansion)
    let nbits = seed_len * 8;
    for i in 0..nbits {
        let label = format!("{}/from_seed/w2/bit{}", name, i);
        item(out, label, |fx| {
            for j in i + 1..nbits {
                let mut s = vec![0u8; seed_len];
                s[i / 8] |= 1 << (i % 8);
                s[j / 8] |= 1 << (j % 8);
                let mut g = T::from_seed(mk_seed::<T>(&s));
                fx.u64(g.next_u64());
            }
        });
    }
    let mut xs: Vec<u64> = vec![0, 1, 2, u64::MAX, 0x61c8864680b583eb];
    for j in 0..64 {
        xs.push(1u64 << j);
        xs.push((1u64 << j).wrapping_sub(1));
    }
    for x in xs {
        item(out, format!("{}/seed_from_u64/{:#x}", name, x), |fx| {
            let mut g = T::seed_from_u64(x);
            for _ in 0..4 {
                fx.u64(g.next_u64());
            }
        });
    }
    // consecutive u64 arguments in chunks of 256
    let chunks = if name == "Hc128Rng" { 128 } else { 16 };
    for c in 0..chunks {
        item(out, format!("{}/seed_from_u64/range{}", name, c), |fx| {
            for x in c * 256..(c + 1) * 256 {
                let mut g = T::seed_from_u64(x as u64);
                fx.u64(g.next_u64());
            }
        });
    }
    // seeding from a source RNG: a dense script, and scripts that start with z all-zero blocks of one
    // seed's length (a redraw loop written as recursion is a loop only in optimised builds)
    for z in [0usize, 1, 2, 3, 1000, 65536, 400_000] {
        if z > 3 && name != "XorShiftRng" {
            continue;
        }
        item(out, format!("{}/from_rng/zero-blocks-{}", name, z), |fx| {
            let mut script = vec![0u8; z * seed_len];
            script.extend(filler(vseed, 0x1F + z as u64, 4 * seed_len.max(16)));
            let mut src = ByteSource { script, pos: 0 };
            let mut g = T::from_rng(&mut src);
            fx.u64(src.pos as u64);
            for _ in 0..4 {
                fx.u64(g.next_u64());
            }
            let mut src2 = ByteSource { script: filler(vseed, 0x2F + z as u64, 8 * seed_len.max(16)), pos: 0 };
            let g2 = T::try_from_rng(&mut src2);
            if let Ok(mut g2) = g2 {
                fx.u64(g2.next_u64());
            }
            fx.u64(src2.pos as u64);
        });
    }
    // block counters: 2^16 + 4 blocks from one object (array-based generators)
    if block_words > 0 {
        // (256-word blocks: 2^18 of them, so that a carry out of the 32-bit block counter arithmetic of
        // ISAAC, whose chance grows with the block number, is certain to have occurred)
        let nblocks: usize = if block_words >= 256 { 1 << 18 } else { 1 << 16 };
        item(out, format!("{}/run-of-{}-blocks", name, nblocks), |fx| {
            let mut g = T::from_seed(mk_seed::<T>(&seeds[1]));
            let mut buf = vec![0u8; block_words * word_bytes * 64];
            let mut acc = 0u64;
            for _ in 0..(nblocks / 64) {
                g.fill_bytes(&mut buf);
                acc = acc.wrapping_mul(31).wrapping_add(u64::from_le_bytes(buf[buf.len() - 8..].try_into().unwrap()));
            }
            fx.u64(acc);
            for _ in 0..(4 * block_words) {
                fx.u64(g.next_u32() as u64);
            }
        });
    }
    // long run
    item(out, format!("{}/long-run", name), |fx| {
        let mut g = T::from_seed(mk_seed::<T>(&seeds[3]));
        let mut buf = vec![0u8; 1000];
        for _ in 0..if block_words > 0 { 300 } else { 50 } {
            g.fill_bytes(&mut buf);
            fx.bytes(&buf);
        }
    });
}

// ------------------------------------------------------------------------------------------------
// JitterRng with scripted timers
// ------------------------------------------------------------------------------------------------
struct Horizon;

struct Script {
    r: Vec<u64>,
    pos: AtomicUsize,
}

fn jitter(readings: Vec<u64>) -> (JitterRng<impl Fn() -> u64 + Send + Sync + Clone>, Arc<Script>) {
    let s = Arc::new(Script { r: readings, pos: AtomicUsize::new(0) });
    let s2 = s.clone();
    let timer = move || {
        let i = s2.pos.fetch_add(1, Ordering::Relaxed);
        if i >= s2.r.len() {
            std::panic::panic_any(Horizon);
        }
        s2.r[i]
    };
    (JitterRng::new_with_timer(timer), s)
}

fn raw_readings(salt: u64, len: usize) -> Vec<u64> {
    let mut v = Vec::with_capacity(len);
    let mut t: u64 = 1_000_000 + salt * 7919;
    let mut x: u64 = 0x9E3779B97F4A7C15 ^ salt.wrapping_mul(0xD1B54A32D192ED03);
    for _ in 0..len {
        v.push(t);
        x ^= x >> 12;
        x ^= x << 25;
        x ^= x >> 27;
        let r = x.wrapping_mul(0x2545F4914F6CDD1D) >> 53;
        t += 400 + r;
    }
    v
}

#[derive(Clone, Copy, Debug)]
enum Dev {
    Repeat,
    Repeat3,
    SameDelta,
    SameDeltaSkip,
    Arith,
    BackOne,
    BackFar,
    Jump31m1,
    Jump31,
    Jump32,
    Jump32p7,
    Repeat2,
    ProbePlus32,
    ProbePlus3x32,
    PrimePlus32,
    Wrap,
    Zero,
}
const DEVS: [Dev; 17] = [Dev::Repeat2, Dev::ProbePlus32, Dev::ProbePlus3x32, Dev::PrimePlus32, Dev::Repeat, Dev::Repeat3, Dev::SameDelta, Dev::SameDeltaSkip, Dev::Arith, Dev::BackOne, Dev::BackFar, Dev::Jump31m1, Dev::Jump31, Dev::Jump32, Dev::Jump32p7, Dev::Wrap, Dev::Zero];

fn deviate(base: &[u64], pos: usize, kind: Dev) -> Vec<u64> {
    deviate_many(base, &[(pos, kind)])
}

fn deviate_many(base: &[u64], devs: &[(usize, Dev)]) -> Vec<u64> {
    let mut t: Vec<u64> = Vec::with_capacity(base.len());
    for i in 0..base.len() {
        let inc = if i == 0 { base[0] } else { base[i].wrapping_sub(base[i - 1]) };
        let mut v = if i == 0 { inc } else { t[i - 1].wrapping_add(inc) };
        if let Some(&(_, kind)) = devs.iter().find(|(p, _)| *p == i) {
            let prev = if i > 0 { t[i - 1] } else { 0 };
            let back = |k: usize| if i >= k { t[i - k] } else { 0 };
            v = match kind {
                Dev::Repeat => prev,
                Dev::Repeat3 => back(3),
                Dev::SameDeltaSkip => back(3).wrapping_add(back(6).wrapping_sub(back(9))),
                Dev::SameDelta => back(3).wrapping_add(back(3).wrapping_sub(back(6))),
                Dev::Arith => {
                    let d1 = back(3).wrapping_sub(back(6));
                    let d2 = back(6).wrapping_sub(back(9));
                    back(3).wrapping_add(d1.wrapping_mul(2).wrapping_sub(d2))
                }
                Dev::BackOne => prev.wrapping_sub(1),
                Dev::BackFar => prev.wrapping_sub(5_000_000_123),
                Dev::Jump31m1 => prev.wrapping_add((1 << 31) - 1),
                Dev::Jump31 => prev.wrapping_add(1 << 31),
                Dev::Jump32 => prev.wrapping_add(1 << 32),
                Dev::Jump32p7 => prev.wrapping_add((1 << 32) + 7),
                Dev::Repeat2 => back(2),
                Dev::ProbePlus32 => back(3).wrapping_add(1 << 32),
                Dev::ProbePlus3x32 => back(3).wrapping_add(3 << 32),
                Dev::PrimePlus32 => back(2).wrapping_add(1 << 32),
                Dev::Wrap => u64::MAX - 2,
                Dev::Zero => 0,
            };
        }
        t.push(v);
    }
    t
}

fn collection_script(deltas: &[i64]) -> Vec<u64> {
    let mut t: u64 = 1 << 45;
    let mut r = vec![t];
    for &d in deltas {
        r.push(t.wrapping_add(1));
        t = t.wrapping_add(d as u64);
        r.push(t);
        r.push(t.wrapping_add(1));
    }
    r
}

fn benign_delta(i: usize) -> i64 {
    900 + ((i * i * 31 + i * 7) % 211) as i64 * 3 + (i % 5) as i64 * 57
}

/// A source RNG that delivers a byte script (then a deterministic filler).
struct ByteSource {
    script: Vec<u8>,
    pos: usize,
}
impl ByteSource {
    fn byte(&mut self) -> u8 {
        let b = if self.pos < self.script.len() { self.script[self.pos] } else { 0xA5 ^ (self.pos as u8) };
        self.pos += 1;
        b
    }
}
impl RngCore for ByteSource {
    fn next_u32(&mut self) -> u32 {
        let mut b = [0u8; 4];
        self.fill_bytes(&mut b);
        u32::from_le_bytes(b)
    }
    fn next_u64(&mut self) -> u64 {
        let mut b = [0u8; 8];
        self.fill_bytes(&mut b);
        u64::from_le_bytes(b)
    }
    fn fill_bytes(&mut self, dest: &mut [u8]) {
        for d in dest.iter_mut() {
            *d = self.byte();
        }
    }
}

/// deltas for probes 100..400 whose variation sum (with delta_99 := 0) is exactly `s`
fn deltas_for_sum(s: u64) -> Vec<i64> {
    let b: u64 = if s < 10 { 1 } else { 7 };
    let rest = s.saturating_sub(b);
    let q = rest / 299;
    let extra = (rest % 299) as usize;
    let mut d: i64 = b as i64;
    let mut out = vec![d];
    for i in 0..299 {
        let v = (q + if i < extra { 1 } else { 0 }) as i64;
        d = if d - v >= 1 { d - v } else { d + v };
        out.push(d);
    }
    out
}

fn tt_script(diffs: &dyn Fn(usize) -> i64) -> Vec<u64> {
    let mut r = vec![(1u64 << 50) - 1000];
    for i in 0..400 {
        let time = (1u64 << 50) + (i as u64) * (1 << 34);
        r.push(time);
        r.push(time + 3);
        r.push(time + 5);
        r.push(time.wrapping_add(diffs(i) as u64));
    }
    let last = *r.last().unwrap();
    for k in 1..=8 {
        r.push(last.wrapping_add(1000 * k));
    }
    r
}

fn corpus_jitter(depth: usize, vseed: u64, out: &mut Vec<String>) {
    // histories on a benign timer
    let alphabet = [Op::U32, Op::U64, Op::Fill(0), Op::Fill(3), Op::Fill(5), Op::Fill(9)];
    for rounds in [1u8, 2, 3] {
        let base = raw_readings(vseed ^ rounds as u64, 400);
        for h in histories(&alphabet, depth.min(3)) {
            item(out, format!("Jitter/r{}/{}", rounds, h.iter().map(|o| o.short()).collect::<Vec<_>>().join(",")), |fx| {
                let (mut g, s) = jitter(base.clone());
                g.set_rounds(rounds);
                for &op in &h {
                    match op {
                        Op::U32 => fx.u64(g.next_u32() as u64),
                        Op::U64 => fx.u64(g.next_u64()),
                        Op::Fill(n) => {
                            let mut b = vec![0u8; n];
                            g.fill_bytes(&mut b);
                            fx.bytes(&b);
                        }
                        _ => {}
                    }
                    fx.u64(s.pos.load(Ordering::Relaxed) as u64);
                }
                fx.u64(g.timer_stats(true) as u64);
                fx.u64(g.timer_stats(false) as u64);
            });
        }
        // one deviation at every reading position of [next_u64, next_u32]
        let need = 2 * (1 + 3 * (rounds as usize + 1)) + 4;
        for pos in 0..need {
            for k in DEVS {
                item(out, format!("Jitter/r{}/dev{:?}@{}", rounds, k, pos), |fx| {
                    let (mut g, s) = jitter(deviate(&base[..need + 60], pos, k));
                    g.set_rounds(rounds);
                    fx.u64(g.next_u64());
                    fx.u64(s.pos.load(Ordering::Relaxed) as u64);
                    fx.u64(g.next_u32() as u64);
                    fx.u64(s.pos.load(Ordering::Relaxed) as u64);
                });
            }
        }
    }
    // a long life of one object and its clone: 6000 collections (per-object accumulators)
    item(out, "Jitter/long-life".into(), |fx| {
        let n = 6000usize;
        let (mut g, s) = jitter(raw_readings(vseed ^ 0x11FE, 7 * n + 64));
        g.set_rounds(1);
        let mut acc = 0u64;
        for i in 0..n {
            let v = if i % 3 == 0 { g.next_u32() as u64 } else { g.next_u64() };
            acc = acc.wrapping_mul(0x9E3779B97F4A7C15).wrapping_add(v);
            if i == n / 2 {
                let mut c = g.clone();
                acc ^= c.next_u64();
            }
        }
        fx.u64(acc);
        fx.u64(s.pos.load(Ordering::Relaxed) as u64);
    });
    // long runs of consecutive stuck measurements in the second collection
    {
        let mut lens: Vec<usize> = (1..=10).collect();
        let mut p = 16usize;
        while p <= 4096 {
            lens.extend([p - 1, p, p + 1]);
            p *= 2;
        }
        let base = raw_readings(vseed ^ 0xAA, 3 * 13 + 3 * 4097 + 200);
        for k in lens {
            for kind in [Dev::Repeat3, Dev::SameDelta] {
                item(out, format!("Jitter/stuck-run/{:?}x{}", kind, k), |fx| {
                    let devs: Vec<(usize, Dev)> = (0..k).map(|j| (10 + 5 + 3 * j, kind)).collect();
                    let (mut g, s) = jitter(deviate_many(&base[..3 * 13 + 3 * k + 150], &devs));
                    g.set_rounds(2);
                    fx.u64(g.next_u32() as u64);
                    fx.u64(g.next_u64());
                    fx.u64(s.pos.load(Ordering::Relaxed) as u64);
                    fx.u64(g.next_u32() as u64);
                    fx.u64(s.pos.load(Ordering::Relaxed) as u64);
                });
            }
        }
    }
    // bursts of extreme probe deltas (wraps in release vs panics in dev is exactly C18's business)
    let menu: [i64; 10] = [0, 1, -1, 1 << 30, -(1 << 30), (1 << 30) + (1 << 29), -((1 << 30) + (1 << 29)), (1i64 << 31) - 1, -(1i64 << 31), (1i64 << 32) - 1];
    for &a in &menu {
        for &b in &menu {
            item(out, format!("Jitter/burst/{},{}", a, b), |fx| {
                for &c in &menu {
                    for m in 0..3 {
                        let mut deltas: Vec<i64> = (0..20).map(benign_delta).collect();
                        deltas[m] = a;
                        deltas[m + 1] = b;
                        deltas[m + 2] = c;
                        let r = catch_unwind(AssertUnwindSafe(|| {
                            let (mut g, s) = jitter(collection_script(&deltas));
                            g.set_rounds(2);
                            (g.next_u64(), s.pos.load(Ordering::Relaxed))
                        }));
                        match r {
                            Ok((v, p)) => {
                                fx.u64(v);
                                fx.u64(p as u64)
                            }
                            Err(p) => fx.u64(if p.downcast_ref::<Horizon>().is_some() { 0x4852 } else { 0x50414e4943 }),
                        }
                    }
                }
            });
        }
    }
    // test_timer on periodic difference patterns (period <= 2) and a healthy script
    let alpha: [i64; 13] = [1, 2, 3, 7, 100, 101, 1000, -1, -100, (1 << 31) - 1, -(1 << 31), (1i64 << 31) + 777, -((1i64 << 32) - 700)];
    for &a in &alpha {
        for &b in &alpha {
            item(out, format!("Jitter/test_timer/{},{}", a, b), |fx| {
                let (mut g, s) = jitter(tt_script(&|i| if i % 2 == 0 { a } else { b }));
                let r = g.test_timer();
                fx.bytes(format!("{:?}", r).as_bytes());
                fx.u64(s.pos.load(Ordering::Relaxed) as u64);
            });
        }
    }
    // exact variation sums around every boundary of the rounds estimate (means 1..17 and their edges)
    for mean in 1u64..=17 {
        for r in [0u64, 1, 150, 299] {
            let sum = 300 * mean + r;
            item(out, format!("Jitter/test_timer/sum={}", sum), |fx| {
                let ds = deltas_for_sum(sum);
                let (mut g, s) = jitter(tt_script(&|i| if i < 100 { 1000 + ((i * i * 7 + i * 13) % 89) as i64 * 3 + (i % 3) as i64 * 211 } else { ds[i - 100] }));
                let r = g.test_timer();
                fx.bytes(format!("{:?}", r).as_bytes());
                fx.u64(s.pos.load(Ordering::Relaxed) as u64);
                if let Ok(r) = r {
                    g.set_rounds(r);
                }
            });
        }
    }
    item(out, "Jitter/test_timer/healthy".into(), |fx| {
        let (mut g, s) = jitter(tt_script(&|i| 1000 + ((i * i * 7 + i * 13) % 89) as i64 * 3));
        let r = g.test_timer();
        fx.bytes(format!("{:?}", r).as_bytes());
        fx.u64(s.pos.load(Ordering::Relaxed) as u64);
        if let Ok(r) = r {
            g.set_rounds(r);
        }
    });
}

#[cfg(feature = "serde")]
mod sink_logger {
    //! with the optional features on, rand_jitter's log statements are live: every record is formatted
    pub struct Sink;
    impl log::Log for Sink {
        fn enabled(&self, _: &log::Metadata) -> bool {
            true
        }
        fn log(&self, record: &log::Record) {
            use std::fmt::Write;
            struct Null(usize);
            impl Write for Null {
                fn write_str(&mut self, s: &str) -> std::fmt::Result {
                    self.0 += s.len();
                    Ok(())
                }
            }
            let mut n = Null(0);
            let _ = write!(n, "{}", record.args());
            std::hint::black_box(n.0);
        }
        fn flush(&self) {}
    }
    pub static SINK: Sink = Sink;
}

fn main() {
    #[cfg(feature = "serde")]
    {
        let _ = log::set_logger(&sink_logger::SINK);
        log::set_max_level(log::LevelFilter::Trace);
    }
    let args: Vec<String> = std::env::args().collect();
    let depth: usize = args.get(1).and_then(|s| s.parse().ok()).unwrap_or(2);
    let vseed: u64 = args.get(2).and_then(|s| s.parse::<i128>().ok()).map(|v| v as u64).unwrap_or(0);
    std::panic::set_hook(Box::new(|_| {}));
    let mut out: Vec<String> = Vec::new();
    let aux: Vec<(String, String, Vec<u8>)> = args
        .get(3)
        .and_then(|p| std::fs::read_to_string(p).ok())
        .map(|t| {
            t.lines()
                .filter_map(|l| {
                    let mut it = l.split_whitespace();
                    Some((it.next()?.to_string(), it.next()?.to_string(), unhex(it.next()?)))
                })
                .collect()
        })
        .unwrap_or_default();
    // one thread per generator type; the outputs are concatenated in the fixed order below
    let aux_ref = &aux;
    std::thread::scope(|sc| {
    let mut handles: Vec<std::thread::ScopedJoinHandle<Vec<String>>> = Vec::new();
    macro_rules! t {
        ($t:ty, $len:expr, $bw:expr, $wb:expr) => {{
            handles.push(sc.spawn(move || {
                let mut out: Vec<String> = Vec::new();
                corpus_type::<$t>(stringify!($t), $len, $bw, $wb, depth, vseed, &mut out);
                corpus_aux::<$t>(stringify!($t), aux_ref, &mut out);
                out
            }));
        }};
    }
    t!(Xoroshiro64Star, 8, 0, 4);
    t!(Xoroshiro64StarStar, 8, 0, 4);
    t!(Xoroshiro128Plus, 16, 0, 8);
    t!(Xoroshiro128PlusPlus, 16, 0, 8);
    t!(Xoroshiro128StarStar, 16, 0, 8);
    t!(Xoshiro128Plus, 16, 0, 4);
    t!(Xoshiro128PlusPlus, 16, 0, 4);
    t!(Xoshiro128StarStar, 16, 0, 4);
    t!(Xoshiro256Plus, 32, 0, 8);
    t!(Xoshiro256PlusPlus, 32, 0, 8);
    t!(Xoshiro256StarStar, 32, 0, 8);
    t!(Xoshiro512Plus, 64, 0, 8);
    t!(Xoshiro512PlusPlus, 64, 0, 8);
    t!(Xoshiro512StarStar, 64, 0, 8);
    t!(SplitMix64, 8, 0, 8);
    t!(XorShiftRng, 16, 0, 4);
    t!(Hc128Rng, 32, 16, 4);
    t!(IsaacRng, 32, 256, 4);
    t!(Isaac64Rng, 32, 256, 8);
    handles.push(sc.spawn(move || {
        let mut out: Vec<String> = Vec::new();
        corpus_jitter(depth, vseed, &mut out);
        out
    }));
    for h in handles {
        out.extend(h.join().expect("corpus thread"));
    }
    });
    let stdout = std::io::stdout();
    let mut w = std::io::BufWriter::new(stdout.lock());
    for l in &out {
        let _ = writeln!(w, "{}", l);
    }
}
