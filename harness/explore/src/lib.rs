//! Engines and property checks, written against `dyn` seams so that an edit under /repo never
//! rebuilds this crate.
pub mod alphabet;
pub mod checks;
pub mod evidence;
pub mod histories;
pub mod jitter_env;
pub mod inventory;
pub mod linear;
pub mod ops;
pub mod rare;
pub mod replay;
pub mod stream;
pub mod subject;

pub use evidence::{Ctx, EvidenceKeys, Tier};
pub use subject::*;
