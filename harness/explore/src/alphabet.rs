//! Structured finite input alphabets (DESIGN.md section 3).

/// splitmix-style deterministic filler for "background" constants derived from VERIF_SEED.
pub fn bg_bytes(seed: u64, tag: u64, len: usize) -> Vec<u8> {
    let mut st = seed ^ tag.wrapping_mul(0x9e3779b97f4a7c15) ^ 0xD1B54A32D192ED03;
    let mut out = Vec::with_capacity(len);
    while out.len() < len {
        st = st.wrapping_add(0x9e3779b97f4a7c15);
        let mut z = st;
        z = (z ^ (z >> 30)).wrapping_mul(0xbf58476d1ce4e5b9);
        z = (z ^ (z >> 27)).wrapping_mul(0x94d049bb133111eb);
        z ^= z >> 31;
        out.extend_from_slice(&z.to_le_bytes());
    }
    out.truncate(len);
    out
}

pub fn zero(len: usize) -> Vec<u8> {
    vec![0; len]
}
pub fn ones(len: usize) -> Vec<u8> {
    vec![0xff; len]
}
pub fn with_bits(len: usize, bits: &[usize]) -> Vec<u8> {
    let mut v = vec![0u8; len];
    for &b in bits {
        v[b / 8] ^= 1 << (b % 8);
    }
    v
}
/// all weight-1 seeds
pub fn w1(len: usize) -> Vec<Vec<u8>> {
    (0..len * 8).map(|i| with_bits(len, &[i])).collect()
}
/// all weight-2 seeds as index pairs
pub fn w2_pairs(nbits: usize) -> Vec<(usize, usize)> {
    let mut v = Vec::with_capacity(nbits * (nbits - 1) / 2);
    for i in 0..nbits {
        for j in i + 1..nbits {
            v.push((i, j));
        }
    }
    v
}
/// walking zero
pub fn wz(len: usize) -> Vec<Vec<u8>> {
    (0..len * 8)
        .map(|i| {
            let mut v = vec![0xffu8; len];
            v[i / 8] ^= 1 << (i % 8);
            v
        })
        .collect()
}
/// every byte position set to each of {01,80,A5,FF}, plus ramp and reverse ramp
pub fn byte_probes(len: usize) -> Vec<Vec<u8>> {
    let mut out = Vec::new();
    for pos in 0..len {
        for &val in &[0x01u8, 0x80, 0xA5, 0xFF] {
            let mut v = vec![0u8; len];
            v[pos] = val;
            out.push(v);
        }
    }
    out.push((0..len).map(|i| (i + 1) as u8).collect());
    out.push((0..len).map(|i| (len - i) as u8).collect());
    out
}
/// carry-chain operand values for a w-bit word
pub fn carry_words(w: usize) -> Vec<u64> {
    let mask = if w == 64 { u64::MAX } else { (1u64 << w) - 1 };
    let mut v = Vec::new();
    for j in 0..w {
        let p = 1u64 << j;
        v.push(p.wrapping_sub(1) & mask); // 2^j - 1
        v.push(p & mask); // 2^j
        v.push((mask ^ p.wrapping_sub(1)) & mask); // 2^w - 2^j
        v.push((mask ^ p) & mask); // 2^w - 1 - 2^j
    }
    v.push(mask);
    v.sort();
    v.dedup();
    v
}

/// Operands on which a multiplication by the small odd constant `m`, split at bit `s` into a high and
/// a low partial product (any "multiply the halves separately" rewrite), has a carry that decides the
/// result: x = (hi << s) | low with hi*m within m-1 of a multiple of 2^k (k = 3..w-s), low in {all
/// ones, zero, dense}, and zero or dense bits above bit s+k.
pub fn mult_boundary_words(w: usize, m: u64, seed: u64) -> Vec<u64> {
    let mask: u128 = if w == 64 { u64::MAX as u128 } else { (1u128 << w) - 1 };
    let dense = {
        let b = bg_bytes(seed, 0x3B0D ^ m, 16);
        (u64::from_le_bytes(b[..8].try_into().unwrap()) as u128, u64::from_le_bytes(b[8..].try_into().unwrap()) as u128)
    };
    let mut v = Vec::new();
    let js: Vec<u128> = if m <= 16 { (1..m as u128).collect() } else { vec![1, 2, 3, m as u128 / 2, m as u128 - 1] };
    let dmax = (m.min(9) as i128) - 1;
    for s in (0..w).step_by(8) {
        if s + 3 > w {
            continue;
        }
        for k in 3..=(w - s) {
            for &j in &js {
                let base = (j << k) / m as u128;
                for d in -dmax..=dmax {
                    let hi = ((base as i128 + d) as u128) & ((1u128 << k) - 1);
                    for low in [(1u128 << s) - 1, 0, dense.0 & ((1u128 << s) - 1)] {
                        for above in [0u128, dense.1] {
                            let x = ((above << (s + k)) | (hi << s) | low) & mask;
                            v.push(x as u64);
                        }
                    }
                }
            }
        }
    }
    v.sort();
    v.dedup();
    v
}

/// inverse of the odd `a` modulo 2^w
pub fn inv_odd(a: u64, w: usize) -> u64 {
    let mut x: u64 = 1;
    for _ in 0..7 {
        x = x.wrapping_mul(2u64.wrapping_sub(a.wrapping_mul(x)));
    }
    if w == 64 { x } else { x & ((1u64 << w) - 1) }
}

/// Numbers of leading all-zero source blocks to try: every count up to 12 and around every power of
/// two up to `max` (any bound on redraws).
pub fn zero_block_counts(max: usize) -> Vec<usize> {
    let mut v: Vec<usize> = (0..=12).collect();
    let mut p = 16usize;
    while p <= max {
        v.extend([p - 1, p, p + 1]);
        p *= 2;
    }
    v
}
/// u64 arguments for seed_from_u64
pub fn u64_alphabet() -> Vec<u64> {
    const PHI: u64 = 0x9e3779b97f4a7c15;
    let mut v = vec![0u64, 1, 2, u64::MAX];
    for j in 0..64 {
        v.push(1u64 << j);
        v.push((1u64 << j).wrapping_sub(1));
        v.push(!(1u64 << j));
    }
    for j in 1..=8u64 {
        let x = 0u64.wrapping_sub(j.wrapping_mul(PHI)); // the argument whose j-th SplitMix64 output is 0
        v.push(x);
        v.push(x.wrapping_add(1));
        v.push(x.wrapping_sub(1));
    }
    // arguments whose j-th SplitMix64 expansion word is special: zero, a zero half, all ones, a
    // single bit, the documented replacement constants (constructed by inverting the finaliser)
    for j in 1..=8u64 {
        for y in [0u64, 0x0000_0000_9E37_79B9, 0xDEAD_BEEF_0000_0000, 0x0000_0000_0000_0001, 0x8000_0000_0000_0000, u64::MAX, 0x0000_0000_FFFF_FFFF, 0xFFFF_FFFF_0000_0000, 0x0BAD_5EED_0BAD_5EED] {
            v.push(refmodels::seeding::splitmix_argument_for(j, y));
        }
    }
    v.sort();
    v.dedup();
    v
}
