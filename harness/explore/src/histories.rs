//! E1 — explicit-state BFS over operation histories on the real code, in product with the
//! bookkeeping model of `stream.rs`. A state is the history that reaches it; the implementation
//! object of a state is rebuilt by replaying the history on a fresh generator.

use crate::ops::{apply, fingerprint, ops_json, Obs, Op};
use crate::stream::{Pos, Stream};
use crate::subject::{Family, Gen, TypeInfo};
use serde_json::{json, Value};
use std::collections::BTreeMap;

/// Builds a fresh generator in the start state of an exploration.
pub trait Maker: Sync {
    fn make(&self) -> Box<dyn Gen>;
    fn info(&self) -> &TypeInfo;
    fn describe(&self) -> Value;
}

pub fn fill_lengths(info: &TypeInfo) -> Vec<usize> {
    // small lengths around the 4/8-byte boundaries, and large requests (bulk fast paths)
    let mut v = vec![0, 1, 2, 3, 4, 5, 7, 8, 9, 12, 13, 15, 16, 17, 8192, 8197];
    match info.family {
        Family::Hc128 => v.extend([63, 64, 65, 127]),
        Family::Isaac => v.extend([1023, 1024, 1025]),
        Family::Isaac64 => v.extend([2047, 2048, 2049]),
        _ => {}
    }
    v
}

pub fn output_alphabet(info: &TypeInfo) -> Vec<Op> {
    let mut v = vec![Op::U32, Op::U64];
    v.extend(fill_lengths(info).into_iter().map(Op::Fill));
    // destinations that do not start on a word boundary (any path that reinterprets the byte slice)
    v.extend([Op::FillAt(5, 1), Op::FillAt(9, 3), Op::FillAt(17, 2)]);
    match info.family {
        Family::Hc128 => v.extend([Op::FillAt(65, 1), Op::FillAt(8197, 1), Op::FillAt(8192, 3)]),
        Family::Isaac => v.extend([Op::FillAt(1025, 1), Op::FillAt(1024, 3), Op::FillAt(8197, 1)]),
        Family::Isaac64 => v.extend([Op::FillAt(2049, 1), Op::FillAt(2048, 5), Op::FillAt(8197, 1)]),
        Family::Jitter => {}
        _ => v.extend([Op::FillAt(8197, 1), Op::FillAt(64, 4)]),
    }
    v
}

/// Native stream of a twin driven with native-width calls only.
pub fn native_stream(mk: &dyn Maker, words: usize) -> Vec<u64> {
    let mut g = mk.make();
    let wb = mk.info().word_bits;
    fingerprint(&mut g, wb, words)
}

/// For SplitMix64: next_u32 of a twin that made p native calls before.
pub fn own_u32_stream(mk: &dyn Maker, words: usize) -> Vec<u32> {
    // one running generator per position would need Clone (under test elsewhere); rebuild instead, in
    // strides: the generator for position p is rebuilt every 64 positions and advanced in between by
    // throw-away copies made through the Maker only
    use rayon::prelude::*;
    (0..words)
        .into_par_iter()
        .map(|p| {
            let mut g = mk.make();
            for _ in 0..p {
                g.next_u64();
            }
            g.next_u32()
        })
        .collect()
}

#[derive(Clone, Debug)]
pub struct StateRec {
    pub pos: Pos,
    pub history: Vec<Op>,
}

#[derive(Default, Debug, Clone)]
pub struct Stats {
    pub states: u64,
    pub transitions: u64,
    pub merges_checked: u64,
    /// paths that reached an already seen bookkeeping key in a different implementation state (kept apart)
    pub unmerged_paths: u64,
    pub straddles: u64,
    pub tails: u64,
    pub half_pending_transitions: u64,
    pub distinct_observations: u64,
    pub depth_completed: u64,
    pub tolerated_alternatives: u64,
}

pub struct Violation {
    pub key: String,
    pub what: String,
    pub replay: Value,
}

/// Rebuild the implementation at a state.
pub fn rebuild(mk: &dyn Maker, history: &[Op]) -> Box<dyn Gen> {
    let mut g = mk.make();
    for op in history {
        let _ = apply(&mut g, op);
    }
    g
}

/// Explore all histories up to `depth` over `alphabet`, starting after `prefix` (a history that is
/// itself part of every state's history), merging states with equal bookkeeping key.
/// `check_future`: number of native words compared after every transition.
pub fn explore(mk: &dyn Maker, stream: &Stream, prefix: &[Op], start: Pos, alphabet: &[Op], depth: usize, check_future: usize, stats: &mut Stats, out: &mut Vec<Violation>) -> Vec<StateRec> {
    let info = mk.info();
    let block = info.block_words.unwrap_or(0) as u64;
    let mut seen: BTreeMap<Pos, Vec<Op>> = BTreeMap::new();
    seen.insert(start, prefix.to_vec());
    let mut frontier = vec![StateRec { pos: start, history: prefix.to_vec() }];
    let mut observations: std::collections::HashSet<Obs> = std::collections::HashSet::new();
    for d in 0..depth {
        let mut next = Vec::new();
        for st in &frontier {
            for op in alphabet {
                if st.pos.words + stream.words_needed(op) + check_future as u64 + 2 > stream.max_words() {
                    continue;
                }
                let mut g = rebuild(mk, &st.history);
                let obs = apply(&mut g, op);
                stats.transitions += 1;
                observations.insert(obs.clone());
                let alts = stream.expect(st.pos, op);
                if st.pos.half {
                    stats.half_pending_transitions += 1;
                }
                if let Op::Fill(n) = &op.norm() {
                    if n % 8 != 0 && n % 8 <= 7 {
                        stats.tails += 1;
                    }
                }
                let hit = alts.iter().position(|(e, _)| *e == obs);
                let mut hist = st.history.clone();
                hist.push(op.clone());
                let Some(idx) = hit else {
                    out.push(Violation {
                        key: format!("{}:projection:{}", info.name, op.short()),
                        what: format!(
                            "{}: after {} (words consumed {}, half pending {}), {} returned {} but the stated projection of the native stream is {}",
                            info.name,
                            crate::ops::ops_short(&st.history),
                            st.pos.words,
                            st.pos.half,
                            op.short(),
                            obs.to_json(),
                            alts.iter().map(|(e, _)| e.to_json().to_string()).collect::<Vec<_>>().join(" or ")
                        ),
                        replay: json!({"kind":"history","maker":mk.describe(),"type":info.name,"ops":ops_json(&hist),"expected_last":alts.iter().map(|(e,_)| e.to_json()).collect::<Vec<_>>(),"observed_last":obs.to_json()}),
                    });
                    continue;
                };
                if idx > 0 {
                    stats.tolerated_alternatives += 1;
                }
                let np = alts[idx].1;
                if block > 0 && st.pos.words / block != (np.words.max(1) - 1) / block && st.pos.words % block != 0 {
                    stats.straddles += 1;
                }
                // the future: what the generator returns next must be the stream continuing at np
                if check_future > 0 {
                    let mut ok = true;
                    let mut detail = String::new();
                    let mut fpos = np;
                    if np.half {
                        // first the pending high half
                        let o = apply(&mut g, &Op::U32);
                        let e = stream.expect(np, &Op::U32);
                        if o != e[0].0 {
                            ok = false;
                            detail = format!("pending half: next_u32 gave {} expected {}", o.to_json(), e[0].0.to_json());
                        }
                        fpos = e[0].1;
                    }
                    if ok {
                        let fut = fingerprint(&mut g, info.word_bits, check_future);
                        for (k, v) in fut.iter().enumerate() {
                            let e = stream.native[(fpos.words as usize) + k];
                            if *v != e {
                                ok = false;
                                detail = format!("native word {} after the call is {:#x}, the twin's stream has {:#x} (a word was skipped, repeated or reordered)", k, v, e);
                                break;
                            }
                        }
                    }
                    if !ok {
                        out.push(Violation {
                            key: format!("{}:future:{}", info.name, op.short()),
                            what: format!("{}: after {} the stream does not continue at word {}: {}", info.name, crate::ops::ops_short(&hist), np.words, detail),
                            replay: json!({"kind":"history","maker":mk.describe(),"type":info.name,"ops":ops_json(&hist),"then":"native outputs","detail":detail}),
                        });
                        continue;
                    }
                }
                match seen.get(&np) {
                    Some(rep) => {
                        // merge: the implementation reached by this path must be indistinguishable from
                        // the stored representative (== / state image where available)
                        stats.merges_checked += 1;
                        let a = rebuild(mk, &hist);
                        let b = rebuild(mk, rep);
                        let eq = a.eq_dyn(b.as_ref());
                        let img = match (a.ser(), b.ser()) {
                            (Some(x), Some(y)) => Some(x == y),
                            _ => None,
                        };
                        if eq == Some(false) || img == Some(false) {
                            // not a verdict: the two paths consumed the same words and both continue the stream
                            // correctly as far as the look-ahead goes, but the generator is represented
                            // differently (or == / the snapshot say so). They are not merged: this path is
                            // explored as a state of its own, so anything the difference leads to shows as a
                            // projection or future violation further down.
                            stats.unmerged_paths += 1;
                            next.push(StateRec { pos: np, history: hist });
                        }
                    }
                    None => {
                        seen.insert(np, hist.clone());
                        next.push(StateRec { pos: np, history: hist });
                    }
                }
            }
        }
        stats.depth_completed = (d + 1) as u64;
        if next.is_empty() {
            break;
        }
        frontier = next;
    }
    stats.states += seen.len() as u64;
    stats.distinct_observations += observations.len() as u64;
    seen.into_iter().map(|(pos, history)| StateRec { pos, history }).collect()
}
