//! C12 — JitterRng is the documented Jitterentropy 2.1.0 procedure applied to its timer readings.

use super::statespace::all_histories;
use super::Outcome;
use crate::evidence::{Ctx, EvidenceKeys, Tier};
use crate::jitter_env::{self, deviate, Dev, DEV_MENU};
use crate::ops::{apply, ops_json, ops_short, Obs, Op};
use crate::subject::{Registry, TimerResult};
use rayon::prelude::*;
use refmodels::jitter::{Model, Readings, TimerVerdict};
use serde_json::json;

pub fn verdict_to_result(v: TimerVerdict) -> TimerResult {
    match v {
        TimerVerdict::Ok(r) => TimerResult::Ok(r),
        TimerVerdict::NoTimer => TimerResult::NoTimer,
        TimerVerdict::CoarseTimer => TimerResult::CoarseTimer,
        TimerVerdict::NotMonotonic => TimerResult::NotMonotonic,
        TimerVerdict::TinyVariations => TimerResult::TinyVariations,
        TimerVerdict::TooManyStuck => TimerResult::TooManyStuck,
    }
}

#[derive(Debug, Clone, PartialEq, Eq)]
pub struct Trace {
    /// (observation, readings consumed after the call)
    pub steps: Vec<(Obs, usize)>,
    pub pool: u64,
    pub half: bool,
}

pub fn run_impl(reg: &dyn Registry, readings: &[u64], ops: &[Op]) -> Trace {
    run_impl_pool(reg, readings, ops, None)
}

/// ... with the pool set through the hook before the first operation
pub fn run_impl_pool(reg: &dyn Registry, readings: &[u64], ops: &[Op], pool: Option<u64>) -> Trace {
    let (mut g, script) = jitter_env::jitter_with(reg, readings.to_vec(), None);
    if let Some(p) = pool {
        g.jitter().unwrap().set_pool(p);
    }
    let mut steps = Vec::new();
    for op in ops {
        let o = apply(&mut g, op);
        let stop = matches!(o, Obs::Horizon | Obs::Panic(_));
        steps.push((o, script.consumed()));
        if stop {
            break;
        }
    }
    let j = g.jitter().unwrap();
    Trace { steps, pool: j.pool(), half: j.half_pending() }
}

pub fn run_model(readings: &[u64], ops: &[Op]) -> Trace {
    run_model_pool(readings, ops, None)
}

pub fn run_model_pool(readings: &[u64], ops: &[Op], pool: Option<u64>) -> Trace {
    let mut m = Model::new();
    if let Some(p) = pool {
        m.pool = p;
    }
    let mut rd = Readings::new(readings, 0);
    let mut steps = Vec::new();
    for op in ops {
        let o: Result<Obs, refmodels::jitter::OutOfReadings> = match op {
            Op::U32 => m.next_u32(&mut rd).map(Obs::U32),
            Op::U64 => m.next_u64(&mut rd).map(Obs::U64),
            Op::Fill(n) => {
                let mut b = vec![0xEEu8; *n];
                m.fill_bytes(&mut b, &mut rd).map(|_| Obs::Bytes(b))
            }
            Op::TimerStats(v) => m.timer_stats(*v, &mut rd).map(Obs::I64),
            Op::SetRounds(r) => {
                m.set_rounds(*r);
                Ok(Obs::Unit)
            }
            Op::TestTimer => m.test_timer(&mut rd).map(|v| Obs::Timer(verdict_to_result(v))),
            _ => panic!("op not modelled"),
        };
        match o {
            Ok(o) => steps.push((o, rd.pos)),
            Err(_) => {
                steps.push((Obs::Horizon, readings.len()));
                break;
            }
        }
    }
    Trace { steps, pool: m.pool, half: m.half_pending }
}

/// Compare one execution; on Horizon the pool is not compared (the call did not return).
pub fn compare(ctx: &Ctx, reg: &dyn Registry, prop: &str, readings: &[u64], ops: &[Op], devs: &[(usize, Dev)], stats: &mut Local) {
    compare_pool(ctx, reg, prop, readings, ops, devs, stats, None)
}

#[allow(clippy::too_many_arguments)]
pub fn compare_pool(ctx: &Ctx, reg: &dyn Registry, prop: &str, readings: &[u64], ops: &[Op], devs: &[(usize, Dev)], stats: &mut Local, pool: Option<u64>) {
    let a = run_impl_pool(reg, readings, ops, pool);
    let b = run_model_pool(readings, ops, pool);
    stats.executions += 1;
    stats.transitions += a.steps.len() as u64;
    let horizon = matches!(a.steps.last(), Some((Obs::Horizon, _)));
    if horizon {
        stats.horizon += 1;
    }
    let consumed = a.steps.last().map(|s| s.1).unwrap_or(0);
    if consumed > stats.max_consumed {
        stats.max_consumed = consumed;
    }
    let same = a.steps == b.steps && (horizon || (a.pool == b.pool && a.half == b.half));
    if !same {
        // first differing step
        let i = (0..a.steps.len().max(b.steps.len())).find(|&i| a.steps.get(i) != b.steps.get(i));
        let what = match i {
            Some(i) => format!(
                "op #{} of [{:.160}] with deviations {:?}: implementation returned {} after {} readings, the documented procedure gives {} after {} readings",
                i,
                ops_short(ops),
                devs,
                a.steps.get(i).map(|s| s.0.to_json().to_string()).unwrap_or("-".into()),
                a.steps.get(i).map(|s| s.1).unwrap_or(0),
                b.steps.get(i).map(|s| s.0.to_json().to_string()).unwrap_or("-".into()),
                b.steps.get(i).map(|s| s.1).unwrap_or(0)
            ),
            None => format!("after [{:.160}] with deviations {:?}: pool {:#x}/half {} vs documented {:#x}/{}", ops_short(ops), devs, a.pool, a.half, b.pool, b.half),
        };
        let kind = match i.and_then(|i| a.steps.get(i)) {
            Some((Obs::Panic(_), _)) => "panic",
            _ => "mismatch",
        };
        ctx.violation(
            &format!("{}:jitter:{}:{}", prop, kind, ops.get(i.unwrap_or(0)).map(|o| o.short()).unwrap_or_default()),
            &what,
            json!({"kind":"jitter","ops":ops_json(ops),"readings":readings,"init_pool":pool.map(|p| p.to_string()),"deviations":format!("{:?}",devs),"impl":a.steps.iter().map(|s| json!([s.0.to_json(), s.1])).collect::<Vec<_>>(),"model":b.steps.iter().map(|s| json!([s.0.to_json(), s.1])).collect::<Vec<_>>()}),
        );
    }
    if b.steps.len() == ops.len() && !horizon {
        stats.completed += 1;
    }
}

#[derive(Default, Clone, Debug)]
pub struct Local {
    pub executions: u64,
    pub transitions: u64,
    pub horizon: u64,
    pub completed: u64,
    pub max_consumed: usize,
    pub stuck_executions: u64,
}

pub fn run(reg: &dyn Registry, ctx: &Ctx) -> Outcome {
    let thorough = ctx.tier == Tier::Thorough;
    // (the second, assertion-free build of the harness runs a lighter pass)
    let depth = if std::env::var("VERIF_LIGHT").is_ok() { 2 } else { ctx.tier.pick(3, 4) };
    ctx.assume("reference model of the documented procedure (reading schedule, 32-bit sign-extended delta, LFSR taps, stuck test on wrapping differences, rotate 7, stir) in refmodels::jitter");
    ctx.assume("the stuck test uses wrapping 32-bit differences (what release builds computed before fix 8a4c6ed and all builds compute after it)");
    let alphabet = vec![Op::U32, Op::U64, Op::Fill(0), Op::Fill(1), Op::Fill(4), Op::Fill(5), Op::Fill(8), Op::Fill(9), Op::TimerStats(false), Op::TimerStats(true), Op::SetRounds(1), Op::SetRounds(2), Op::SetRounds(3)];
    let hs = all_histories(&alphabet, depth);
    let base = jitter_env::raw_readings(ctx.seed ^ 0x12, 400);
    ctx.sample(json!({"history": ops_short(&hs[hs.len() / 3]), "deviation_menu": format!("{:?}", DEV_MENU), "base_readings_head": &base[..12]}));

    // every history x initial rounds {1,2} x (no deviation + one deviation at every reading position consumed)
    let jobs: Vec<(u8, &Vec<Op>)> = [1u8, 2].iter().flat_map(|&r| hs.iter().map(move |h| (r, h))).collect();
    let locals: Vec<Local> = jobs
        .par_iter()
        .map(|(r0, h)| {
            let mut st = Local::default();
            let mut ops = vec![Op::SetRounds(*r0)];
            ops.extend(h.iter().cloned());
            // how many readings does the undisturbed run consume?
            let need = run_model(&base, &ops).steps.last().map(|s| s.1).unwrap_or(0);
            let horizon = need + 40;
            let rd = &base[..horizon.min(base.len())];
            compare(ctx, reg, "C12", rd, &ops, &[], &mut st);
            // one deviation: every position x kind (quick: all positions for histories up to depth 2, every 2nd position beyond)
            let stride = if thorough || h.len() <= 2 { 1 } else { 2 };
            for pos in (0..need).step_by(stride) {
                for &k in DEV_MENU.iter() {
                    let devs = [(pos, k)];
                    let r = deviate(rd, &devs);
                    let m = run_model(&r, &ops);
                    let _ = m;
                    compare(ctx, reg, "C12", &r, &ops, &devs, &mut st);
                }
            }
            // two deviations for short histories
            if std::env::var("VERIF_LIGHT").is_err() && h.len() <= if thorough { 3 } else { 2 } {
                for p1 in 0..need {
                    for p2 in p1 + 1..(p1 + 7).min(need + 3) {
                        for &k1 in &[Dev::Repeat3, Dev::SameDelta, Dev::BackOne, Dev::Jump31] {
                            for &k2 in &[Dev::Repeat3, Dev::SameDelta, Dev::SameDeltaSkip, Dev::Arith, Dev::Jump31, Dev::BackFar] {
                                let devs = [(p1, k1), (p2, k2)];
                                let r = deviate(rd, &devs);
                                compare(ctx, reg, "C12", &r, &ops, &devs, &mut st);
                            }
                        }
                    }
                }
            }
            st
        })
        .collect();
    let mut tot = Local::default();
    for l in &locals {
        tot.executions += l.executions;
        tot.transitions += l.transitions;
        tot.horizon += l.horizon;
        tot.completed += l.completed;
        tot.max_consumed = tot.max_consumed.max(l.max_consumed);
    }
    ctx.add("states", jobs.len() as u64);

    // runs of k consecutive deviating measurements (k successive stuck / equal / arithmetic / extreme
    // probe deltas): the retry loop, the stuck-test history and the pool rotation under sustained
    // misbehaviour of the timer. Run lengths: every k up to 10 and every power of two +-1 up to 4097
    // (quick) / 16385 (thorough), i.e. across any retry bound or narrow counter one could add.
    {
        let kinds = [Dev::Repeat3, Dev::SameDelta, Dev::Arith, Dev::SameDeltaSkip, Dev::Jump31, Dev::BackFar, Dev::BackOne];
        let mut lens: Vec<usize> = (1..=10).collect();
        let mut p = 16usize;
        let light = std::env::var("VERIF_LIGHT").is_ok();
        while p <= if thorough { 16384 } else if light { 256 } else { 4096 } {
            lens.extend([p - 1, p, p + 1]);
            p *= 2;
        }
        // 16-bit retry counters
        if !light {
            lens.extend([65535, 65536, 65537]);
        }
        // (rounds, collection index in which the run starts, measurement offset, k, kind a, kind b)
        let mut jobs2: Vec<(u8, usize, usize, usize, Dev, Dev)> = Vec::new();
        for rounds in [1u8, 2, 3] {
            for coll in 0..2usize {
                for start in 0..(rounds as usize + 2) {
                    for &k in &lens {
                        if k <= 10 {
                            for &a in &kinds {
                                for &b in &kinds {
                                    jobs2.push((rounds, coll, start, k, a, b));
                                }
                            }
                        } else if k > 20000 {
                            if rounds == 1 && start == 1 {
                                jobs2.push((rounds, coll, start, k, Dev::Repeat3, Dev::Repeat3));
                            }
                        } else if start <= 1 || start == rounds as usize + 1 {
                            // long runs: the stuck kinds only (a run of extreme jumps is not stuck)
                            for &a in &[Dev::Repeat3, Dev::SameDelta, Dev::Arith] {
                                jobs2.push((rounds, coll, start, k, a, a));
                            }
                        }
                    }
                }
            }
        }
        let maxk = *lens.last().unwrap();
        let long_base = jitter_env::raw_readings(ctx.seed ^ 0x12AA, 4 * jitter_env::readings_per_word(3) + 3 * maxk + 200);
        let locals: Vec<Local> = jobs2
            .par_iter()
            .map(|&(rounds, coll, start, k, a, b)| {
                let mut st = Local::default();
                // a half is pending when the second collection starts: [u32, u64, u32, u32]
                let ops = vec![Op::SetRounds(rounds), Op::U32, Op::U64, Op::U32, Op::U32];
                let per = jitter_env::readings_per_word(rounds);
                // probe readings of collection c sit at c*per + 2, +5, +8, ... ; alternate kinds a, b
                let devs: Vec<(usize, Dev)> = (0..k).map(|j| (coll * per + 2 + 3 * (start + j), if j % 2 == 0 { a } else { b })).collect();
                let rd = deviate(&long_base[..(4 * per + 3 * k + 120).min(long_base.len())], &devs);
                compare(ctx, reg, "C12", &rd, &ops, &[devs[0], (devs.len(), a)], &mut st);
                st
            })
            .collect();
        for l in &locals {
            tot.executions += l.executions;
            tot.transitions += l.transitions;
            tot.horizon += l.horizon;
            tot.completed += l.completed;
        }
        ctx.add("deviation_run_executions", jobs2.len() as u64);
        ctx.set("longest_deviation_run", maxk as u64);
    }

    // rounds 64 (the default) and 255 without deviations, and rounds 3 long run
    for (rounds, words) in [(64u8, 3usize), (255, 2), (3, 40)] {
        let need = jitter_env::readings_per_word(rounds) * words + 64;
        let rd = jitter_env::raw_readings(ctx.seed ^ rounds as u64, need);
        let mut ops = vec![Op::SetRounds(rounds)];
        for _ in 0..words {
            ops.push(Op::U64);
        }
        compare(ctx, reg, "C12", &rd, &ops, &[], &mut tot);
        ctx.add("states", 1);
    }
    // a long life of one object: 2^16 + 8 collections (per-object counters), mixed calls
    {
        let n = if std::env::var("VERIF_LIGHT").is_ok() { (1usize << 10) + 8 } else { (1usize << 16) + 8 };
        let rd = jitter_env::raw_readings(ctx.seed ^ 0x1216, n * jitter_env::readings_per_word(1) + 64);
        let mut ops = vec![Op::SetRounds(1)];
        for i in 0..n {
            if i % 5 == 3 {
                ops.push(Op::U32);
                ops.push(Op::U32);
            } else {
                ops.push(Op::U64);
            }
        }
        compare(ctx, reg, "C12", &rd, &ops, &[], &mut tot);
        ctx.add("states", 1);
    }
    // coarse clocks: every reading a multiple of 100 / 1000 / 2^20, irregular steps
    for (gran, salt) in [(100u64, 1u64), (1000, 2), (1 << 20, 3), (2, 4)] {
        let raw = jitter_env::raw_readings(ctx.seed ^ 0x12C0 ^ salt, 600);
        let rd: Vec<u64> = raw.iter().map(|t| (t / 7) * gran).collect();
        for rounds in [1u8, 2, 3] {
            for h in [vec![Op::U32, Op::U32, Op::U64, Op::Fill(4), Op::U32, Op::U32], vec![Op::U64, Op::U32, Op::Fill(9), Op::U32, Op::TimerStats(true), Op::U32], vec![Op::Fill(3), Op::U32, Op::U32, Op::Fill(12), Op::U32]] {
                let mut ops = vec![Op::SetRounds(rounds)];
                ops.extend(h);
                compare(ctx, reg, "C12", &rd, &ops, &[], &mut tot);
                ctx.add("states", 1);
            }
        }
    }
    // default construction (rounds 64) without set_rounds
    {
        let rd = jitter_env::raw_readings(ctx.seed ^ 0x64, 500);
        compare(ctx, reg, "C12", &rd, &[Op::U64, Op::U32, Op::U32], &[], &mut tot);
        ctx.add("states", 1);
    }

    // test_timer as the first operation, then outputs; deviations over its 1601 readings
    {
        let rd = jitter_env::raw_readings(ctx.seed ^ 0x77, 1601 + 200);
        let ops = vec![Op::TestTimer, Op::SetRounds(2), Op::U64, Op::U32];
        compare(ctx, reg, "C12", &rd, &ops, &[], &mut tot);
        let stride = if thorough { 1 } else { 23 };
        let positions: Vec<usize> = (0..1601).step_by(stride).collect();
        let kinds: Vec<Dev> = DEV_MENU.iter().copied().chain([Dev::Zero]).collect();
        let locals: Vec<Local> = positions
            .par_iter()
            .map(|&pos| {
                let mut st = Local::default();
                for &k in &kinds {
                    let devs = [(pos, k)];
                    let r = deviate(&rd, &devs);
                    compare(ctx, reg, "C12", &r, &ops, &devs, &mut st);
                }
                st
            })
            .collect();
        for l in &locals {
            tot.executions += l.executions;
            tot.transitions += l.transitions;
            tot.horizon += l.horizon;
            tot.completed += l.completed;
        }
        ctx.add("test_timer_executions", positions.len() as u64 * kinds.len() as u64 + 1);
        ctx.add("states", 1);
    }
    // time stamps that return to earlier values: every sequence of up to four probe deltas over
    // {-2b, -b, 0, +b, +2b} (so that stamps coincide with the collection's first stamp, with each other,
    // run backwards and forwards), b small and large, at the start of the first collection
    {
        let mut n = 0u64;
        for b in [7i64, 1 << 20] {
            let alpha = [-2 * b, -b, 0, b, 2 * b];
            for rounds in if std::env::var("VERIF_LIGHT").is_ok() { vec![1u8] } else { vec![1u8, 2, 64] } {
                for code in 0..625usize {
                    let ds: Vec<i64> = (0..4).map(|k| alpha[(code / 5usize.pow(k)) % 5]).collect();
                    // readings: [first stamp] then per measurement [lc][stamp][lc]; after the scripted deltas the
                    // timer continues with irregular increments
                    let tail = jitter_env::raw_readings(ctx.seed ^ 0x12E0 ^ code as u64, 3 * (rounds as usize + 8) + 40);
                    let mut r: Vec<u64> = Vec::new();
                    let mut t: u64 = 5_000_000;
                    r.push(t);
                    for &d in &ds {
                        t = t.wrapping_add(d as u64);
                        r.push(t.wrapping_add(1));
                        r.push(t);
                        r.push(t.wrapping_add(2));
                    }
                    let off = t.wrapping_sub(tail[0]).wrapping_add(1000);
                    r.extend(tail.iter().map(|x| x.wrapping_add(off)));
                    let ops = vec![Op::SetRounds(rounds), Op::U64, Op::U32];
                    compare(ctx, reg, "C12", &r, &ops, &[], &mut tot);
                    n += 1;
                }
            }
        }
        ctx.add("returning_stamp_scripts", n);
        ctx.add("states", n);
    }
    // pool coincidences: start pools (hook) for which a fold leaves the pool unchanged at the first,
    // second or third measurement, for which a whole collection maps the pool onto itself, or for which
    // the second collected word repeats the first - solved on the reference model, which is affine in
    // the pool
    {
        use refmodels::gf2::{BitVec, Mat};
        let solve = |g: &dyn Fn(u64) -> u64| -> Option<u64> {
            let c = g(0);
            let col: Vec<BitVec> = (0..64).map(|i| BitVec { n: 64, w: vec![g(1u64 << i) ^ c] }).collect();
            let m = Mat { rows: 64, cols: 64, col };
            m.solve(&BitVec { n: 64, w: vec![c] }).map(|x| x.w[0])
        };
        let mut n = 0u64;
        for rounds in [1u8, 2, 3] {
            let rd = jitter_env::raw_readings(ctx.seed ^ 0x12F0 ^ rounds as u64, 200);
            let per = jitter_env::readings_per_word(rounds);
            let mut pools: Vec<(String, u64)> = Vec::new();
            // pool after the first k measurements (model), and the fold of the next delta
            for k in 0..3usize.min(rounds as usize + 1) {
                let g = |p: u64| -> u64 {
                    // model: pool before measurement k and after folding it (without the rotation)
                    let mut pool = p;
                    let mut prev = rd[0];
                    let mut out = 0u64;
                    for j in 0..=k {
                        let tstamp = rd[2 + 3 * j];
                        let delta = tstamp.wrapping_sub(prev) as i64 as i32;
                        prev = tstamp;
                        let folded = refmodels::jitter::lfsr(pool, delta as i64 as u64);
                        if j == k {
                            out = folded ^ pool;
                        }
                        pool = folded.rotate_left(7);
                    }
                    out
                };
                if let Some(p) = solve(&g) {
                    pools.push((format!("fold at measurement {} leaves the pool unchanged", k), p));
                }
            }
            {
                let g = |p: u64| -> u64 {
                    let mut m = Model::new();
                    m.pool = p;
                    m.set_rounds(rounds);
                    let mut r = Readings::new(&rd, 0);
                    m.next_u64(&mut r).unwrap_or(0) ^ p
                };
                if let Some(p) = solve(&g) {
                    pools.push(("collection maps the pool onto itself".into(), p));
                }
                let g2 = |p: u64| -> u64 {
                    let mut m = Model::new();
                    m.pool = p;
                    m.set_rounds(rounds);
                    let mut r = Readings::new(&rd, 0);
                    let a = m.next_u64(&mut r).unwrap_or(0);
                    let b = m.next_u64(&mut r).unwrap_or(0);
                    a ^ b
                };
                if let Some(p) = solve(&g2) {
                    pools.push(("second collected word repeats the first".into(), p));
                }
            }
            let _ = per;
            for (_what, p) in pools {
                for ops in [vec![Op::SetRounds(rounds), Op::U64, Op::U64, Op::U32], vec![Op::SetRounds(rounds), Op::U32, Op::U32, Op::U64]] {
                    compare_pool(ctx, reg, "C12", &rd, &ops, &[], &mut tot, Some(p));
                    n += 1;
                }
            }
        }
        ctx.add("pool_coincidence_starts", n);
        ctx.add("states", n);
        if n == 0 {
            ctx.machinery("no pool-coincidence start could be solved on the reference model");
        }
    }
    // test_timer in the middle of a stream (a half pending across it; twice in a row; after set_rounds)
    {
        let rd = jitter_env::raw_readings(ctx.seed ^ 0x78, 2 * 1601 + 400);
        for ops in [
            vec![Op::SetRounds(2), Op::U32, Op::TestTimer, Op::U32, Op::U64],
            vec![Op::SetRounds(1), Op::U64, Op::TestTimer, Op::TestTimer, Op::U32, Op::U32],
            vec![Op::SetRounds(3), Op::U32, Op::TestTimer, Op::Fill(9), Op::TimerStats(true), Op::U32],
            vec![Op::TestTimer, Op::TestTimer, Op::SetRounds(1), Op::U64],
            vec![Op::SetRounds(1), Op::Fill(3), Op::TimerStats(false), Op::TestTimer, Op::U32],
        ] {
            compare(ctx, reg, "C12", &rd, &ops, &[], &mut tot);
            ctx.add("states", 1);
            // one deviation inside / right after the test_timer call(s)
            for pos in (0..rd.len().min(3300)).step_by(if thorough { 7 } else { 101 }) {
                for &k in [Dev::Repeat3, Dev::SameDelta, Dev::Jump31, Dev::ProbePlus32, Dev::BackFar].iter() {
                    let devs = [(pos, k)];
                    let r = deviate(&rd, &devs);
                    compare(ctx, reg, "C12", &r, &ops, &devs, &mut tot);
                }
            }
        }
    }
    ctx.set("executions", tot.executions);
    ctx.set("transitions", tot.transitions);
    ctx.set("executions_did_not_return_within_horizon", tot.horizon);
    ctx.set("executions_completed", tot.completed);
    ctx.set("max_readings_consumed", tot.max_consumed as u64);
    if tot.completed == 0 {
        ctx.machinery("anti-vacuity: no execution completed");
    }
    ctx.set_exhaustive(true);
    Outcome {
        level: "model_checking",
        keys: EvidenceKeys {
            states: "states",
            transitions: "transitions",
            traces: "executions",
            evaluations: "executions",
            distinct: "executions",
            rule: format!("states = every history up to depth {} over {{next_u32,next_u64,fill_bytes(0|1|4|5|8|9),timer_stats(false|true),set_rounds(1|2|3)}} x initial rounds {{1,2}}; executions = each history with 0 deviations, with 1 deviation of each of 13 kinds at every reading position it consumes, and (short histories) 2 deviations; runs of k consecutive deviating probe readings (k = 1..10 for 7x7 kind pairs; k = 2^j-1, 2^j, 2^j+1 up to 4097 (16385) for the three stuck kinds) starting at every measurement of the first and of the second collection (with a half word pending); plus rounds 64/255 runs and test_timer with a deviation at every 23rd (quick) / every (thorough) of its 1601 readings; each execution is compared step by step (value and readings consumed) and in its final pool with the reference model; all executions are distinct by construction", depth),
        },
    }
}
