//! C08 — no seeding path yields the all-zero state; zero seeds are remapped as documented.

use super::common::*;
#[allow(unused_imports)]
use super::Outcome;
use crate::alphabet;
use crate::evidence::{hex, Ctx, EvidenceKeys, Tier};
use crate::ops::guarded;
use crate::subject::{Family, FallibleSource, FaultMode, Gen, GenType, Registry, ScriptSource, SweepJob};
use rayon::prelude::*;
use refmodels::seeding;
use serde_json::json;

/// Is the generator in the all-zero state? Decided on the state image alone (all 15 types are
/// serialisable): neither deserialisation (C11's business) nor the outputs (C01/C04's) are consulted.
fn is_zero_state(_ty: &dyn GenType, g: &dyn Gen) -> bool {
    g.ser().map(|i| !i.is_empty() && i.iter().all(|&b| b == 0)).unwrap_or(false)
}

/// The documented replacement for the all-zero seed.
pub fn documented_zero_replacement(ty: &dyn GenType) -> Box<dyn Gen> {
    let info = ty.info();
    if info.family == Family::XorShift {
        let mut b = Vec::new();
        for _ in 0..4 {
            b.extend_from_slice(&0x0BAD_5EEDu32.to_le_bytes());
        }
        ty.from_seed(&b)
    } else {
        // the generator of from_seed(LE(SplitMix64(0) stream))
        ty.from_seed(&seeding::splitmix_expand(0, info.seed_len))
    }
}

pub fn expansion(ty: &dyn GenType, x: u64) -> Vec<u8> {
    let info = ty.info();
    match info.family {
        Family::Xoshiro => {
            if info.name == "SplitMix64" {
                x.to_le_bytes().to_vec()
            } else {
                seeding::splitmix_expand(x, info.seed_len)
            }
        }
        _ => seeding::pcg32_expand(x, info.seed_len),
    }
}

pub fn run(reg: &dyn Registry, ctx: &Ctx) -> Outcome {
    let thorough = ctx.tier == Tier::Thorough;
    let types: Vec<&'static dyn GenType> = reg.types().into_iter().filter(|t| t.info().linear_bits.is_some()).collect();
    ctx.assume("documented replacement values: xoshiro family = seed_from_u64(0) = from_seed(SplitMix64(0) stream); XorShiftRng = four words 0x0BAD5EED");
    let _: Vec<()> = types
        .par_iter()
        .map(|ty| {
            let info = ty.info();
            let len = info.seed_len;
            let key = |k: &str| format!("C08:{}:{}", info.name, k);
            let rep = |ctor: serde_json::Value| json!({"kind":"ctor","type":info.name,"ctor":ctor});

            // 1. the all-zero seed
            let z = guarded(|| ty.from_seed(&vec![0u8; len]));
            ctx.add("states", 1);
            match z {
                Ok(z) => {
                    let doc = documented_zero_replacement(*ty);
                    if z.eq_dyn(doc.as_ref()) != Some(true) {
                        ctx.violation(&key("zero-seed-replacement"), &format!("{}: from_seed(all zero) is not the documented replacement generator", info.name), rep(json!({"from_seed": hex(&vec![0u8; len])})));
                    }
                    if info.family == Family::Xoshiro {
                        let s0 = ty.seed_from_u64(0);
                        if z.eq_dyn(s0.as_ref()) != Some(true) {
                            ctx.violation(&key("zero-seed-vs-seed_from_u64"), &format!("{}: from_seed(all zero) != seed_from_u64(0)", info.name), rep(json!({"from_seed": hex(&vec![0u8; len])})));
                        }
                    }
                    if is_zero_state(*ty, z.as_ref()) {
                        ctx.violation(&key("zero-state"), &format!("{}: from_seed(all zero) is in the all-zero state", info.name), rep(json!({"from_seed": hex(&vec![0u8; len])})));
                    }
                }
                Err(o) => ctx.violation(&key("panic"), &format!("{}: from_seed(all zero) panicked: {:?}", info.name, o), rep(json!({"from_seed": hex(&vec![0u8; len])}))),
            }

            // 2. every non-zero alphabet seed is used verbatim (=> injective) and is not the zero state
            let mut seeds = seed_alphabet(len, true);
            seeds.extend(documented_constant_seeds(*ty).into_iter().filter(|s| s.iter().any(|&b| b != 0)));
            {
                let mut seen = std::collections::HashSet::new();
                seeds.retain(|s| seen.insert(s.clone()));
            }
            let mut images = std::collections::HashSet::new();
            for s in &seeds {
                ctx.add("states", 1);
                match from_seed_guarded(*ty, s) {
                    Ok(g) => {
                        let img = g.ser().unwrap_or_default();
                        // (the snapshot layout is not this property's business: the comparison is made only where
                        // the image is the plain state, i.e. has the seed's length)
                        if img.len() != s.len() {
                            ctx.add("images_not_plain_state_info", 1);
                            images.insert(img);
                            continue;
                        }
                        if &img != s {
                            ctx.violation(&key("not-verbatim"), &format!("{}: from_seed({}) has state image {} (seed not used verbatim)", info.name, hex(s), hex(&img)), rep(json!({"from_seed": hex(s)})));
                        }
                        if is_zero_state(*ty, g.as_ref()) {
                            ctx.violation(&key("zero-state"), &format!("{}: from_seed({}) is in the all-zero state", info.name, hex(s)), rep(json!({"from_seed": hex(s)})));
                        }
                        images.insert(img);
                    }
                    Err(e) => ctx.violation(&key("panic"), &format!("{}: from_seed({}): {}", info.name, hex(s), e), rep(json!({"from_seed": hex(s)}))),
                }
            }
            ctx.add("distinct_images", images.len() as u64);
            if images.len() != seeds.len() {
                ctx.violation(&key("not-injective"), &format!("{}: {} distinct non-zero seeds gave only {} distinct generators", info.name, seeds.len(), images.len()), json!({"kind":"note"}));
            }

            // a seedless constructor (Default), if the type has one, is a seeding path like any other
            if let Ok(Some(g)) = guarded(|| ty.default_ctor()) {
                ctx.add("states", 1);
                ctx.add("default_constructors", 1);
                if is_zero_state(*ty, g.as_ref()) {
                    ctx.violation(&key("zero-state"), &format!("{}: Default::default() is in the all-zero state", info.name), json!({"kind":"note","ctor":"Default::default()"}));
                }
            }
            // 3. seed_from_u64 on the u64 alphabet and on complete sub-cubes of the argument
            for x in alphabet::u64_alphabet() {
                ctx.add("states", 1);
                match guarded(|| ty.seed_from_u64(x)) {
                    Ok(g) => {
                        // (equality with the documented expansion is C09's statement, not checked here)
                        if is_zero_state(*ty, g.as_ref()) {
                            ctx.violation(&key("zero-state"), &format!("{}: seed_from_u64({:#x}) is in the all-zero state", info.name, x), rep(json!({"seed_from_u64": x})));
                        }
                    }
                    Err(o) => ctx.violation(&key("panic"), &format!("{}: seed_from_u64({:#x}) panicked: {:?}", info.name, x, o), rep(json!({"seed_from_u64": x}))),
                }
            }
            let bitsn = if thorough { 30 } else { 22 };
            for (label, base, shift) in [("low", alphabet::bg_bytes(ctx.seed, 0x0801, 8), 0u32), ("high", alphabet::bg_bytes(ctx.seed, 0x0802, 8), 64 - bitsn)] {
                let mut b = [0u8; 8];
                b.copy_from_slice(&base);
                let r = ty.sweep(&SweepJob::U64Cube { base: u64::from_le_bytes(b), shift, bits: bitsn, check_expansion: false });
                ctx.add("cube_elements", r.elements);
                if let Some(f) = r.failure {
                    let input = r.failing_input.unwrap_or_default();
                    let mut xb = [0u8; 8];
                    xb.copy_from_slice(&input);
                    ctx.violation(&key("seed_from_u64-cube"), &format!("{}: seed_from_u64({:#x}) ({} cube): {}", info.name, u64::from_le_bytes(xb), label, f), rep(json!({"seed_from_u64": u64::from_le_bytes(xb)})));
                }
            }

            // 4. from_rng / try_from_rng over sources that deliver z all-zero blocks first
            let mut blocks: Vec<Vec<u8>> = alphabet::w1(len);
            blocks.push(alphabet::bg_bytes(ctx.seed, 0x0803, len));
            blocks.extend(documented_constant_seeds(*ty).into_iter().filter(|s| s.iter().any(|&b| b != 0)));
            // blocks whose words have a special pattern (a zero word, equal words, words summing / xoring to
            // zero, ...): any "is this block zero" test that looks at less than all the bits
            blocks.extend(crate::linear::special_images(len * 8, info.word_bits, ctx.seed ^ 0x08).into_iter().map(|v| v.to_bytes()));
            let zmax = if thorough { 1 << 18 } else { 65536 };
            for z in alphabet::zero_block_counts(zmax) {
                for blk in blocks.iter().step_by(if z <= 1 { 1 } else if z <= 12 { 16 } else { 61 }) {
                    let mut script = vec![0u8; z * len];
                    script.extend_from_slice(blk);
                    script.extend_from_slice(&alphabet::bg_bytes(ctx.seed, 0x0804, len)); // what follows
                    for fallible in [false, true] {
                        ctx.add("source_scripts", 1);
                        let (g, consumed): (Result<Box<dyn Gen>, String>, usize) = if fallible {
                            let mut src = FallibleSource::new(script.clone(), None, FaultMode::Untouched, 7);
                            let r = guarded(|| ty.try_from_rng(&mut src));
                            (
                                match r {
                                    Ok(Ok(g)) => Ok(g),
                                    Ok(Err(e)) => Err(format!("error {:?} from a source that never fails", e)),
                                    Err(o) => Err(format!("panicked: {:?}", o)),
                                },
                                src.inner.pos,
                            )
                        } else {
                            let mut src = ScriptSource::new(script.clone());
                            let r = guarded(|| ty.from_rng(&mut src));
                            (r.map_err(|o| format!("panicked: {:?}", o)), src.pos)
                        };
                        let which = if fallible { "try_from_rng" } else { "from_rng" };
                        let rp = rep(json!({which: {"zero_blocks": z, "then": hex(blk)}}));
                        let g = match g {
                            Ok(g) => g,
                            Err(e) => {
                                ctx.violation(&key("source-ctor"), &format!("{}: {} with {} leading zero blocks: {}", info.name, which, z, e), rp);
                                continue;
                            }
                        };
                        if is_zero_state(*ty, g.as_ref()) {
                            ctx.violation(&key("zero-state"), &format!("{}: {} with {} leading all-zero blocks returned the all-zero state", info.name, which, z), rp.clone());
                            continue;
                        }
                        // C08 only asks that a zero block is "remapped or redrawn" and that any other block is
                        // used verbatim; how much of the source is consumed is C09's statement
                        let _ = consumed;
                        let verbatim = g.eq_dyn(ty.from_seed(blk).as_ref()) == Some(true);
                        let remapped = g.eq_dyn(documented_zero_replacement(*ty).as_ref()) == Some(true);
                        let ok = if z == 0 { verbatim } else { verbatim || remapped };
                        if !ok {
                            ctx.violation(&key("source-result"), &format!("{}: {} with {} leading all-zero blocks then {} built neither the generator of the first non-zero block (redrawn) nor the documented replacement (remapped)", info.name, which, z, hex(blk)), rp.clone());
                        }
                    }
                }
            }
            if info.name == "Xoroshiro64Star" {
                ctx.sample(json!({"type": info.name, "u64_alphabet_includes": "0 - j*PHI for j=1..8 (SplitMix64 output j is zero)", "zero_blocks_before_seed": format!("{:?}", alphabet::zero_block_counts(zmax))}));
            }
        })
        .collect();
    ctx.set("transitions", ctx.get("states") + ctx.get("cube_elements") + ctx.get("source_scripts"));
    ctx.set("evaluations", ctx.get("transitions"));
    ctx.set_exhaustive(true);
    Outcome {
        level: "model_checking",
        keys: EvidenceKeys {
            states: "evaluations",
            transitions: "transitions",
            traces: "source_scripts",
            evaluations: "evaluations",
            distinct: "distinct_images",
            rule: "every constructor of the 14 linear xoshiro types and XorShiftRng on: the all-zero seed; every non-zero seed of O/W1/W2/WZ/BYTE (state image must equal the seed; distinct = distinct images); the u64 alphabet (incl. the 8 arguments whose SplitMix64 output j is zero) and complete 2^22 (quick) / 2^30 (thorough) sub-cubes of the low and high half of the u64 argument; from_rng and try_from_rng over sources delivering z all-zero blocks (z = 0..12 and 2^j-1, 2^j, 2^j+1 up to 65537 / 262145) followed by single-bit blocks, by the documented replacement constants and by blocks with special word patterns (zero word, equal words, words summing or xoring to zero)".into(),
        },
    }
}
