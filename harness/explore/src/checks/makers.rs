//! Makers: fresh generators in a defined start state.

use crate::evidence::hex;
use crate::histories::Maker;
use crate::jitter_env;
use crate::subject::{Gen, GenType, Registry, TypeInfo};
use serde_json::{json, Value};

pub struct SeedMaker {
    pub ty: &'static dyn GenType,
    pub seed: Vec<u8>,
}

impl Maker for SeedMaker {
    fn make(&self) -> Box<dyn Gen> {
        self.ty.from_seed(&self.seed)
    }
    fn info(&self) -> &TypeInfo {
        self.ty.info()
    }
    fn describe(&self) -> Value {
        json!({"from_seed": hex(&self.seed)})
    }
}

pub struct JitterMaker<'a> {
    pub reg: &'a dyn Registry,
    pub readings: Vec<u64>,
    pub rounds: u8,
    /// pool written through the hook right after construction (value-directed start states)
    pub init_pool: Option<u64>,
}

impl<'a> Maker for JitterMaker<'a> {
    fn make(&self) -> Box<dyn Gen> {
        let mut g = jitter_env::jitter_with(self.reg, self.readings.clone(), Some(self.rounds)).0;
        if let Some(p) = self.init_pool {
            g.jitter().unwrap().set_pool(p);
        }
        g
    }
    fn info(&self) -> &TypeInfo {
        self.reg.jitter_info()
    }
    fn describe(&self) -> Value {
        json!({"jitter": {"rounds": self.rounds, "init_pool": self.init_pool.map(|p| format!("{:#x}", p)), "readings_head": self.readings.iter().take(24).collect::<Vec<_>>(), "readings_len": self.readings.len(), "stream": "benign default (see jitter_env::benign_readings)"}})
    }
}

/// The three standard seeds for a type: structured ramp, dense, all-zero.
pub fn standard_seeds(ty: &dyn GenType, verif_seed: u64) -> Vec<Vec<u8>> {
    let len = ty.info().seed_len;
    vec![(0..len).map(|i| (i + 1) as u8).collect(), crate::alphabet::bg_bytes(verif_seed, 0x5EED5 + len as u64, len), vec![0u8; len]]
}

/// A generator that has already produced `skip_bytes` bytes (deep stream positions: many blocks in).
pub struct DeepMaker {
    pub ty: &'static dyn GenType,
    pub seed: Vec<u8>,
    pub skip_bytes: usize,
}

impl Maker for DeepMaker {
    fn make(&self) -> Box<dyn Gen> {
        let mut g = self.ty.from_seed(&self.seed);
        let mut buf = vec![0u8; 1 << 16];
        let mut left = self.skip_bytes;
        while left > 0 {
            let n = left.min(buf.len());
            g.fill_bytes(&mut buf[..n]);
            left -= n;
        }
        g
    }
    fn info(&self) -> &TypeInfo {
        self.ty.info()
    }
    fn describe(&self) -> Value {
        json!({"from_seed": hex(&self.seed), "then_skip_bytes": self.skip_bytes})
    }
}

/// A generator positioned `skip_words` native calls into the stream of `seed` (used to start right
/// before a rare event found on the reference model).
pub struct SkipMaker {
    pub ty: &'static dyn GenType,
    pub seed: Vec<u8>,
    pub skip_words: u64,
}

impl Maker for SkipMaker {
    fn make(&self) -> Box<dyn Gen> {
        let mut g = self.ty.from_seed(&self.seed);
        let w32 = self.ty.info().word_bits == 32;
        for _ in 0..self.skip_words {
            if w32 {
                g.next_u32();
            } else {
                g.next_u64();
            }
        }
        g
    }
    fn info(&self) -> &TypeInfo {
        self.ty.info()
    }
    fn describe(&self) -> Value {
        json!({"from_seed": hex(&self.seed), "then_native_calls": self.skip_words})
    }
}

/// (type name, events) for the three array-based generators
pub fn rare_events(reg: &dyn Registry, vseed: u64, thorough: bool) -> Vec<(&'static dyn GenType, Vec<crate::rare::Event>)> {
    let mut out = Vec::new();
    for (name, kind) in [("Hc128Rng", crate::rare::Kind::Hc128), ("IsaacRng", crate::rare::Kind::Isaac), ("Isaac64Rng", crate::rare::Kind::Isaac64)] {
        if let Some(ty) = reg.get(name) {
            out.push((ty, crate::rare::events_for(kind, vseed, thorough).0));
        }
    }
    out
}
