//! C04 — XorShiftRng equals Marsaglia's xor128 for every non-zero seed.

use super::c01::{lockstep_model, ref_matrix, RefModel};
use super::common::*;
use super::lin;
use super::Outcome;
use crate::alphabet;
use crate::evidence::{hex, Ctx, EvidenceKeys, Tier};
use crate::linear::LinOp;
use crate::subject::{Registry, SweepJob};
use rayon::prelude::*;
use serde_json::json;

pub fn run(reg: &dyn Registry, ctx: &Ctx) -> Outcome {
    let ty = reg.get("XorShiftRng").expect("XorShiftRng");
    let thorough = ctx.tier == Tier::Thorough;
    let len = 16;
    ctx.assume("xor128 reference transcribed from Marsaglia (2003) p.5 and validated against the paper's default-seed outputs");

    // decode + lock-step on the alphabets and dense chains
    let mut seeds = seed_alphabet(len, true);
    seeds.extend(chain_seeds(ty, ctx.seed, if thorough { 65536 } else { 4096 }));
    sample_seed(ctx, "lockstep", "XorShiftRng", &seeds[300]);
    let res: Vec<_> = seeds.par_iter().map(|s| lockstep_model(ty, RefModel::Xor128, s, 10)).collect();
    ctx.add("seeds_lockstep", seeds.len() as u64);
    for r in res {
        match r {
            Ok(n) => ctx.add("steps_compared", n),
            Err((what, replay)) => ctx.violation("C04:lockstep", &format!("XorShiftRng: {}", what), replay),
        }
    }
    // long chains
    let l = if thorough { 1 << 29 } else { 1 << 20 };
    let bases: Vec<Vec<u8>> = (0..8).map(|b| alphabet::bg_bytes(ctx.seed, 0x40B0 + b, len)).collect();
    let res: Vec<_> = bases.par_iter().map(|s| lockstep_model(ty, RefModel::Xor128, s, l)).collect();
    for r in res {
        match r {
            Ok(n) => ctx.add("steps_compared", n),
            Err((what, replay)) => ctx.violation("C04:chain", &format!("XorShiftRng: {}", what), replay),
        }
    }

    // value-directed deep states: T_ref^k s has a special word pattern for k = 2^8-1, 2^8, 2^16-1, 2^16
    {
        let tref = ref_matrix(RefModel::Xor128);
        let mut starts: Vec<(usize, Vec<u8>)> = Vec::new();
        for k in [255usize, 256, 65535, 65536] {
            let tk = tref.pow_big(&refmodels::gf2::BigU::from_u64(k as u64));
            for t in crate::linear::special_images(128, 32, ctx.seed ^ k as u64) {
                if let Some(s0) = tk.solve(&t) {
                    if !s0.is_zero() {
                        starts.push((k, s0.to_bytes()));
                    }
                }
            }
        }
        let res: Vec<_> = starts.par_iter().map(|(k, s0)| lockstep_model(ty, RefModel::Xor128, s0, k + 6)).collect();
        ctx.add("value_directed_deep_starts", starts.len() as u64);
        for r in res {
            match r {
                Ok(n) => ctx.add("steps_compared", n),
                Err((what, replay)) => ctx.violation("C04:deep-special", &format!("XorShiftRng: {}", what), replay),
            }
        }
    }

    // the linear model: extracted matrix == reference matrix; conformance incl. all weight-3 states
    match lin::extract_and_bind(ty, LinOp::Step, ctx, true, if thorough { 65536 } else { 8192 }) {
        Ok(b) => {
            let tref = ref_matrix(RefModel::Xor128);
            if !b.ex.c.is_zero() {
                ctx.violation("C04:engine-constant", "XorShiftRng: a step from the all-zero state does not stay zero", json!({"kind":"note"}));
            }
            if b.ex.mat != tref {
                let i = (0..128).find(|&i| b.ex.mat.col[i] != tref.col[i]).unwrap();
                let st = alphabet::with_bits(len, &[i]);
                ctx.violation("C04:engine-matrix", &format!("XorShiftRng: transition matrix extracted from the code differs from xor128 (basis state bit {})", i), json!({"kind":"lockstep","type":"XorShiftRng","seed":hex(&st),"steps":1}));
            }
            ctx.add("model_facts_decided", 1);
            let teeth = lin::perturbation_teeth(ty, &b.ex);
            ctx.set("perturbed_matrix_disagreements", teeth);
            if teeth == 0 {
                ctx.machinery("conformance replay did not notice a perturbed matrix");
            }
            for m in b.mismatches.iter().take(4) {
                if let Err((what, replay)) = lockstep_model(ty, RefModel::Xor128, &m.state.to_bytes(), 1) {
                    ctx.violation("C04:nonlinear-step", &format!("XorShiftRng: {}", what), replay);
                }
            }
        }
        Err(e) => ctx.machinery(&format!("XorShiftRng: cannot extract the step matrix (undecided): {}", e)),
    }

    // complete sub-cubes of each state word
    let bitsn = if thorough { 32 } else { 24 };
    for w in 0..4 {
        let job = SweepJob::StepCube { background: alphabet::bg_bytes(ctx.seed, 0x4C0B + w as u64, len), lanes: vec![(w * 32 + (32 - bitsn), bitsn)], use_u32: true, check_state: true };
        let r = ty.sweep(&job);
        ctx.add("cube_elements", r.elements);
        if let Some(f) = r.failure {
            let input = r.failing_input.unwrap_or_default();
            ctx.violation("C04:cube", &format!("XorShiftRng: {}: {}", hex(&input), f), json!({"kind":"lockstep","type":"XorShiftRng","seed":hex(&input),"steps":1}));
        }
    }
    let states = ctx.get("seeds_lockstep") + 8 + ctx.get("cube_elements");
    ctx.set("states", states);
    ctx.set("transitions", ctx.get("steps_compared") + ctx.get("cube_elements"));
    ctx.set_exhaustive(true);
    Outcome {
        level: "model_checking",
        keys: EvidenceKeys {
            states: "states",
            transitions: "transitions",
            traces: "conformance_replays",
            evaluations: "states",
            distinct: "states",
            rule: "non-zero seeds of O/W1/W2/WZ/BYTE + dense chained seeds + complete sub-cubes of each state word, each stepped in lock-step with xor128; all are distinct by construction; the extracted 128x128 matrix equals the reference matrix and is replayed on all states of weight <= 3".into(),
        },
    }
}
