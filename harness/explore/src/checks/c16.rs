//! C16 — JitterRng hands out every collected 64-bit value at most once, clones included.

use super::Outcome;
use crate::evidence::{Ctx, EvidenceKeys, Tier};
use crate::jitter_env;
use crate::ops::{apply, Obs, Op};
use crate::subject::{Gen, Registry, TimerScript};
use rayon::prelude::*;
use serde_json::{json, Value};

/// History alphabet: output calls, and clone operations.
#[derive(Clone, Debug, PartialEq, Eq)]
pub enum Step {
    Out(Op),
    /// clone; take one output from the clone (checked); drop the clone; continue on the original
    CloneProbe(Op),
    /// clone; continue on the clone
    CloneSwitch,
    /// Clone::clone_from into another generator (fresh, or with a half of its own pending); continue
    /// on that generator, which is now a clone
    CloneFromSwitch { target_half: bool },
    /// set_rounds(r) in the middle of the stream (not an output call: a pending half stays pending)
    SetRounds(u8),
    /// an output call whose timer fails (panics) at the k-th reading of the call; the panic is caught and
    /// the generator is used again. No value was returned, so nothing can be pending afterwards.
    Abort(Op, usize),
}

impl Step {
    fn short(&self) -> String {
        match self {
            Step::Out(o) => o.short(),
            Step::CloneProbe(o) => format!("clone>{}", o.short()),
            Step::CloneSwitch => "clone!".into(),
            Step::CloneFromSwitch { target_half } => format!("clone_from({})!", if *target_half { "half pending" } else { "fresh" }),
            Step::SetRounds(r) => format!("rounds{}", r),
            Step::Abort(o, k) => format!("abort:{}:{}", o.short(), k),
        }
    }
}

impl Step {
    fn parse(t: &str) -> Option<Step> {
        if t == "clone!" {
            return Some(Step::CloneSwitch);
        }
        if t == "clone_from(half pending)!" {
            return Some(Step::CloneFromSwitch { target_half: true });
        }
        if t == "clone_from(fresh)!" {
            return Some(Step::CloneFromSwitch { target_half: false });
        }
        if let Some(o) = t.strip_prefix("clone>") {
            return Op::from_short(o).map(Step::CloneProbe);
        }
        if let Some(r) = t.strip_prefix("rounds") {
            return r.parse().ok().map(Step::SetRounds);
        }
        if let Some(rest) = t.strip_prefix("abort:") {
            let (o, k) = rest.rsplit_once(':')?;
            return Some(Step::Abort(Op::from_short(o)?, k.parse().ok()?));
        }
        Op::from_short(t).map(Step::Out)
    }
}

/// Replay one recorded history: {"kind":"jitter-c16","rounds":r,"init_pool":"0x.."|null,"steps":[..],"readings":[..]}
pub fn replay(reg: &dyn Registry, r: &Value) -> i32 {
    let readings: Vec<u64> = r["readings"].as_array().map(|a| a.iter().filter_map(|x| x.as_u64()).collect()).unwrap_or_default();
    let rounds = r["rounds"].as_u64().unwrap_or(1) as u8;
    let init_pool = r["init_pool"].as_str().and_then(|s| u64::from_str_radix(s.trim_start_matches("0x"), 16).ok());
    let steps: Option<Vec<Step>> = r["steps"].as_array().map(|a| a.iter().map(|x| x.as_str().and_then(Step::parse)).collect()).unwrap_or(None);
    let (Some(steps), false) = (steps, readings.is_empty()) else {
        println!("record does not carry the full readings / steps; rerun the check");
        return 0;
    };
    let (native, cost) = native_twin(reg, &readings, rounds, init_pool, 0, steps.len() * 2 + 2);
    let ctx = Ctx::new("C16", Tier::Quick, 0);
    let ex = Exec { ctx: &ctx, init_pool, rounds, per_word: jitter_env::readings_per_word(rounds), native: &native, cost: &cost, readings: &readings };
    let mut c = Counters::default();
    ex.run(reg, &steps, &mut c);
    let v = ctx.violations_list();
    for (k, w) in &v {
        println!("  {} :: {}", k, w);
    }
    if v.is_empty() {
        println!("replay shows no disagreement");
        0
    } else {
        println!("replay reproduces the violation");
        1
    }
}

fn steps_short(s: &[Step]) -> String {
    s.iter().map(|x| x.short()).collect::<Vec<_>>().join(",")
}

#[derive(Clone, Copy, Debug)]
struct Book {
    /// collections made so far (index of the next native word)
    k: usize,
    /// a high half is pending, of native word k-1
    half: bool,
}

/// What C16 states for one output call in bookkeeping state `b`: (expected observation, new
/// bookkeeping, fresh collections performed).
fn expect(native: &[u64], b: Book, op: &Op) -> (Obs, Book, usize) {
    match op {
        Op::U32 => {
            if b.half {
                (Obs::U32((native[b.k - 1] >> 32) as u32), Book { k: b.k, half: false }, 0)
            } else {
                (Obs::U32(native[b.k] as u32), Book { k: b.k + 1, half: true }, 1)
            }
        }
        Op::U64 => (Obs::U64(native[b.k]), Book { k: b.k + 1, half: false }, 1),
        Op::Fill(n) => {
            // "any other output call (next_u64, fill_bytes, ...) discards a pending half and starts a
            // fresh collection": n bytes = the little-endian bytes of ceil(n/8) fresh values, the last
            // truncated; a 1..4-byte tail leaves the upper half of its value pending (documented
            // idiom: the tail is drawn with next_u32).
            let n = *n;
            if n == 0 {
                return (Obs::Bytes(vec![]), b, 0);
            }
            let words = (n + 7) / 8;
            let mut bytes = Vec::new();
            for i in 0..words {
                bytes.extend_from_slice(&native[b.k + i].to_le_bytes());
            }
            bytes.truncate(n);
            let tail = n % 8;
            (Obs::Bytes(bytes), Book { k: b.k + words, half: tail >= 1 && tail <= 4 }, words)
        }
        _ => unreachable!(),
    }
}

struct Exec<'a> {
    ctx: &'a Ctx,
    /// pool written through the hook before the first operation (value-directed start states)
    init_pool: Option<u64>,
    rounds: u8,
    per_word: usize,
    native: &'a [u64],
    /// timer readings consumed by each collection of the native twin
    cost: &'a [usize],
    readings: &'a [u64],
}

/// native-width twin: n collections from `pos` of the readings with the given pool; (values, readings consumed by each)
fn native_twin(reg: &dyn Registry, readings: &[u64], rounds: u8, pool: Option<u64>, pos: usize, n: usize) -> (Vec<u64>, Vec<usize>) {
    let sc = TimerScript::new(readings.to_vec());
    sc.pos.store(pos, std::sync::atomic::Ordering::Relaxed);
    let mut tw = reg.jitter(sc);
    tw.jitter().unwrap().set_rounds(rounds);
    if let Some(p) = pool {
        tw.jitter().unwrap().set_pool(p);
    }
    let mut v = Vec::new();
    let mut c = Vec::new();
    for _ in 0..n {
        let before = tw.jitter().unwrap().timer_consumed();
        match crate::ops::guarded(|| tw.next_u64()) {
            Ok(x) => {
                v.push(x);
                c.push(tw.jitter().unwrap().timer_consumed() - before);
            }
            Err(_) => break,
        }
    }
    (v, c)
}

impl<'a> Exec<'a> {
    fn replay_json(&self, hist: &[Step]) -> Value {
        json!({"kind":"jitter-c16","rounds":self.rounds,"init_pool":self.init_pool.map(|p| format!("{:#x}", p)),"steps":hist.iter().map(|s| s.short()).collect::<Vec<_>>(),"readings":self.readings})
    }

    /// one output call on `g`, checked against the statement
    #[allow(clippy::too_many_arguments)]
    fn check_out(&self, native: &[u64], cost: &[usize], rounds_cur: u8, g: &mut Box<dyn Gen>, b: &mut Book, op: &Op, hist: &[Step], on_clone: bool, counters: &mut Counters) -> bool {
        let before = g.jitter().unwrap().timer_consumed();
        let had_half = b.half;
        let obs = apply(g, op);
        let used = g.jitter().unwrap().timer_consumed() - before;
        let (e, nb, fresh) = expect(native, *b, op);
        counters.transitions += 1;
        if had_half {
            counters.with_half_pending += 1;
        }
        let who = if on_clone { "clone" } else { "generator" };
        let tail = if let Op::Fill(n) = op { n % 8 } else { 0 };
        let tail_corner = had_half && matches!(op, Op::Fill(n) if *n >= 1 && *n <= 4);
        if tail_corner && used == 0 {
            // the recorded corner: the call handed out the pending half without collecting (whatever the
            // values happen to be - with value-directed starts the pending half can equal the fresh word)
            if let (Obs::Bytes(got), Op::Fill(n)) = (&obs, op) {
                let hi = ((native[b.k - 1] >> 32) as u32).to_le_bytes();
                if got[..] == hi[..*n] {
                    counters.known_corner += 1;
                    self.ctx.violation(
                        &format!("C16:fill-tail-reuses-pending-half:n={}", tail),
                        &format!("rounds {}: after [{}], {} on the {} returned the pending upper half {} reading the timer 0 times; the statement requires a fresh collection", self.rounds, steps_short(hist), op.short(), who, obs.to_json()),
                        self.replay_json(hist),
                    );
                    b.half = false;
                    return true;
                }
            }
        }
        if matches!(obs, Obs::Horizon) && !matches!(e, Obs::Horizon) {
            // the call ran past the end of the scripted readings: it read the timer more often than the
            // native twin's cost leaves room for. How many readings a collection needs is C12's matter;
            // this path cannot be decided here and is reported as undecided, never as a verdict.
            if counters.horizon_paths == 0 {
                self.ctx.machinery(&format!("rounds {}: after [{}], {} on the {} did not return within the scripted readings ({} read); path undecided", self.rounds, steps_short(hist), op.short(), who, used));
            }
            counters.horizon_paths += 1;
            return false;
        }
        if obs != e {
            // classify: did the call hand out the pending half instead of collecting?
            let key = if tail_corner && used == 0 {
                counters.known_corner += 1;
                format!("C16:fill-tail-reuses-pending-half:n={}", tail)
            } else if on_clone {
                "C16:clone-output".to_string()
            } else {
                format!("C16:value:{}", op.short())
            };
            self.ctx.violation(
                &key,
                &format!("rounds {}: after [{}], {} on the {} returned {} reading the timer {} times; the statement requires {} ({} fresh collection(s))", self.rounds, steps_short(hist), op.short(), who, obs.to_json(), used, e.to_json(), fresh),
                self.replay_json(hist),
            );
            if tail_corner && used == 0 {
                // keep exploring past the recorded corner: the pending half has been handed out
                if let (Obs::Bytes(got), Op::Fill(n)) = (&obs, op) {
                    let hi = ((native[b.k - 1] >> 32) as u32).to_le_bytes();
                    if got[..] == hi[..*n] {
                        b.half = false;
                        return true;
                    }
                }
            }
            return false;
        }
        // timer readings: a fresh collection reads the timer at least `rounds` times (exactly
        // 1+3*(rounds+1) on this non-stuck script); handing out a pending half reads it 0 times
        let want: usize = cost[b.k..(b.k + fresh).min(cost.len())].iter().sum();
        if used != want || (fresh > 0 && used < fresh * rounds_cur as usize) {
            self.ctx.violation(
                &format!("C16:readings:{}", op.short()),
                &format!("rounds {}: after [{}], {} on the {} read the timer {} times instead of {} ({} fresh collection(s), each of at least {} measurements)", self.rounds, steps_short(hist), op.short(), who, used, want, fresh, rounds_cur),
                self.replay_json(hist),
            );
            return false;
        }
        if had_half && fresh > 0 {
            counters.pending_half_discarded += 1;
        }
        *b = nb;
        true
    }

    /// The values a clone must return are those of a native-width twin of *the clone*: a fresh generator
    /// given the clone's pool (hook), rounds and timer position. (That the clone's pool is a copy of the
    /// original's is not part of this property.)
    fn rebase(&self, reg: &dyn Registry, c: &mut Box<dyn Gen>, k: usize, rounds: u8, native: &mut Vec<u64>, cost: &mut Vec<usize>) {
        let (pos, pool) = {
            let j = c.jitter().unwrap();
            (j.timer_consumed(), j.pool())
        };
        let (v, cs) = native_twin(reg, self.readings, rounds, Some(pool), pos, native.len().saturating_sub(k));
        for (i, (x, y)) in v.into_iter().zip(cs).enumerate() {
            native[k + i] = x;
            cost[k + i] = y;
        }
    }

    fn run(&self, reg: &dyn Registry, hist: &[Step], counters: &mut Counters) {
        let mut native: Vec<u64> = self.native.to_vec();
        let mut cost: Vec<usize> = self.cost.to_vec();
        let script = TimerScript::new(self.readings.to_vec());
        let mut g = reg.jitter_forking(script.clone());
        g.jitter().unwrap().set_rounds(self.rounds);
        if let Some(p) = self.init_pool {
            g.jitter().unwrap().set_pool(p);
        }
        let mut rounds_cur = self.rounds;
        // the timer script `g` reads from, as long as it is known (not after a switch to a clone)
        let mut cur_script: Option<std::sync::Arc<TimerScript>> = Some(script);
        let mut b = Book { k: 0, half: false };
        counters.executions += 1;
        for (i, st) in hist.iter().enumerate() {
            let h = &hist[..=i];
            match st {
                Step::Out(op) => {
                    if !self.check_out(&native, &cost, rounds_cur, &mut g, &mut b, op, h, false, counters) {
                        return;
                    }
                }
                Step::CloneProbe(op) => {
                    let mut c = g.clone_box();
                    if b.half {
                        counters.clones_with_half_pending += 1;
                    }
                    // the clone: same pool, same timer position, never the original's pending half
                    let mut cb = Book { k: b.k, half: false };
                    let mut cn = native.clone();
                    let mut cc = cost.clone();
                    self.rebase(reg, &mut c, b.k, rounds_cur, &mut cn, &mut cc);
                    if !self.check_out(&cn, &cc, rounds_cur, &mut c, &mut cb, op, h, true, counters) {
                        return;
                    }
                    // and the original is not disturbed: checked by the steps that follow
                }
                Step::SetRounds(r) => {
                    g.jitter().unwrap().set_rounds(*r);
                    rounds_cur = *r;
                    self.rebase(reg, &mut g, b.k, rounds_cur, &mut native, &mut cost);
                }
                Step::Abort(op, k) => {
                    let Some(sc) = cur_script.as_ref() else { return };
                    let reuses_half = b.half && (*op == Op::U32 || matches!(op, Op::Fill(n) if *n >= 1 && *n <= 4));
                    if reuses_half || matches!(op, Op::Fill(0)) {
                        // hands out the pending half (incl. the recorded fill_bytes(1..=4) corner) without reading
                        // the timer: nothing to abort
                        if !self.check_out(&native, &cost, rounds_cur, &mut g, &mut b, op, h, false, counters) {
                            return;
                        }
                        continue;
                    }
                    // never beyond the readings of the call's first collection (rounds may have changed)
                    let kk = (*k).min(cost.get(b.k).copied().unwrap_or(1).saturating_sub(1));
                    let at = sc.consumed() + kk;
                    sc.hook_at(at, Box::new(|| panic!("timer failed")));
                    let obs = apply(&mut g, op);
                    counters.aborted_calls += 1;
                    if !obs.is_panic() {
                        // (a harness matter, not a verdict: the call read the timer fewer times than its twin)
                        self.ctx.add("aborts_not_reached_info", 1);
                        let _ = k;
                        return;
                    }
                    // no value was returned: nothing is pending, the next output call collects afresh from
                    // whatever the pool now holds
                    b.half = false;
                    self.rebase(reg, &mut g, b.k, rounds_cur, &mut native, &mut cost);
                }
                Step::CloneSwitch => {
                    cur_script = None;
                    if b.half {
                        counters.clones_with_half_pending += 1;
                    }
                    g = g.clone_box();
                    b.half = false;
                    self.rebase(reg, &mut g, b.k, rounds_cur, &mut native, &mut cost);
                }
                Step::CloneFromSwitch { target_half } => {
                    cur_script = None;
                    if b.half {
                        counters.clones_with_half_pending += 1;
                    }
                    // the target lives on a timer of its own until it is overwritten
                    let mut t = reg.jitter_forking(TimerScript::new(self.readings.to_vec()));
                    t.jitter().unwrap().set_rounds(rounds_cur);
                    if *target_half {
                        t.next_u32();
                        counters.clone_from_into_half_pending += 1;
                    }
                    t.clone_from_dyn(g.as_ref());
                    g = t;
                    b.half = false;
                    self.rebase(reg, &mut g, b.k, rounds_cur, &mut native, &mut cost);
                }
            }
        }
    }
}

#[derive(Default, Clone, Debug)]
struct Counters {
    executions: u64,
    transitions: u64,
    with_half_pending: u64,
    pending_half_discarded: u64,
    clones_with_half_pending: u64,
    clone_from_into_half_pending: u64,
    aborted_calls: u64,
    known_corner: u64,
    horizon_paths: u64,
}

pub fn run(reg: &dyn Registry, ctx: &Ctx) -> Outcome {
    let thorough = ctx.tier == Tier::Thorough;
    ctx.assume("scripted timers; a clone gets an identical scripted timer (independent cursor at the same position); the values a clone must return are those of a native-width twin built from the clone's own pool (hook), rounds and timer position");
    ctx.assume("expected values are those of a native-width (next_u64 only) twin on the same readings; reading counts are measured on each generator's own cursor");
    let mut outs: Vec<Op> = vec![Op::U32, Op::U64];
    outs.extend([0usize, 1, 2, 3, 4, 5, 6, 7, 8, 9, 12, 16].iter().map(|&n| Op::Fill(n)));
    let mut alphabet: Vec<Step> = outs.iter().cloned().map(Step::Out).collect();
    alphabet.push(Step::CloneSwitch);
    alphabet.push(Step::CloneFromSwitch { target_half: false });
    alphabet.push(Step::CloneFromSwitch { target_half: true });
    alphabet.push(Step::SetRounds(1));
    alphabet.push(Step::SetRounds(3));
    for op in [Op::U32, Op::U64, Op::Fill(3), Op::Fill(8)] {
        alphabet.push(Step::CloneProbe(op));
    }
    let mut total = Counters::default();
    let configs: Vec<(u8, usize)> = if thorough { vec![(1, 5), (2, 4), (3, 4), (64, 3), (255, 2)] } else { vec![(1, 4), (2, 3), (3, 3), (64, 2), (255, 2)] };
    for (rounds, depth) in configs {
        let max_words = depth * 2 + 2;
        let readings = jitter_env::benign_readings(ctx.seed ^ 0x16 ^ ((rounds as u64) << 16), rounds, max_words, 8 + max_words * (jitter_env::readings_per_word(3).saturating_sub(jitter_env::readings_per_word(rounds)) + 4));
        // native twin: next_u64 only
        let (native, cost) = native_twin(reg, &readings, rounds, None, 0, max_words);
        let ex = Exec { ctx, init_pool: None, rounds, per_word: jitter_env::readings_per_word(rounds), native: &native, cost: &cost, readings: &readings };
        // all histories of exactly `depth` steps (every prefix is checked along the way)
        let n = alphabet.len();
        let count = n.pow(depth as u32);
        let cs: Vec<Counters> = (0..count)
            .into_par_iter()
            .map(|mut idx| {
                let mut hist = Vec::with_capacity(depth);
                for _ in 0..depth {
                    hist.push(alphabet[idx % n].clone());
                    idx /= n;
                }
                let mut c = Counters::default();
                ex.run(reg, &hist, &mut c);
                c
            })
            .collect();
        for c in cs {
            total.executions += c.executions;
            total.transitions += c.transitions;
            total.with_half_pending += c.with_half_pending;
            total.pending_half_discarded += c.pending_half_discarded;
            total.clones_with_half_pending += c.clones_with_half_pending;
            total.clone_from_into_half_pending += c.clone_from_into_half_pending;
            total.known_corner += c.known_corner;
        }
        ctx.add("states", count as u64);
        if rounds == 2 {
            ctx.sample(json!({"rounds": rounds, "depth": depth, "alphabet": alphabet.iter().map(|s| s.short()).collect::<Vec<_>>(), "readings_per_collection": ex.per_word}));
        }
    }

    // value-directed start states: pools (hook + linear solve) for which the first collected value is
    // special - zero, a zero upper/lower half, all ones, a single bit
    for rounds in [1u8, 3] {
        let depth = 3;
        let max_words = depth * 2 + 2;
        let readings = jitter_env::benign_readings(ctx.seed ^ 0x16CC ^ ((rounds as u64) << 16), rounds, max_words, 8 + max_words * (jitter_env::readings_per_word(3).saturating_sub(jitter_env::readings_per_word(rounds)) + 4));
        let mut pools: Vec<u64> = jitter_env::SPECIAL_WORDS.iter().filter_map(|&t| jitter_env::solve_pool_for_first_output(reg, &readings, rounds, t)).collect();
        for (_, eqs) in jitter_env::two_word_relations() {
            if let Some(p) = jitter_env::solve_pool_for_relation(reg, &readings, rounds, &eqs) {
                pools.push(p);
                ctx.add("two_word_relation_starts", 1);
            }
        }
        for p in pools {
            let (native, cost) = native_twin(reg, &readings, rounds, Some(p), 0, max_words);
            let ex = Exec { ctx, init_pool: Some(p), rounds, per_word: jitter_env::readings_per_word(rounds), native: &native, cost: &cost, readings: &readings };
            let n = alphabet.len();
            let count = n.pow(depth as u32);
            let cs: Vec<Counters> = (0..count)
                .into_par_iter()
                .map(|mut idx| {
                    let mut hist = Vec::with_capacity(depth);
                    for _ in 0..depth {
                        hist.push(alphabet[idx % n].clone());
                        idx /= n;
                    }
                    let mut c = Counters::default();
                    ex.run(reg, &hist, &mut c);
                    c
                })
                .collect();
            for c in cs {
                total.executions += c.executions;
                total.transitions += c.transitions;
                total.with_half_pending += c.with_half_pending;
                total.pending_half_discarded += c.pending_half_discarded;
                total.clones_with_half_pending += c.clones_with_half_pending;
                total.clone_from_into_half_pending += c.clone_from_into_half_pending;
                total.known_corner += c.known_corner;
            }
            ctx.add("states", count as u64);
            ctx.add("value_directed_starts", 1);
        }
    }

    // output calls whose timer fails part-way (the panic is caught, the generator is used again): nothing
    // was returned, so the next output call must collect afresh - whatever call was aborted, whatever was
    // pending before it
    {
        let depth = 3usize;
        let max_words = depth * 2 + 2;
        for rounds in [1u8, 2, 3] {
            let per = jitter_env::readings_per_word(rounds);
            let mut alpha3: Vec<Step> = [Op::U32, Op::U64, Op::Fill(3), Op::Fill(9)].iter().cloned().map(Step::Out).collect();
            for op in [Op::U32, Op::U64, Op::Fill(3), Op::Fill(9)] {
                for k in [0usize, 4, per - 1] {
                    alpha3.push(Step::Abort(op.clone(), k));
                }
            }
            alpha3.push(Step::SetRounds(if rounds == 1 { 2 } else { 1 }));
            let readings = jitter_env::benign_readings(ctx.seed ^ 0x16AB ^ ((rounds as u64) << 16), 3, max_words + 4, 8);
            let (native, cost) = native_twin(reg, &readings, rounds, None, 0, max_words);
            let ex = Exec { ctx, init_pool: None, rounds, per_word: per, native: &native, cost: &cost, readings: &readings };
            let n = alpha3.len();
            let count = n.pow(depth as u32);
            let cs: Vec<Counters> = (0..count)
                .into_par_iter()
                .map(|mut idx| {
                    let mut hist = Vec::with_capacity(depth);
                    for _ in 0..depth {
                        hist.push(alpha3[idx % n].clone());
                        idx /= n;
                    }
                    let mut c = Counters::default();
                    ex.run(reg, &hist, &mut c);
                    c
                })
                .collect();
            for c in cs {
                total.executions += c.executions;
                total.transitions += c.transitions;
                total.with_half_pending += c.with_half_pending;
                total.pending_half_discarded += c.pending_half_discarded;
                total.aborted_calls += c.aborted_calls;
                total.known_corner += c.known_corner;
            }
            ctx.add("states", count as u64);
        }
        ctx.set("aborted_calls", total.aborted_calls);
        if total.aborted_calls == 0 {
            ctx.machinery("anti-vacuity: no aborted call was executed");
        }
    }

    // timers with long runs of stuck measurements inside the first, second or third collection: the
    // native twin retries on the same readings, so values and reading counts stay well defined
    {
        let outs2 = [Op::U32, Op::U64, Op::Fill(3), Op::Fill(9)];
        let mut alpha2: Vec<Step> = outs2.iter().cloned().map(Step::Out).collect();
        alpha2.push(Step::CloneSwitch);
        let depth = 3usize;
        let max_words = depth * 2 + 2;
        for rounds in [1u8, 2] {
            let per = jitter_env::readings_per_word(rounds);
            for l in [31usize, 33, 130, 1030] {
                for (which, kind) in [(0usize, jitter_env::Dev::Repeat3), (1, jitter_env::Dev::SameDelta), (2, jitter_env::Dev::Repeat3)] {
                    let base = jitter_env::raw_readings(ctx.seed ^ 0x16AA ^ l as u64 ^ ((rounds as u64) << 20), per * (max_words + 2) + 3 * l + 64);
                    let readings = jitter_env::with_stuck_run(&base, per * which + 5, l, kind);
                    let (native, cost) = native_twin(reg, &readings, rounds, None, 0, max_words);
                    if native.len() < max_words {
                        ctx.machinery("C16 stuck-run script too short for the native twin");
                        continue;
                    }
                    let ex = Exec { ctx, init_pool: None, rounds, per_word: per, native: &native, cost: &cost, readings: &readings };
                    let n = alpha2.len();
                    let count = n.pow(depth as u32);
                    let cs: Vec<Counters> = (0..count)
                        .into_par_iter()
                        .map(|mut idx| {
                            let mut hist = Vec::with_capacity(depth);
                            for _ in 0..depth {
                                hist.push(alpha2[idx % n].clone());
                                idx /= n;
                            }
                            let mut c = Counters::default();
                            ex.run(reg, &hist, &mut c);
                            c
                        })
                        .collect();
                    for c in cs {
                        total.executions += c.executions;
                        total.transitions += c.transitions;
                        total.with_half_pending += c.with_half_pending;
                        total.pending_half_discarded += c.pending_half_discarded;
                        total.clones_with_half_pending += c.clones_with_half_pending;
                        total.known_corner += c.known_corner;
                    }
                    ctx.add("states", count as u64);
                    ctx.add("stuck_run_timers", 1);
                }
            }
        }
    }

    // timers whose stamps return to earlier values inside a collection (non-monotonic clocks): the
    // collection must still take at least `rounds` measurements
    {
        let depth = 2usize;
        let alpha4: Vec<Step> = [Op::U32, Op::U64, Op::Fill(3), Op::Fill(9)].iter().cloned().map(Step::Out).collect();
        let mut n = 0u64;
        for rounds in [2u8, 64] {
            for b in [7i64, 1 << 20] {
                for ds in [[-2 * b, b, b, 0], [-b, b, 0, b], [b, -b, b, -b], [-b, 0, b, 2 * b], [2 * b, -b, -b, 3 * b]] {
                    let tail = jitter_env::raw_readings(ctx.seed ^ 0x16E0 ^ b as u64, 3 * (rounds as usize + 8) * 6 + 80);
                    let mut r: Vec<u64> = Vec::new();
                    let mut t: u64 = 5_000_000;
                    r.push(t);
                    for &d in &ds {
                        t = t.wrapping_add(d as u64);
                        r.push(t.wrapping_add(1));
                        r.push(t);
                        r.push(t.wrapping_add(2));
                    }
                    let off = t.wrapping_sub(tail[0]).wrapping_add(1000);
                    r.extend(tail.iter().map(|x| x.wrapping_add(off)));
                    let (native, cost) = native_twin(reg, &r, rounds, None, 0, depth * 2 + 2);
                    if native.len() < depth * 2 + 2 {
                        continue;
                    }
                    let ex = Exec { ctx, init_pool: None, rounds, per_word: jitter_env::readings_per_word(rounds), native: &native, cost: &cost, readings: &r };
                    let k = alpha4.len();
                    for idx in 0..k.pow(depth as u32) {
                        let hist = vec![alpha4[idx % k].clone(), alpha4[idx / k].clone()];
                        let mut c = Counters::default();
                        ex.run(reg, &hist, &mut c);
                        total.executions += c.executions;
                        total.transitions += c.transitions;
                        n += 1;
                    }
                }
            }
        }
        ctx.add("states", n);
        ctx.set("returning_stamp_histories", n);
    }

    // duplicates made by plain copy: only possible if JitterRng<F> is `Copy` for a `Copy` timer (it is not,
    // on the unchanged tree; the probe is decided at compile time for the zero-sized fn-item timers). A
    // copy is a duplicate like a clone: its first output must come from a fresh collection.
    {
        let mut probes = 0u64;
        for rounds in [1u8, 3] {
            for first in [Op::U32, Op::Fill(3), Op::U64] {
                let readings = jitter_env::benign_readings(ctx.seed ^ 0x16C0 ^ rounds as u64, rounds, 8, 8);
                let mut g = reg.jitter_zst(0, TimerScript::new(readings.clone()));
                g.jitter().unwrap().set_rounds(rounds);
                let o0 = apply(&mut g, &first);
                let Some(mut d) = g.bitwise_copy_box() else { continue };
                probes += 1;
                let pending_half = g.jitter().unwrap().half_pending();
                let pool = g.jitter().unwrap().pool();
                let before = d.jitter().unwrap().timer_consumed();
                let o = apply(&mut d, &Op::U32);
                let used = d.jitter().unwrap().timer_consumed() - before;
                if used == 0 {
                    ctx.violation(
                        "C16:copy-output",
                        &format!("rounds {}: after {} ({}), a plain copy of the generator (JitterRng is Copy for this timer type) returned {} from next_u32 without reading the timer{}", rounds, first.short(), o0.to_json(), o.to_json(), if pending_half && o == Obs::U32((pool >> 32) as u32) { " - the half its original still holds" } else { "" }),
                        json!({"kind":"note","rounds":rounds,"first":first.short()}),
                    );
                }
            }
        }
        ctx.set("copy_duplicates_probed", probes);
    }

    // shared call counter (the closure's own clone semantics): the clone's first output must still
    // read the timer at least `rounds` times, whatever the original holds
    for rounds in [1u8, 3, 64] {
        for first in [Op::U32, Op::Fill(3)] {
            for probe in [Op::U32, Op::U64, Op::Fill(1), Op::Fill(4), Op::Fill(9)] {
                let readings = jitter_env::raw_readings(ctx.seed ^ 0x1616, 8 * jitter_env::readings_per_word(rounds));
                let (mut g, script) = jitter_env::jitter_with(reg, readings, Some(rounds));
                let _ = apply(&mut g, &first);
                let mut c = g.clone_box();
                let before = script.consumed();
                let o = apply(&mut c, &probe);
                let used = script.consumed() - before;
                total.executions += 1;
                total.transitions += 2;
                ctx.add("shared_counter_probes", 1);
                if used < rounds as usize || o.is_panic() {
                    ctx.violation("C16:clone-output", &format!("rounds {}: after {}, the first output ({}) of a clone read the shared timer only {} times ({})", rounds, first.short(), probe.short(), used, o.to_json()), json!({"kind":"jitter-c16-shared","rounds":rounds,"first":first.short(),"probe":probe.short()}));
                }
            }
        }
    }
    ctx.set("executions", total.executions);
    ctx.set("transitions", total.transitions);
    ctx.set("transitions_with_half_pending", total.with_half_pending);
    ctx.set("pending_half_discarded", total.pending_half_discarded);
    ctx.set("clones_with_half_pending", total.clones_with_half_pending);
    ctx.set("clone_from_into_half_pending", total.clone_from_into_half_pending);
    ctx.set("known_corner_hits", total.known_corner);
    for (n, v) in [("transitions_with_half_pending", total.with_half_pending), ("pending_half_discarded", total.pending_half_discarded), ("clones_with_half_pending", total.clones_with_half_pending)] {
        if v == 0 {
            ctx.machinery(&format!("anti-vacuity: counter {} is zero", n));
        }
    }
    ctx.set_exhaustive(true);
    Outcome {
        level: "model_checking",
        keys: EvidenceKeys {
            states: "states",
            transitions: "transitions",
            traces: "executions",
            evaluations: "executions",
            distinct: "states",
            rule: "states = every history of the stated depth over {next_u32, next_u64, fill_bytes(0..=9,12,16), clone-and-continue-on-clone, clone_from-into-{fresh, half-pending}-generator-and-continue-there, set_rounds(1|3), output calls aborted by a failing timer at reading 0 / 4 / last of the call, clone-and-take-one-output-from-the-clone(u32|u64|fill3|fill8)} for rounds 1,2,3,64,255; every step is checked for its value (native twin) and for the number of timer readings it performed (own cursor); distinct by construction".into(),
        },
    }
}
