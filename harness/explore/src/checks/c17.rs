//! C17 — Debug output of state-hiding generators never depends on seed or state.

use super::makers::*;
use super::statespace::*;
use super::Outcome;
use crate::alphabet;
use crate::evidence::{hex, Ctx, EvidenceKeys};
use crate::histories::Maker;
use crate::jitter_env;
use crate::ops::{apply, fingerprint, ops_json, ops_short, Op};
use crate::subject::{Family, Gen, GenType, Registry};
use rayon::prelude::*;
use serde_json::json;
use std::collections::BTreeSet;

/// All 32/64-bit words >= 2^16 that must not show up in the text.
fn secret_words(g: &dyn Gen, replay: &mut Box<dyn Gen>, seed: &[u8], info_words: usize) -> BTreeSet<u64> {
    let mut w = BTreeSet::new();
    let mut add_bytes = |b: &[u8]| {
        for c in b.chunks(4) {
            if c.len() == 4 {
                w.insert(u32::from_le_bytes([c[0], c[1], c[2], c[3]]) as u64);
            }
        }
        for c in b.chunks(8) {
            if c.len() == 8 {
                let mut a = [0u8; 8];
                a.copy_from_slice(c);
                w.insert(u64::from_le_bytes(a));
            }
        }
    };
    if let Some(img) = g.ser() {
        add_bytes(&img);
    }
    add_bytes(seed);
    // what the state produces next (buffered words and beyond): two blocks
    for v in fingerprint(replay, 32, info_words) {
        w.insert(v);
    }
    w.into_iter().filter(|&v| v >= 1 << 16).collect()
}

fn leaks(text: &str, words: &BTreeSet<u64>) -> Option<u64> {
    let lower = text.to_lowercase();
    for &v in words {
        if text.contains(&v.to_string()) || lower.contains(&format!("{:x}", v)) {
            return Some(v);
        }
    }
    None
}

pub fn run(reg: &dyn Registry, ctx: &Ctx) -> Outcome {
    let depth = ctx.tier.pick(3, 4);
    let mut types: Vec<&'static dyn GenType> = reg.types().into_iter().filter(|t| t.info().hides_state).collect();
    types.extend(reg.core_types());
    ctx.assume("state words are taken from the implementation itself: serde image where available, the next two blocks of output of a replayed copy, the seed words, the jitter pool (hook)");
    let _: Vec<()> = types
        .par_iter()
        .map(|ty| {
            let info = ty.info();
            let len = info.seed_len;
            let seeds: Vec<Vec<u8>> = vec![alphabet::zero(len), alphabet::ones(len), (0..len).map(|i| (i + 1) as u8).collect(), alphabet::bg_bytes(ctx.seed, 0x17A, len), alphabet::bg_bytes(ctx.seed, 0x17B, len)];
            let makers: Vec<Box<dyn Maker>> = seeds.iter().map(|s| Box::new(SeedMaker { ty: *ty, seed: s.clone() }) as Box<dyn Maker>).collect();
            // the same history set for every seed
            let one: Vec<Box<dyn Maker>> = vec![Box::new(SeedMaker { ty: *ty, seed: seeds[0].clone() })];
            let hist = build_states(&one, depth);
            let block = info.block_words.unwrap_or(4);
            for h in &hist {
                let mut texts: Vec<(String, String)> = Vec::new();
                for (si, mk) in makers.iter().enumerate() {
                    let g = crate::histories::rebuild(mk.as_ref(), &h.history);
                    let t = (g.debug(false), g.debug(true));
                    ctx.add("states", 1);
                    ctx.add("transitions", 2);
                    let mut rp = crate::histories::rebuild(mk.as_ref(), &h.history);
                    let words = secret_words(g.as_ref(), &mut rp, &seeds[si], 2 * block);
                    ctx.add("secret_words_checked", words.len() as u64);
                    for text in [&t.0, &t.1] {
                        if let Some(v) = leaks(text, &words) {
                            ctx.violation(
                                &format!("C17:{}:leak", info.name),
                                &format!("{}: Debug text after {} (seed {}) contains the state/output word {:#x}: {}", info.name, ops_short(&h.history), hex(&seeds[si]), v, text.chars().take(200).collect::<String>()),
                                json!({"kind":"debug","type":info.name,"seed":hex(&seeds[si]),"ops":ops_json(&h.history)}),
                            );
                        }
                    }
                    texts.push(t);
                }
                for si in 1..texts.len() {
                    ctx.add("seed_pairs_compared", 1);
                    if texts[si] != texts[0] {
                        ctx.violation(
                            &format!("C17:{}:seed-dependent", info.name),
                            &format!("{}: Debug text after {} differs between seed {} ({:?}) and seed {} ({:?})", info.name, ops_short(&h.history), hex(&seeds[0]), texts[0].0.chars().take(120).collect::<String>(), hex(&seeds[si]), texts[si].0.chars().take(120).collect::<String>()),
                            json!({"kind":"debug-pair","type":info.name,"seed_a":hex(&seeds[0]),"seed_b":hex(&seeds[si]),"ops":ops_json(&h.history)}),
                        );
                    }
                }
            }
            if info.name == "Hc128Rng" {
                let g = makers[2].make();
                ctx.sample(json!({"type": info.name, "debug_text": g.debug(false), "histories": hist.len(), "seeds": 5}));
            }
            let _ = Family::Core;
        })
        .collect();

    // the same public read position reached after different numbers of blocks: the text may depend on the
    // buffer index (public), not on how many blocks were generated before
    {
        let mut types2: Vec<&'static dyn GenType> = reg.types().into_iter().filter(|t| t.info().hides_state && t.info().block_words.is_some()).collect();
        types2.extend(reg.core_types());
        for ty in types2 {
            let info = ty.info();
            let is_core = info.family == Family::Core;
            let b = if is_core { 1 } else { info.block_words.unwrap() };
            let native = if info.word_bits == 32 || is_core { Op::U32 } else { Op::U64 };
            let seed = alphabet::bg_bytes(ctx.seed, 0x17C, info.seed_len);
            for w in [0usize, 1, b / 2, b - 1] {
                let mut texts: Vec<(usize, (String, String))> = Vec::new();
                for blocks in [0usize, 1, 2, 7, 300] {
                    if is_core && w != 0 {
                        continue;
                    }
                    // position (w mod b) after `blocks` whole blocks; w = 0 with blocks = 0 is the fresh generator,
                    // whose index differs (block not yet generated), so start from one block there
                    let words = w + b * (blocks + if w == 0 { 1 } else { 0 });
                    let mut g = ty.from_seed(&seed);
                    for _ in 0..words {
                        apply(&mut g, &native);
                    }
                    ctx.add("states", 1);
                    texts.push((words, (g.debug(false), g.debug(true))));
                }
                for k in 1..texts.len() {
                    if texts[k].1 != texts[0].1 {
                        ctx.violation(
                            &format!("C17:{}:state-dependent", info.name),
                            &format!("{}: Debug text at the same buffer position differs after {} and after {} native words: {:?} vs {:?}", info.name, texts[0].0, texts[k].0, texts[0].1 .0, texts[k].1 .0),
                            json!({"kind":"debug","type":info.name,"seed":hex(&seed),"ops":ops_json(&vec![native.clone(); texts[k].0])}),
                        );
                        break;
                    }
                }
            }
        }
    }

    // value-directed states of the one state-hiding generator whose state is the seed itself: XorShiftRng
    // states that have, or reach after one or two steps, a special word pattern (a zero word, equal words,
    // words summing to zero, ...): the text must be the one every other seed gives at the same position
    if let Some(ty) = reg.get("XorShiftRng") {
        let baseline = {
            let g = ty.from_seed(&alphabet::bg_bytes(ctx.seed, 0x17A, 16));
            (g.debug(false), g.debug(true))
        };
        let specials = super::c18aux::for_type(ty, ctx.seed ^ 0x17);
        ctx.set("xorshift_value_directed_states", specials.len() as u64);
        for (_, _, seed) in specials {
            let mut g = ty.from_seed(&seed);
            for step in 0..3 {
                ctx.add("states", 1);
                let t = (g.debug(false), g.debug(true));
                if t != baseline {
                    ctx.violation(
                        "C17:XorShiftRng:seed-dependent",
                        &format!("XorShiftRng: Debug text after {} next_u32 calls from seed {} is {:?}, every other seed gives {:?}", step, hex(&seed), t.0, baseline.0),
                        json!({"kind":"debug-pair","type":"XorShiftRng","seed_a":hex(&alphabet::bg_bytes(ctx.seed, 0x17A, 16)),"seed_b":hex(&seed),"ops":ops_json(&vec![Op::U32; step])}),
                    );
                    break;
                }
                g.next_u32();
            }
        }
    }

    // rare reachable events (found on the reference model): the Debug text at / around the special word
    // must equal that of another seed at the same position (Rng and core)
    {
        let thorough = ctx.tier == crate::evidence::Tier::Thorough;
        for (ty, evs) in rare_events(reg, ctx.seed, thorough) {
            let info = ty.info();
            let b = info.block_words.unwrap_or(1) as u64;
            let other_seed = alphabet::bg_bytes(ctx.seed, 0x17EE, info.seed_len);
            let core_name = match info.name {
                "Hc128Rng" => "Hc128Core",
                "IsaacRng" => "IsaacCore",
                _ => "Isaac64Core",
            };
            let core = reg.core_types().into_iter().find(|c| c.info().name == core_name);
            let res: Vec<Option<(String, String, serde_json::Value)>> = evs
                .par_iter()
                .flat_map_iter(|e| {
                    let blk = e.word_index / b * b;
                    let mut out = Vec::new();
                    for p in [e.word_index.saturating_sub(1), e.word_index, e.word_index + 1, blk, blk + b] {
                        let a = SkipMaker { ty, seed: e.seed.clone(), skip_words: p }.make();
                        let o = SkipMaker { ty, seed: other_seed.clone(), skip_words: p }.make();
                        if (a.debug(false), a.debug(true)) != (o.debug(false), o.debug(true)) {
                            out.push(Some((info.name.to_string(), format!("{}: {} words into the stream, Debug is {:?} for seed {} (a block with {}) but {:?} for seed {}", info.name, p, a.debug(false).chars().take(120).collect::<String>(), hex(&e.seed), e.what, o.debug(false).chars().take(120).collect::<String>(), hex(&other_seed)), json!({"kind":"debug-pair","type":info.name,"seed_a":hex(&e.seed),"seed_b":hex(&other_seed),"native_calls":p,"event":crate::rare::describe(e)}))));
                        } else {
                            out.push(None);
                        }
                    }
                    if let Some(core) = core {
                        let blocks = e.word_index / b + 2;
                        let mut a = core.from_seed(&e.seed);
                        let mut o = core.from_seed(&other_seed);
                        for k in 0..blocks {
                            a.next_u32();
                            o.next_u32();
                            if k + 3 >= blocks && (a.debug(false), a.debug(true)) != (o.debug(false), o.debug(true)) {
                                out.push(Some((core_name.to_string(), format!("{}: after {} blocks Debug is {:?} for seed {} (a block with {}) but {:?} for seed {}", core_name, k + 1, a.debug(false), hex(&e.seed), e.what, o.debug(false), hex(&other_seed)), json!({"kind":"note","event":crate::rare::describe(e)}))));
                            }
                        }
                    }
                    out.into_iter()
                })
                .collect();
            ctx.add("rare_event_debug_pairs", res.len() as u64);
            ctx.add("seed_pairs_compared", res.len() as u64);
            for r in res.into_iter().flatten() {
                ctx.violation(&format!("C17:{}:seed-dependent", r.0), &r.1, r.2);
            }
        }
    }
    // JitterRng: generators that went through the same call history share the same public read
    // position, whatever their timer delivered and whatever their pool holds: their texts must be equal.
    // Variants per history: three benign timers, timers with long runs of stuck measurements, and
    // value-directed pools (hook + linear solve) for which the first collected word is special.
    {
        let mut texts_all: BTreeSet<(String, String)> = BTreeSet::new();
        let alphabet = vec![Op::U32, Op::U64, Op::Fill(3), Op::Fill(9), Op::TimerStats(false), Op::SetRounds(3)];
        let hs = all_histories(&alphabet, depth.min(3));
        let rounds = 2u8;
        let mut variants: Vec<(String, Vec<u64>, Option<u64>)> = Vec::new();
        for salt in 0..3u64 {
            variants.push((format!("benign timer {}", salt), jitter_env::benign_readings(ctx.seed ^ (0x17 + salt), rounds, 14, 64), None));
        }
        for k in [1usize, 9, 33, 130, 1030] {
            let base = jitter_env::raw_readings(ctx.seed ^ 0x17AA ^ k as u64, 14 * jitter_env::readings_per_word(3) + 3 * k + 100);
            variants.push((format!("{} consecutive stuck measurements in the first collection", k), jitter_env::with_stuck_run(&base, 5, k, jitter_env::Dev::Repeat3), None));
            variants.push((format!("{} consecutive stuck measurements in the second collection", k), jitter_env::with_stuck_run(&base, jitter_env::readings_per_word(rounds) + 5, k, jitter_env::Dev::SameDelta), None));
        }
        // every kind of single timer deviation (repeats, ties, backward steps, jumps of 2^31 / 2^32, wrap,
        // a zero reading) at the priming probe, the first probes and in the second collection
        {
            let base = jitter_env::raw_readings(ctx.seed ^ 0x17DE, 14 * jitter_env::readings_per_word(3) + 200);
            let per = jitter_env::readings_per_word(rounds);
            for &kind in jitter_env::DEV_MENU.iter().chain([jitter_env::Dev::Zero].iter()) {
                for pos in [2usize, 5, 8, per + 5] {
                    variants.push((format!("timer deviation {:?} at reading {}", kind, pos), jitter_env::deviate(&base, &[(pos, kind)]), None));
                }
            }
        }
        let vd = jitter_env::benign_readings(ctx.seed ^ 0x17CC, rounds, 14, 64);
        for &target in jitter_env::SPECIAL_WORDS.iter() {
            if let Some(p) = jitter_env::solve_pool_for_first_output(reg, &vd, rounds, target) {
                variants.push((format!("first collected word {:#x}", target), vd.clone(), Some(p)));
            }
        }
        ctx.set("jitter_variants_per_history", variants.len() as u64);
        let results: Vec<Vec<(String, String, u64)>> = hs
            .par_iter()
            .map(|h| {
                variants
                    .iter()
                    .map(|(_, readings, pool)| {
                        let (mut g, _) = jitter_env::jitter_with(reg, readings.clone(), Some(rounds));
                        if let Some(p) = pool {
                            g.jitter().unwrap().set_pool(*p);
                        }
                        for op in h {
                            let _ = apply(&mut g, op);
                        }
                        (g.debug(false), g.debug(true), g.jitter().unwrap().pool())
                    })
                    .collect()
            })
            .collect();
        for (h, row) in hs.iter().zip(results.iter()) {
            for (vi, (t0, t1, pool)) in row.iter().enumerate() {
                ctx.add("states", 1);
                ctx.add("transitions", 2);
                let mut words = BTreeSet::new();
                words.insert(*pool);
                words.insert(pool >> 32);
                words.insert(pool & 0xffff_ffff);
                let words: BTreeSet<u64> = words.into_iter().filter(|&v| v >= 1 << 16).collect();
                for text in [t0, t1] {
                    if let Some(v) = leaks(text, &words) {
                        ctx.violation("C17:JitterRng:leak", &format!("JitterRng: Debug text after {} ({}) contains the pool word {:#x}: {}", ops_short(h), variants[vi].0, v, text), json!({"kind":"debug","type":"JitterRng","ops":ops_json(h),"variant":variants[vi].0}));
                    }
                }
                texts_all.insert((t0.clone(), t1.clone()));
                if vi > 0 {
                    ctx.add("seed_pairs_compared", 1);
                    if (t0, t1) != (&row[0].0, &row[0].1) {
                        ctx.violation(
                            "C17:JitterRng:state-dependent",
                            &format!("JitterRng: after the same history {} the Debug text is {:?} with {} but {:?} with {}", ops_short(h), t0, variants[vi].0, row[0].0, variants[0].0),
                            json!({"kind":"debug","type":"JitterRng","ops":ops_json(h),"variant_a":variants[0].0,"variant_b":variants[vi].0}),
                        );
                    }
                }
            }
            // pool values through the hook, same history
            let (mut g, _) = jitter_env::jitter_with(reg, variants[0].1.clone(), Some(rounds));
            for op in h {
                let _ = apply(&mut g, op);
            }
            for p in [0u64, 1, u64::MAX, 0x0123_4567_89ab_cdef, 0x0000_0000_ffff_ffff, 0xffff_ffff_0000_0000] {
                g.jitter().unwrap().set_pool(p);
                let t2 = (g.debug(false), g.debug(true));
                ctx.add("states", 1);
                if (&t2.0, &t2.1) != (&row[0].0, &row[0].1) {
                    ctx.violation("C17:JitterRng:pool-dependent", &format!("JitterRng: Debug text changes to {:?} when the pool is {:#x} (history {})", t2.0, p, ops_short(h)), json!({"kind":"debug","type":"JitterRng","ops":ops_json(h),"pool":format!("{:#x}",p)}));
                }
            }
        }
        ctx.set("jitter_distinct_texts_info", texts_all.len() as u64);
    }
    if ctx.get("seed_pairs_compared") == 0 || ctx.get("secret_words_checked") == 0 {
        ctx.machinery("anti-vacuity: nothing compared");
    }
    ctx.set_exhaustive(true);
    Outcome {
        level: "model_checking",
        keys: EvidenceKeys {
            states: "states",
            transitions: "transitions",
            traces: "seed_pairs_compared",
            evaluations: "states",
            distinct: "states",
            rule: format!("for XorShiftRng, Hc128Rng/Core, IsaacRng/Core, Isaac64Rng/Core: every history up to depth {} from every start offset x 5 seeds (zero, ones, ramp, two dense); {{:?}} and {{:#?}} must be byte-identical across the seeds and contain no state/output word >= 2^16 (decimal or hex); JitterRng: for every history over outputs/timer_stats/set_rounds the text must be the same for 3 benign timers, 10 timers with runs of 1..1030 stuck measurements, 68 timers with one deviation (17 kinds x 4 positions), 8 value-directed pools (first collected word zero / zero half / all ones ...) and 6 pool values", depth),
        },
    }
}
