//! C17 — Debug output of state-hiding generators never depends on seed or state.

use super::makers::*;
use super::statespace::*;
use super::Outcome;
use crate::alphabet;
use crate::evidence::{hex, Ctx, EvidenceKeys};
use crate::histories::Maker;
use crate::jitter_env;
use crate::ops::{apply, fingerprint, ops_json, ops_short, Op};
use crate::subject::{Family, Gen, GenType, Registry};
use rayon::prelude::*;
use serde_json::json;
use std::collections::BTreeSet;

/// All 32/64-bit words >= 2^16 that must not show up in the text.
fn secret_words(g: &dyn Gen, replay: &mut Box<dyn Gen>, seed: &[u8], info_words: usize) -> BTreeSet<u64> {
    let mut w = BTreeSet::new();
    let mut add_bytes = |b: &[u8]| {
        for c in b.chunks(4) {
            if c.len() == 4 {
                w.insert(u32::from_le_bytes([c[0], c[1], c[2], c[3]]) as u64);
            }
        }
        for c in b.chunks(8) {
            if c.len() == 8 {
                let mut a = [0u8; 8];
                a.copy_from_slice(c);
                w.insert(u64::from_le_bytes(a));
            }
        }
    };
    if let Some(img) = g.ser() {
        add_bytes(&img);
    }
    add_bytes(seed);
    // what the state produces next (buffered words and beyond): two blocks
    for v in fingerprint(replay, 32, info_words) {
        w.insert(v);
    }
    w.into_iter().filter(|&v| v >= 1 << 16).collect()
}

fn leaks(text: &str, words: &BTreeSet<u64>) -> Option<u64> {
    let lower = text.to_lowercase();
    for &v in words {
        if text.contains(&v.to_string()) || lower.contains(&format!("{:x}", v)) {
            return Some(v);
        }
    }
    None
}

pub fn run(reg: &dyn Registry, ctx: &Ctx) -> Outcome {
    let depth = ctx.tier.pick(3, 4);
    let mut types: Vec<&'static dyn GenType> = reg.types().into_iter().filter(|t| t.info().hides_state).collect();
    types.extend(reg.core_types());
    ctx.assume("state words are taken from the implementation itself: serde image where available, the next two blocks of output of a replayed copy, the seed words, the jitter pool (hook)");
    let _: Vec<()> = types
        .par_iter()
        .map(|ty| {
            let info = ty.info();
            let len = info.seed_len;
            let seeds: Vec<Vec<u8>> = vec![alphabet::zero(len), alphabet::ones(len), (0..len).map(|i| (i + 1) as u8).collect(), alphabet::bg_bytes(ctx.seed, 0x17A, len), alphabet::bg_bytes(ctx.seed, 0x17B, len)];
            let makers: Vec<Box<dyn Maker>> = seeds.iter().map(|s| Box::new(SeedMaker { ty: *ty, seed: s.clone() }) as Box<dyn Maker>).collect();
            // the same history set for every seed
            let one: Vec<Box<dyn Maker>> = vec![Box::new(SeedMaker { ty: *ty, seed: seeds[0].clone() })];
            let hist = build_states(&one, depth);
            let block = info.block_words.unwrap_or(4);
            for h in &hist {
                let mut texts: Vec<(String, String)> = Vec::new();
                for (si, mk) in makers.iter().enumerate() {
                    let g = crate::histories::rebuild(mk.as_ref(), &h.history);
                    let t = (g.debug(false), g.debug(true));
                    ctx.add("states", 1);
                    ctx.add("transitions", 2);
                    let mut rp = crate::histories::rebuild(mk.as_ref(), &h.history);
                    let words = secret_words(g.as_ref(), &mut rp, &seeds[si], 2 * block);
                    ctx.add("secret_words_checked", words.len() as u64);
                    for text in [&t.0, &t.1] {
                        if let Some(v) = leaks(text, &words) {
                            ctx.violation(
                                &format!("C17:{}:leak", info.name),
                                &format!("{}: Debug text after {} (seed {}) contains the state/output word {:#x}: {}", info.name, ops_short(&h.history), hex(&seeds[si]), v, text.chars().take(200).collect::<String>()),
                                json!({"kind":"debug","type":info.name,"seed":hex(&seeds[si]),"ops":ops_json(&h.history)}),
                            );
                        }
                    }
                    texts.push(t);
                }
                for si in 1..texts.len() {
                    ctx.add("seed_pairs_compared", 1);
                    if texts[si] != texts[0] {
                        ctx.violation(
                            &format!("C17:{}:seed-dependent", info.name),
                            &format!("{}: Debug text after {} differs between seed {} ({:?}) and seed {} ({:?})", info.name, ops_short(&h.history), hex(&seeds[0]), texts[0].0.chars().take(120).collect::<String>(), hex(&seeds[si]), texts[si].0.chars().take(120).collect::<String>()),
                            json!({"kind":"debug-pair","type":info.name,"seed_a":hex(&seeds[0]),"seed_b":hex(&seeds[si]),"ops":ops_json(&h.history)}),
                        );
                    }
                }
            }
            if info.name == "Hc128Rng" {
                let g = makers[2].make();
                ctx.sample(json!({"type": info.name, "debug_text": g.debug(false), "histories": hist.len(), "seeds": 5}));
            }
            let _ = Family::Core;
        })
        .collect();

    // JitterRng: no public read position at all, so every history and every pool must give one text
    {
        let mut texts: BTreeSet<(String, String)> = BTreeSet::new();
        let alphabet = vec![Op::U32, Op::U64, Op::Fill(3), Op::Fill(9), Op::TimerStats(false), Op::SetRounds(3)];
        let hs = all_histories(&alphabet, depth.min(3));
        for salt in 0..3u64 {
            let readings = jitter_env::benign_readings(ctx.seed ^ (0x17 + salt), 2, 14, 64);
            for h in &hs {
                let (mut g, _) = jitter_env::jitter_with(reg, readings.clone(), Some(2));
                for op in h {
                    let _ = apply(&mut g, op);
                }
                ctx.add("states", 1);
                ctx.add("transitions", 2);
                let t = (g.debug(false), g.debug(true));
                let pool = g.jitter().unwrap().pool();
                let mut words = BTreeSet::new();
                words.insert(pool);
                words.insert(pool >> 32);
                words.insert(pool & 0xffff_ffff);
                let words: BTreeSet<u64> = words.into_iter().filter(|&v| v >= 1 << 16).collect();
                for text in [&t.0, &t.1] {
                    if let Some(v) = leaks(text, &words) {
                        ctx.violation("C17:JitterRng:leak", &format!("JitterRng: Debug text after {} contains the pool word {:#x}: {}", ops_short(h), v, text), json!({"kind":"debug","type":"JitterRng","ops":ops_json(h)}));
                    }
                }
                if texts.insert(t.clone()) && texts.len() > 1 {
                    ctx.violation("C17:JitterRng:state-dependent", &format!("JitterRng: Debug text after {} is {:?}, after another history/timer it was {:?}", ops_short(h), t.0, texts.iter().next().unwrap().0), json!({"kind":"debug","type":"JitterRng","ops":ops_json(h)}));
                }
                // pool values through the hook, same history
                for p in [0u64, 1, u64::MAX, 0x0123_4567_89ab_cdef] {
                    g.jitter().unwrap().set_pool(p);
                    let t2 = (g.debug(false), g.debug(true));
                    ctx.add("states", 1);
                    if t2 != t {
                        ctx.violation("C17:JitterRng:pool-dependent", &format!("JitterRng: Debug text changes to {:?} when the pool is {:#x} (history {})", t2.0, p, ops_short(h)), json!({"kind":"debug","type":"JitterRng","ops":ops_json(h),"pool":format!("{:#x}",p)}));
                    }
                }
            }
        }
        ctx.set("jitter_distinct_texts", texts.len() as u64);
    }
    if ctx.get("seed_pairs_compared") == 0 || ctx.get("secret_words_checked") == 0 {
        ctx.machinery("anti-vacuity: nothing compared");
    }
    ctx.set_exhaustive(true);
    Outcome {
        level: "model_checking",
        keys: EvidenceKeys {
            states: "states",
            transitions: "transitions",
            traces: "seed_pairs_compared",
            evaluations: "states",
            distinct: "states",
            rule: format!("for XorShiftRng, Hc128Rng/Core, IsaacRng/Core, Isaac64Rng/Core: every history up to depth {} from every start offset x 5 seeds (zero, ones, ramp, two dense); {{:?}} and {{:#?}} must be byte-identical across the seeds and contain no state/output word >= 2^16 (decimal or hex); JitterRng: every history over outputs/timer_stats/set_rounds x 3 timers x 5 pool values must give one single text", depth),
        },
    }
}
