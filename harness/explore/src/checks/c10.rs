//! C10 — clone() and == are congruences.

use super::makers::*;
use super::statespace::*;
use super::Outcome;
use crate::evidence::{Ctx, EvidenceKeys};
use crate::histories::Maker;
use crate::ops::{apply, ops_json, ops_short, Obs, Op};
use crate::subject::{Family, Gen, GenType, Registry};
use rayon::prelude::*;
use serde_json::json;

/// Seeds for pair enumeration: ramp, dense, zero and the dense seed with one state word changed
/// (one variant per 32/64-bit word of the seed, at most 8).
fn pair_seeds(ty: &dyn GenType, verif_seed: u64) -> Vec<Vec<u8>> {
    let mut v = standard_seeds(ty, verif_seed);
    let dense = v[1].clone();
    let wb = ty.info().word_bits / 8;
    let nwords = (ty.info().seed_len / wb).min(8);
    for i in 0..nwords {
        let mut s = dense.clone();
        s[i * wb] ^= 0x5A;
        s[i * wb + wb - 1] ^= 0x81;
        v.push(s);
    }
    v
}

fn continuation_obs(g: &mut Box<dyn Gen>, cont: &[Op]) -> Vec<Obs> {
    cont.iter().map(|o| apply(g, o)).collect()
}

pub fn run(reg: &dyn Registry, ctx: &Ctx) -> Outcome {
    let depth = ctx.tier.pick(2, 3);
    let cdepth = 2;
    ctx.assume("states are rebuilt by replaying their history on a fresh generator, so the check never relies on Clone to fork");
    let mut all_types: Vec<&'static dyn GenType> = reg.types();
    all_types.extend(reg.core_types());
    let results: Vec<()> = all_types
        .par_iter()
        .map(|ty| {
            let info = ty.info();
            let makers: Vec<Box<dyn Maker>> = pair_seeds(*ty, ctx.seed).into_iter().map(|s| Box::new(SeedMaker { ty: *ty, seed: s }) as Box<dyn Maker>).collect();
            // cores and the cheap types get the full depth; variants of the dense seed are part of the same set
            let states = build_states(&makers, depth);
            let objs: Vec<Box<dyn Gen>> = states.iter().map(|s| materialise(&makers, s)).collect();
            ctx.add("states", states.len() as u64);
            let conts = all_histories(&compact_alphabet(info), cdepth);
            let conts: Vec<Vec<Op>> = conts.into_iter().filter(|c| !c.is_empty()).collect();

            // (1) clone: equal to the original, identical continuations, still equal
            for (i, s) in states.iter().enumerate() {
                let c = objs[i].clone_box();
                ctx.add("clones", 1);
                if info.has_eq && c.eq_dyn(objs[i].as_ref()) != Some(true) {
                    ctx.violation(&format!("C10:{}:clone-not-equal", info.name), &format!("{}: clone() after {} does not compare equal to the original", info.name, ops_short(&s.history)), json!({"kind":"clone","type":info.name,"maker":makers[s.maker].describe(),"ops":ops_json(&s.history)}));
                    continue;
                }
                // continuations on clone vs a rebuilt (never cloned) original; cap the work per state
                let every = if i % 4 == 0 { 1 } else { 7 };
                for (ci, cont) in conts.iter().enumerate() {
                    if ci % every != 0 {
                        continue;
                    }
                    let mut a = materialise(&makers, s);
                    let mut b = objs[i].clone_box();
                    let oa = continuation_obs(&mut a, cont);
                    let ob = continuation_obs(&mut b, cont);
                    ctx.add("transitions", cont.len() as u64);
                    if oa != ob {
                        ctx.violation(
                            &format!("C10:{}:clone-diverges", info.name),
                            &format!("{}: after {}, a clone returns {:?} under {} where the original returns {:?}", info.name, ops_short(&s.history), ob.iter().map(|o| o.to_json()).collect::<Vec<_>>(), ops_short(cont), oa.iter().map(|o| o.to_json()).collect::<Vec<_>>()),
                            json!({"kind":"clone","type":info.name,"maker":makers[s.maker].describe(),"ops":ops_json(&s.history),"continuation":ops_json(cont)}),
                        );
                        break;
                    }
                    if info.has_eq && a.eq_dyn(b.as_ref()) != Some(true) {
                        ctx.violation(&format!("C10:{}:clone-unequal-after", info.name), &format!("{}: original and clone differ (==) after the same continuation {} from {}", info.name, ops_short(cont), ops_short(&s.history)), json!({"kind":"clone","type":info.name,"maker":makers[s.maker].describe(),"ops":ops_json(&s.history),"continuation":ops_json(cont)}));
                        break;
                    }
                }
            }

            // (2) all pairs: a == b  =>  identical observations under every continuation, still equal
            if info.has_eq {
                let n = states.len();
                let mut equal_pairs = 0u64;
                let mut equal_diff_history = 0u64;
                let mut unequal_same_block = 0u64;
                let mut pairs = 0u64;
                for i in 0..n {
                    for j in i + 1..n {
                        pairs += 1;
                        let eq = objs[i].eq_dyn(objs[j].as_ref()) == Some(true);
                        let sym = objs[j].eq_dyn(objs[i].as_ref()) == Some(true);
                        if eq != sym {
                            ctx.violation(&format!("C10:{}:eq-asymmetric", info.name), &format!("{}: == is not symmetric between states {} and {}", info.name, ops_short(&states[i].history), ops_short(&states[j].history)), json!({"kind":"eq-pair","type":info.name,"maker_a":makers[states[i].maker].describe(),"ops_a":ops_json(&states[i].history),"maker_b":makers[states[j].maker].describe(),"ops_b":ops_json(&states[j].history)}));
                        }
                        if !eq {
                            if states[i].maker == states[j].maker && info.block_words.is_some() {
                                unequal_same_block += 1;
                            }
                            continue;
                        }
                        equal_pairs += 1;
                        if states[i].history != states[j].history || states[i].maker != states[j].maker {
                            equal_diff_history += 1;
                        }
                        for cont in conts.iter() {
                            let mut a = materialise(&makers, &states[i]);
                            let mut b = materialise(&makers, &states[j]);
                            let oa = continuation_obs(&mut a, cont);
                            let ob = continuation_obs(&mut b, cont);
                            if oa != ob || a.eq_dyn(b.as_ref()) != Some(true) {
                                ctx.violation(
                                    &format!("C10:{}:equal-but-different-future", info.name),
                                    &format!(
                                        "{}: the generators after [{}] and after [{}] compare equal, but under {} they return {:?} and {:?}",
                                        info.name,
                                        ops_short(&states[i].history),
                                        ops_short(&states[j].history),
                                        ops_short(cont),
                                        oa.iter().map(|o| o.to_json()).collect::<Vec<_>>(),
                                        ob.iter().map(|o| o.to_json()).collect::<Vec<_>>()
                                    ),
                                    json!({"kind":"eq-pair","type":info.name,"maker_a":makers[states[i].maker].describe(),"ops_a":ops_json(&states[i].history),"maker_b":makers[states[j].maker].describe(),"ops_b":ops_json(&states[j].history),"continuation":ops_json(cont)}),
                                );
                                break;
                            }
                        }
                        ctx.add("transitions", conts.iter().map(|c| 2 * c.len() as u64).sum());
                    }
                }
                ctx.add("pairs_compared", pairs);
                ctx.add("equal_pairs", equal_pairs);
                ctx.add("equal_pairs_from_different_histories", equal_diff_history);
                ctx.add("unequal_pairs_same_seed_buffered", unequal_same_block);
            }
            if info.name == "Hc128Rng" || info.name == "Xoshiro256PlusPlus" {
                ctx.sample(json!({"type": info.name, "states": states.len(), "example_state": ops_json(&states[states.len() / 2].history), "continuations": conts.len()}));
            }
        })
        .collect();
    let _ = results;
    // large pair sets for the hand-written == of the array-based types (thorough): N states of one
    // stream, one full table refresh apart, all pairwise distinct by construction; an == that compares
    // a lossy digest (fewer than ~2*log2(N) bits) equates two of them
    if ctx.tier == crate::evidence::Tier::Thorough {
        let mut big: Vec<&'static dyn GenType> = reg.core_types();
        big.push(reg.get("Hc128Rng").unwrap());
        for ty in big {
            let info = ty.info();
            // expected number of colliding pairs for a lossy 32-bit digest: n^2 / 2^33 (8 for 2^18, 2 for 2^17)
            let n: usize = if info.name.starts_with("Hc128") { 1 << 18 } else { 1 << 17 };
            let seed = standard_seeds(ty, ctx.seed)[1].clone();
            let mut g = ty.from_seed(&seed);
            let blocks_apart = if info.name.starts_with("Hc128") { 64 } else { 1 };
            let mut states: Vec<Box<dyn Gen>> = Vec::with_capacity(n);
            let mut buf = vec![0u8; 64];
            for _ in 0..n {
                states.push(g.clone_box());
                for _ in 0..blocks_apart {
                    if info.family == Family::Core {
                        g.next_u32();
                    } else {
                        g.fill_bytes(&mut buf);
                    }
                }
            }
            // read-only sharing of the states between worker threads (all generator types are Sync: the
            // compile-time probe of C19 asserts it)
            struct Shared(Vec<Box<dyn Gen>>);
            unsafe impl Sync for Shared {}
            let shared = Shared(states);
            let states = &shared;
            let hits: Vec<(usize, usize)> = (0..n)
                .into_par_iter()
                .flat_map_iter(|i| {
                    let mut v = Vec::new();
                    for j in i + 1..n {
                        if states.0[i].eq_dyn(states.0[j].as_ref()) == Some(true) {
                            v.push((i, j));
                        }
                    }
                    v.into_iter()
                })
                .collect();
            ctx.add("pairs_compared", (n as u64) * (n as u64 - 1) / 2);
            ctx.add("large_pair_set_states", n as u64);
            for (i, j) in hits.into_iter().take(3) {
                let mut a = states.0[i].clone_box();
                let mut b = states.0[j].clone_box();
                let oa: Vec<Obs> = (0..4).map(|_| apply(&mut a, &Op::U64)).collect();
                let ob: Vec<Obs> = (0..4).map(|_| apply(&mut b, &Op::U64)).collect();
                if oa != ob {
                    ctx.violation(
                        &format!("C10:{}:equal-but-different-future", info.name),
                        &format!("{}: the states after {} and after {} steps of {} blocks from seed {} compare equal but return {:?} and {:?}", info.name, i, j, blocks_apart, crate::evidence::hex(&seed), oa.iter().map(|o| o.to_json()).collect::<Vec<_>>(), ob.iter().map(|o| o.to_json()).collect::<Vec<_>>()),
                        json!({"kind":"eq-deep-pair","type":info.name,"seed":crate::evidence::hex(&seed),"blocks_apart":blocks_apart,"i":i,"j":j}),
                    );
                }
            }
        }
    }
    let (n, f) = reg.isaac_array_probe();
    ctx.set("isaac_array_comparisons", n);
    if let Some(f) = f {
        ctx.violation("C10:IsaacArray:eq", &f, json!({"kind":"note","what":f}));
    }
    for c in ["equal_pairs_from_different_histories", "unequal_pairs_same_seed_buffered", "clones"] {
        if ctx.get(c) == 0 {
            ctx.machinery(&format!("anti-vacuity: counter {} is zero", c));
        }
    }
    let _ = Family::Core;
    ctx.set_exhaustive(true);
    Outcome {
        level: "model_checking",
        keys: EvidenceKeys {
            states: "states",
            transitions: "transitions",
            traces: "pairs_compared",
            evaluations: "pairs_compared",
            distinct: "states",
            rule: format!("states = every history up to depth {} over {{next_u32,next_u64,fill_bytes(3|9|block-3),jump,long_jump}} from every start offset and from 3+k seeds (ramp, dense, zero, dense with one word changed) for 20 generator types and 3 cores; every state is cloned and compared under all continuations of depth <= {}; every pair of states of one type is compared with == and, when equal, run under all continuations", depth, cdepth),
        },
    }
}
