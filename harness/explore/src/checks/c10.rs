//! C10 — clone() and == are congruences.

use super::makers::*;
use super::statespace::*;
use super::Outcome;
use crate::evidence::{Ctx, EvidenceKeys};
use crate::histories::Maker;
use crate::ops::{apply, ops_json, ops_short, Obs, Op};
use crate::subject::{Family, Gen, GenType, Registry};
use rayon::prelude::*;
use serde_json::json;

/// Seeds for pair enumeration: ramp, dense, zero and the dense seed with one state word changed
/// (one variant per 32/64-bit word of the seed, at most 8).
fn pair_seeds(ty: &dyn GenType, verif_seed: u64) -> Vec<Vec<u8>> {
    let mut v = standard_seeds(ty, verif_seed);
    let dense = v[1].clone();
    let wb = ty.info().word_bits / 8;
    let nwords = (ty.info().seed_len / wb).min(8);
    for i in 0..nwords {
        let mut s = dense.clone();
        s[i * wb] ^= 0x5A;
        s[i * wb + wb - 1] ^= 0x81;
        v.push(s);
    }
    v
}

fn continuation_obs(g: &mut Box<dyn Gen>, cont: &[Op]) -> Vec<Obs> {
    cont.iter().map(|o| apply(g, o)).collect()
}

pub fn run(reg: &dyn Registry, ctx: &Ctx) -> Outcome {
    let depth = ctx.tier.pick(2, 3);
    let cdepth = 2;
    ctx.assume("states are rebuilt by replaying their history on a fresh generator, so the check never relies on Clone to fork");
    let mut all_types: Vec<&'static dyn GenType> = reg.types();
    all_types.extend(reg.core_types());
    // ... and the 4-aligned cores once more at an address that is 4 mod 8 (a comparison or copy that goes
    // through wider words treats head and tail differently there)
    all_types.extend(reg.core_types_placed_at_4());
    let results: Vec<()> = all_types
        .par_iter()
        .map(|ty| {
            let info = ty.info();
            let makers: Vec<Box<dyn Maker>> = pair_seeds(*ty, ctx.seed).into_iter().map(|s| Box::new(SeedMaker { ty: *ty, seed: s }) as Box<dyn Maker>).collect();
            // cores and the cheap types get the full depth; variants of the dense seed are part of the same set
            let states = build_states(&makers, depth);
            let objs: Vec<Box<dyn Gen>> = states.iter().map(|s| materialise(&makers, s)).collect();
            ctx.add("states", states.len() as u64);
            let conts = all_histories(&compact_alphabet(info), cdepth);
            let conts: Vec<Vec<Op>> = conts.into_iter().filter(|c| !c.is_empty()).collect();

            // (1) clone: equal to the original, identical continuations, still equal
            for (i, s) in states.iter().enumerate() {
                let c = objs[i].clone_box();
                ctx.add("clones", 1);
                if info.has_eq && c.eq_dyn(objs[i].as_ref()) != Some(true) {
                    ctx.violation(&format!("C10:{}:clone-not-equal", info.name), &format!("{}: clone() after {} does not compare equal to the original", info.name, ops_short(&s.history)), json!({"kind":"clone","type":info.name,"maker":makers[s.maker].describe(),"ops":ops_json(&s.history)}));
                    continue;
                }
                // continuations on clone vs a rebuilt (never cloned) original; cap the work per state
                let every = if i % 4 == 0 { 1 } else { 7 };
                for (ci, cont) in conts.iter().enumerate() {
                    if ci % every != 0 {
                        continue;
                    }
                    let mut a = materialise(&makers, s);
                    let mut b = objs[i].clone_box();
                    let oa = continuation_obs(&mut a, cont);
                    let ob = continuation_obs(&mut b, cont);
                    ctx.add("transitions", cont.len() as u64);
                    if oa != ob {
                        ctx.violation(
                            &format!("C10:{}:clone-diverges", info.name),
                            &format!("{}: after {}, a clone returns {:?} under {} where the original returns {:?}", info.name, ops_short(&s.history), ob.iter().map(|o| o.to_json()).collect::<Vec<_>>(), ops_short(cont), oa.iter().map(|o| o.to_json()).collect::<Vec<_>>()),
                            json!({"kind":"clone","type":info.name,"maker":makers[s.maker].describe(),"ops":ops_json(&s.history),"continuation":ops_json(cont)}),
                        );
                        break;
                    }
                    if info.has_eq && a.eq_dyn(b.as_ref()) != Some(true) {
                        ctx.violation(&format!("C10:{}:clone-unequal-after", info.name), &format!("{}: original and clone differ (==) after the same continuation {} from {}", info.name, ops_short(cont), ops_short(&s.history)), json!({"kind":"clone","type":info.name,"maker":makers[s.maker].describe(),"ops":ops_json(&s.history),"continuation":ops_json(cont)}));
                        break;
                    }
                }
            }

            // (1c) the other way to make a clone, Clone::clone_from: a target in another state (fresh; the
            // next state of the set) is overwritten with a clone of state i; it must then be a clone in every
            // respect: equal to the original, identical continuations
            for (i, s) in states.iter().enumerate() {
                let j = (i + 1) % states.len();
                for (tname, mut target) in [("a fresh generator", makers[s.maker].make()), ("a generator in another state", materialise(&makers, &states[j]))] {
                    let r = crate::ops::guarded(|| target.clone_from_dyn(objs[i].as_ref()));
                    ctx.add("clones", 1);
                    let rp = json!({"kind":"clone-from","type":info.name,"maker":makers[s.maker].describe(),"ops":ops_json(&s.history),"clone_from_target":tname,"target_ops":ops_json(&states[j].history)});
                    if let Err(o) = r {
                        ctx.violation(&format!("C10:{}:clone_from-panic", info.name), &format!("{}: clone_from panicked: {:?}", info.name, o), rp);
                        break;
                    }
                    if info.has_eq && target.eq_dyn(objs[i].as_ref()) != Some(true) {
                        ctx.violation(&format!("C10:{}:clone_from-not-equal", info.name), &format!("{}: {} overwritten by clone_from with the state after {} does not compare equal to it", info.name, tname, ops_short(&s.history)), rp);
                        break;
                    }
                    let cont = &conts[(i * 5 + 1) % conts.len()];
                    let mut a = materialise(&makers, s);
                    let oa = continuation_obs(&mut a, cont);
                    let ob = continuation_obs(&mut target, cont);
                    ctx.add("transitions", cont.len() as u64);
                    if oa != ob {
                        ctx.violation(
                            &format!("C10:{}:clone_from-diverges", info.name),
                            &format!("{}: {} overwritten by clone_from with the state after {} returns {:?} under {} where the original returns {:?}", info.name, tname, ops_short(&s.history), ob.iter().map(|o| o.to_json()).collect::<Vec<_>>(), ops_short(cont), oa.iter().map(|o| o.to_json()).collect::<Vec<_>>()),
                            rp,
                        );
                        break;
                    }
                }
            }

            // (1b) clones taken around call counts 2^k (per-object counters that Clone / == could treat
            // inconsistently): after 2^k-2 .. 2^k+1 native calls, k = 8, 16; compared 2^k+4 calls ahead
            if info.family != Family::Core {
                for k in [8u32, 16] {
                    let base = 1usize << k;
                    for dseed in super::common::chain_seeds(*ty, ctx.seed ^ 0x10DD ^ k as u64, 16) {
                    let dmaker = SeedMaker { ty: *ty, seed: dseed };
                    let mut g = dmaker.make();
                    let step = |g: &mut Box<dyn Gen>| if info.word_bits == 32 { g.next_u32() as u64 } else { g.next_u64() };
                    for _ in 0..base - 2 {
                        step(&mut g);
                    }
                    for off in 0..4usize {
                        let mut c = g.clone_box();
                        let mut o = g.clone_box();
                        // `o` is itself a clone; the never-cloned original `g` is advanced below and compared too
                        ctx.add("clones", 1);
                        if info.has_eq && c.eq_dyn(g.as_ref()) != Some(true) {
                            ctx.violation(&format!("C10:{}:clone-not-equal", info.name), &format!("{}: clone() after {} native calls does not compare equal to the original", info.name, base - 2 + off), json!({"kind":"note"}));
                        }
                        let mut bad = None;
                        for j in 0..base + 4 {
                            if step(&mut c) != step(&mut o) {
                                bad = Some(j);
                                break;
                            }
                        }
                        ctx.add("transitions", 2 * (base as u64 + 4));
                        let first_c = {
                            let mut c2 = g.clone_box();
                            step(&mut c2)
                        };
                        // a generator rebuilt from this one's state image (where the image is the seed) compares
                        // equal to it; equal generators must have identical futures
                        if info.has_eq && info.linear_bits.is_some() && off == 0 {
                            if let Some(img) = g.ser() {
                                if img.len() == info.seed_len && img.iter().any(|&b| b != 0) {
                                    let mut fresh = ty.from_seed(&img);
                                    if fresh.eq_dyn(g.as_ref()) == Some(true) {
                                        let mut old = g.clone_box();
                                        for j in 0..base + 4 {
                                            if step(&mut fresh) != step(&mut old) {
                                                ctx.violation(
                                                    &format!("C10:{}:equal-but-different-future", info.name),
                                                    &format!("{}: a generator that made {} native calls and a fresh generator seeded with its state compare equal, but their outputs differ {} calls later", info.name, base - 2, j),
                                                    json!({"kind":"note","type":info.name,"state":crate::evidence::hex(&img),"calls_before":base - 2,"diverges_after":j}),
                                                );
                                                break;
                                            }
                                        }
                                        ctx.add("transitions", 2 * (base as u64 + 4));
                                    }
                                }
                            }
                        }
                        let first_g = step(&mut g);
                        if bad.is_some() || first_c != first_g {
                            ctx.violation(&format!("C10:{}:clone-diverges", info.name), &format!("{}: a clone taken after {} native calls diverges from the original ({:?} calls later)", info.name, base - 2 + off, bad), json!({"kind":"clone","type":info.name,"maker":dmaker.describe(),"ops":ops_json(&vec![if info.word_bits == 32 { Op::U32 } else { Op::U64 }; base - 2 + off])}));
                        }
                    }
                    }
                }
            }

            // (1c) every state against its native-width twin: the generator that consumed the same number of
            // words through native calls only. Whenever the two compare equal (they should), their futures
            // must agree - a fast path that leaves the buffer out of step with the core is caught here.
            if info.has_eq && !matches!(info.family, Family::Core) {
                let zeros = vec![0u64; 20_000];
                let st = crate::stream::Stream { info, native: &zeros, own_u32: None };
                for (i, s) in states.iter().enumerate() {
                    if s.history.iter().any(|o| matches!(o, Op::Jump | Op::LongJump)) || info.u32_proj == 'm' {
                        continue;
                    }
                    let mut pos = crate::stream::Pos::start();
                    let mut okp = true;
                    for op in &s.history {
                        if pos.words + st.words_needed(op) + 4 > zeros.len() as u64 {
                            okp = false;
                            break;
                        }
                        pos = st.expect(pos, op)[0].1;
                    }
                    if !okp || pos.half {
                        continue;
                    }
                    let mut twin = makers[s.maker].make();
                    for _ in 0..pos.words {
                        if info.word_bits == 32 {
                            twin.next_u32();
                        } else {
                            twin.next_u64();
                        }
                    }
                    ctx.add("native_twin_pairs", 1);
                    if twin.eq_dyn(objs[i].as_ref()) == Some(true) {
                        let mut a = materialise(&makers, s);
                        let k = info.block_words.unwrap_or(2) + 2;
                        let fa = crate::ops::fingerprint(&mut a, info.word_bits, k);
                        let fb = crate::ops::fingerprint(&mut twin, info.word_bits, k);
                        ctx.add("transitions", 2 * k as u64);
                        if fa != fb {
                            let j = (0..k).find(|&j| fa[j] != fb[j]).unwrap();
                            ctx.violation(
                                &format!("C10:{}:equal-but-different-future", info.name),
                                &format!("{}: the generator after [{}] compares equal to the one that made {} native calls, but native output {} after that differs ({:#x} vs {:#x})", info.name, ops_short(&s.history), pos.words, j, fa[j], fb[j]),
                                json!({"kind":"eq-pair","type":info.name,"maker_a":makers[s.maker].describe(),"ops_a":ops_json(&s.history),"maker_b":makers[s.maker].describe(),"ops_b":ops_json(&vec![if info.word_bits == 32 { Op::U32 } else { Op::U64 }; pos.words as usize]),"continuation":ops_json(&vec![if info.word_bits == 32 { Op::U32 } else { Op::U64 }; k])}),
                            );
                        }
                    }
                }
            }

            // (2) all pairs: a == b  =>  identical observations under every continuation, still equal
            if info.has_eq {
                let n = states.len();
                let mut equal_pairs = 0u64;
                let mut equal_diff_history = 0u64;
                let mut unequal_same_block = 0u64;
                let mut pairs = 0u64;
                for i in 0..n {
                    for j in i + 1..n {
                        pairs += 1;
                        let eq = objs[i].eq_dyn(objs[j].as_ref()) == Some(true);
                        let sym = objs[j].eq_dyn(objs[i].as_ref()) == Some(true);
                        if eq != sym {
                            ctx.violation(&format!("C10:{}:eq-asymmetric", info.name), &format!("{}: == is not symmetric between states {} and {}", info.name, ops_short(&states[i].history), ops_short(&states[j].history)), json!({"kind":"eq-pair","type":info.name,"maker_a":makers[states[i].maker].describe(),"ops_a":ops_json(&states[i].history),"maker_b":makers[states[j].maker].describe(),"ops_b":ops_json(&states[j].history)}));
                        }
                        if !eq {
                            if states[i].maker == states[j].maker && info.block_words.is_some() {
                                unequal_same_block += 1;
                            }
                            continue;
                        }
                        equal_pairs += 1;
                        if states[i].history != states[j].history || states[i].maker != states[j].maker {
                            equal_diff_history += 1;
                        }
                        for cont in conts.iter() {
                            let mut a = materialise(&makers, &states[i]);
                            let mut b = materialise(&makers, &states[j]);
                            let oa = continuation_obs(&mut a, cont);
                            let ob = continuation_obs(&mut b, cont);
                            if oa != ob || a.eq_dyn(b.as_ref()) != Some(true) {
                                ctx.violation(
                                    &format!("C10:{}:equal-but-different-future", info.name),
                                    &format!(
                                        "{}: the generators after [{}] and after [{}] compare equal, but under {} they return {:?} and {:?}",
                                        info.name,
                                        ops_short(&states[i].history),
                                        ops_short(&states[j].history),
                                        ops_short(cont),
                                        oa.iter().map(|o| o.to_json()).collect::<Vec<_>>(),
                                        ob.iter().map(|o| o.to_json()).collect::<Vec<_>>()
                                    ),
                                    json!({"kind":"eq-pair","type":info.name,"maker_a":makers[states[i].maker].describe(),"ops_a":ops_json(&states[i].history),"maker_b":makers[states[j].maker].describe(),"ops_b":ops_json(&states[j].history),"continuation":ops_json(cont)}),
                                );
                                break;
                            }
                        }
                        ctx.add("transitions", conts.iter().map(|c| 2 * c.len() as u64).sum());
                    }
                }
                ctx.add("pairs_compared", pairs);
                ctx.add("equal_pairs", equal_pairs);
                ctx.add("equal_pairs_from_different_histories", equal_diff_history);
                ctx.add("unequal_pairs_same_seed_buffered", unequal_same_block);
            }
            // (3) neighbours of a state built through the serde image (where the type has one): every
            // single-byte change of the image of two states; a neighbour that deserialises and compares
            // equal to the original must have the same future (== that ignores part of the state)
            if info.has_eq {
                let future: Vec<Op> = {
                    let bb = info.block_words.unwrap_or(4) * info.word_bits / 8;
                    if info.family == Family::Core { vec![Op::U32, Op::U32, Op::U32] } else { vec![Op::U64, Op::U32, Op::Fill(bb + 9), Op::U64] }
                };
                for si in [0usize, states.len() / 2, states.len() - 1] {
                    let Some(img) = objs[si].ser() else { break };
                    for p in 0..img.len() {
                        for flip in [0x01u8, 0x80] {
                            let mut im2 = img.clone();
                            im2[p] ^= flip;
                            let Some(Ok(mut nb)) = ty.de(&im2) else { continue };
                            ctx.add("image_neighbours", 1);
                            let e1 = nb.eq_dyn(objs[si].as_ref()) == Some(true);
                            let e2 = objs[si].eq_dyn(nb.as_ref()) == Some(true);
                            if e1 != e2 {
                                ctx.violation(&format!("C10:{}:eq-asymmetric", info.name), &format!("{}: == is not symmetric between the state after {} and the state whose serde image differs from its image in byte {}", info.name, ops_short(&states[si].history), p), json!({"kind":"image-neighbour","type":info.name,"maker":makers[states[si].maker].describe(),"ops":ops_json(&states[si].history),"image_byte":p,"flip":flip}));
                                break;
                            }
                            if !e1 {
                                continue;
                            }
                            ctx.add("image_neighbours_equal", 1);
                            let mut orig = materialise(&makers, &states[si]);
                            let oa = continuation_obs(&mut orig, &future);
                            let ob = continuation_obs(&mut nb, &future);
                            if oa != ob {
                                ctx.violation(
                                    &format!("C10:{}:equal-but-different-future", info.name),
                                    &format!("{}: the state after {} and the state restored from its serde image with byte {} changed (xor {:#x}) compare equal, but under {} they return {:?} and {:?}", info.name, ops_short(&states[si].history), p, flip, ops_short(&future), oa.iter().map(|o| o.to_json()).collect::<Vec<_>>(), ob.iter().map(|o| o.to_json()).collect::<Vec<_>>()),
                                    json!({"kind":"image-neighbour","type":info.name,"maker":makers[states[si].maker].describe(),"ops":ops_json(&states[si].history),"image_byte":p,"flip":flip}),
                                );
                                break;
                            }
                        }
                    }
                }
            }
            if info.name == "Hc128Rng" || info.name == "Xoshiro256PlusPlus" {
                ctx.sample(json!({"type": info.name, "states": states.len(), "example_state": ops_json(&states[states.len() / 2].history), "continuations": conts.len()}));
            }
        })
        .collect();
    let _ = results;
    // rare reachable events (found on the reference model): clone at / around the special word; and, for
    // the cores that are serialisable, the pair (core, core restored from its own snapshot) - which
    // compares equal - must have the same future
    {
        let thorough = ctx.tier == crate::evidence::Tier::Thorough;
        for (ty, evs) in rare_events(reg, ctx.seed, thorough) {
            let info = ty.info();
            let b = info.block_words.unwrap_or(1) as u64;
            for e in &evs {
                let blk = e.word_index / b * b;
                for p in [e.word_index.saturating_sub(1), e.word_index, e.word_index + 1, blk, blk + b] {
                    let mk = SkipMaker { ty, seed: e.seed.clone(), skip_words: p };
                    let mut g = mk.make();
                    let mut c = g.clone_box();
                    ctx.add("clones", 1);
                    ctx.add("rare_event_clones", 1);
                    let mut bad = info.has_eq && c.eq_dyn(g.as_ref()) != Some(true);
                    for _ in 0..(2 * b + 8) {
                        if g.next_u32() != c.next_u32() {
                            bad = true;
                            break;
                        }
                    }
                    if bad {
                        ctx.violation(&format!("C10:{}:clone-diverges", info.name), &format!("{}: a clone taken {} words into the stream of seed {} (a block with {}) is not equal to / diverges from the original", info.name, p, crate::evidence::hex(&e.seed), e.what), json!({"kind":"clone","type":info.name,"maker":mk.describe(),"ops":[],"event":crate::rare::describe(e)}));
                    }
                }
            }
            // the corresponding core
            let core_name = match info.name {
                "Hc128Rng" => "Hc128Core",
                "IsaacRng" => "IsaacCore",
                _ => "Isaac64Core",
            };
            let Some(core) = reg.core_types().into_iter().find(|c| c.info().name == core_name) else { continue };
            for e in &evs {
                let blocks = e.word_index / b + 1;
                let mut g = core.from_seed(&e.seed);
                for _ in 0..blocks {
                    g.next_u32(); // one generate() per call on a core
                }
                // clone of the core after the block with the event
                let mut c = g.clone_box();
                let mut o = g.clone_box();
                ctx.add("rare_event_clones", 1);
                let mut bad = c.eq_dyn(g.as_ref()) != Some(true);
                // restored-from-snapshot core: equal => same future
                if let (Some(img), true) = (g.ser(), core.info().has_serde) {
                    if let Some(Ok(mut r)) = core.de(&img) {
                        if r.eq_dyn(g.as_ref()) == Some(true) {
                            let mut o2 = g.clone_box();
                            for k in 0..3 {
                                let mut ba = vec![0u8; 64];
                                let mut bb = vec![0u8; 64];
                                r.fill_bytes(&mut ba);
                                o2.fill_bytes(&mut bb);
                                if ba != bb {
                                    ctx.violation(&format!("C10:{}:equal-but-different-future", core_name), &format!("{}: the core after block {} of seed {} (a block with {}) and the core restored from its snapshot compare equal, but block {} after that differs", core_name, blocks - 1, crate::evidence::hex(&e.seed), e.what, k), json!({"kind":"note","event":crate::rare::describe(e)}));
                                    break;
                                }
                            }
                        }
                    }
                }
                for _ in 0..3 {
                    let mut ba = vec![0u8; 64];
                    let mut bb = vec![0u8; 64];
                    c.fill_bytes(&mut ba);
                    o.fill_bytes(&mut bb);
                    if ba != bb {
                        bad = true;
                    }
                }
                if bad {
                    ctx.violation(&format!("C10:{}:clone-diverges", core_name), &format!("{}: a clone of the core after block {} of seed {} (a block with {}) is not equal to / diverges from the original", core_name, blocks - 1, crate::evidence::hex(&e.seed), e.what), json!({"kind":"note","event":crate::rare::describe(e)}));
                }
            }
        }
    }
    // large pair sets for the hand-written == of the array-based types: N states of one
    // stream, one full table refresh apart, all pairwise distinct by construction; an == that compares
    // a lossy digest (fewer than ~2*log2(N) bits) equates two of them
    {
        let thorough = ctx.tier == crate::evidence::Tier::Thorough;
        let mut big: Vec<&'static dyn GenType> = reg.core_types();
        big.push(reg.get("Hc128Rng").unwrap());
        if !thorough {
            // quick: the type whose == is hand-written over a 4 KiB table and that offers no other way to
            // build states
            big.retain(|t| t.info().name == "Hc128Core");
        }
        for ty in big {
            let info = ty.info();
            // expected number of colliding pairs for a lossy 32-bit digest: n^2 / 2^33 (8 for 2^18, 2 for 2^17)
            let n: usize = if thorough && info.name.starts_with("Hc128") { 1 << 18 } else { 1 << 17 };
            let seed = standard_seeds(ty, ctx.seed)[1].clone();
            let mut g = ty.from_seed(&seed);
            let blocks_apart = if info.name.starts_with("Hc128") { 64 } else { 1 };
            let mut states: Vec<Box<dyn Gen>> = Vec::with_capacity(n);
            let mut buf = vec![0u8; 64];
            for _ in 0..n {
                states.push(g.clone_box());
                for _ in 0..blocks_apart {
                    if info.family == Family::Core {
                        g.next_u32();
                    } else {
                        g.fill_bytes(&mut buf);
                    }
                }
            }
            // read-only sharing of the states between worker threads (all generator types are Sync: the
            // compile-time probe of C19 asserts it)
            struct Shared(Vec<Box<dyn Gen>>);
            unsafe impl Sync for Shared {}
            let shared = Shared(states);
            let states = &shared;
            // wall budget: a comparison that has become much slower than the crate's (e.g. one without early
            // exit) must not turn this all-pairs sweep into hours; a cut sweep is reported as a cap, with the
            // pairs actually compared
            let budget = std::time::Duration::from_secs(if thorough { 3600 } else { 240 });
            let started = std::time::Instant::now();
            let done_pairs = std::sync::atomic::AtomicU64::new(0);
            let expired = std::sync::atomic::AtomicBool::new(false);
            let hits: Vec<(usize, usize)> = (0..n)
                .into_par_iter()
                .flat_map_iter(|i| {
                    let mut v = Vec::new();
                    if expired.load(std::sync::atomic::Ordering::Relaxed) {
                        return v.into_iter();
                    }
                    if i % 64 == 0 && started.elapsed() > budget {
                        expired.store(true, std::sync::atomic::Ordering::Relaxed);
                        return v.into_iter();
                    }
                    for j in i + 1..n {
                        if states.0[i].eq_dyn(states.0[j].as_ref()) == Some(true) {
                            v.push((i, j));
                        }
                    }
                    done_pairs.fetch_add((n - i - 1) as u64, std::sync::atomic::Ordering::Relaxed);
                    v.into_iter()
                })
                .collect();
            if expired.load(std::sync::atomic::Ordering::Relaxed) {
                ctx.cap_hit(&format!("{}: the all-pairs comparison of {} states was cut after {} s ({} of {} pairs compared)", info.name, n, budget.as_secs(), done_pairs.load(std::sync::atomic::Ordering::Relaxed), (n as u64) * (n as u64 - 1) / 2));
            }
            ctx.add("pairs_compared", done_pairs.load(std::sync::atomic::Ordering::Relaxed));
            ctx.add("large_pair_set_states", n as u64);
            for (i, j) in hits.into_iter().take(3) {
                let mut a = states.0[i].clone_box();
                let mut b = states.0[j].clone_box();
                let oa: Vec<Obs> = (0..4).map(|_| apply(&mut a, &Op::U64)).collect();
                let ob: Vec<Obs> = (0..4).map(|_| apply(&mut b, &Op::U64)).collect();
                if oa != ob {
                    ctx.violation(
                        &format!("C10:{}:equal-but-different-future", info.name),
                        &format!("{}: the states after {} and after {} steps of {} blocks from seed {} compare equal but return {:?} and {:?}", info.name, i, j, blocks_apart, crate::evidence::hex(&seed), oa.iter().map(|o| o.to_json()).collect::<Vec<_>>(), ob.iter().map(|o| o.to_json()).collect::<Vec<_>>()),
                        json!({"kind":"eq-deep-pair","type":info.name,"seed":crate::evidence::hex(&seed),"blocks_apart":blocks_apart,"i":i,"j":j}),
                    );
                }
            }
        }
    }
    let (n, f) = reg.isaac_array_probe();
    ctx.set("isaac_array_comparisons", n);
    if let Some(f) = f {
        ctx.violation("C10:IsaacArray:eq", &f, json!({"kind":"note","what":f}));
    }
    for c in ["equal_pairs_from_different_histories", "unequal_pairs_same_seed_buffered", "clones"] {
        if ctx.get(c) == 0 {
            ctx.machinery(&format!("anti-vacuity: counter {} is zero", c));
        }
    }
    let _ = Family::Core;
    // every `==` evaluated above was accompanied by `!=`: they must be negations of each other
    {
        let np = reg.eq_panics();
        ctx.set("eq_panics", np);
        if np > 0 {
            ctx.violation("C10:eq-panicked", &format!("{} comparisons with == / != panicked inside the crate", np), json!({"kind":"note","count":np}));
        }
        let n = reg.eq_ne_inconsistencies();
        ctx.set("eq_ne_inconsistencies", n);
        if n > 0 {
            ctx.violation("C10:eq-ne-inconsistent", &format!("in {} comparisons `a != b` was not the negation of `a == b` (a hand-written `ne`)", n), json!({"kind":"note","count":n}));
        }
    }
    ctx.set_exhaustive(true);
    Outcome {
        level: "model_checking",
        keys: EvidenceKeys {
            states: "states",
            transitions: "transitions",
            traces: "pairs_compared",
            evaluations: "pairs_compared",
            distinct: "states",
            rule: format!("states = every history up to depth {} over {{next_u32,next_u64,fill_bytes(3|9|block-3),jump,long_jump}} from every start offset and from 3+k seeds (ramp, dense, zero, dense with one word changed) for 20 generator types and 3 cores; every state is cloned and compared under all continuations of depth <= {}; every pair of states of one type is compared with == and, when equal, run under all continuations", depth, cdepth),
        },
    }
}
