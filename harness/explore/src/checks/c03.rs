//! C03 — IsaacRng / Isaac64Rng equal Jenkins' ISAAC / ISAAC-64.

use super::common::*;
use super::Outcome;
use crate::alphabet;
use crate::evidence::{hex, Ctx, EvidenceKeys, Tier};
use crate::ops::guarded;
use crate::subject::{Gen, GenType, Registry};
use rayon::prelude::*;
use refmodels::isaac::{Isaac, Isaac64};
use serde_json::json;

pub enum Model {
    I32(Isaac),
    I64(Isaac64),
}
impl Model {
    pub fn next(&mut self) -> u64 {
        match self {
            Model::I32(m) => m.rand() as u64,
            Model::I64(m) => m.rand(),
        }
    }
    fn cov(&self) -> (Vec<bool>, Vec<bool>) {
        match self {
            Model::I32(m) => (m.cov_ind1.to_vec(), m.cov_ind2.to_vec()),
            Model::I64(m) => (m.cov_ind1.to_vec(), m.cov_ind2.to_vec()),
        }
    }
}

pub fn compare(g: &mut Box<dyn Gen>, m: &mut Model, is64: bool, nwords: usize, what: &dyn Fn(String, usize) -> (String, serde_json::Value)) -> Result<u64, (String, serde_json::Value)> {
    for i in 0..nwords {
        let e = m.next();
        let r = guarded(|| if is64 { g.next_u64() } else { g.next_u32() as u64 }).map_err(|o| what(format!("panicked at word {}: {:?}", i, o), i))?;
        if r != e {
            return Err(what(format!("word {} (block {}, index {}) is {:#x}, reference gives {:#x}", i, i / 256, i % 256, r, e), i));
        }
    }
    Ok(nwords as u64)
}

pub fn run(reg: &dyn Registry, ctx: &Ctx) -> Outcome {
    let thorough = ctx.tier == Tier::Thorough;
    ctx.assume("ISAAC / ISAAC-64 models written in the readable.c style (golden ratio mixed at run time), validated against the unseeded and seeded reference vectors at start-up");
    let len = 32;
    for (name, is64) in [("IsaacRng", false), ("Isaac64Rng", true)] {
        let ty: &dyn GenType = reg.get(name).expect(name);
        let mut seeds = vec![alphabet::zero(len)];
        seeds.extend(seed_alphabet(len, true));
        seeds.extend(chain_seeds(ty, ctx.seed ^ is64 as u64, if thorough { 4000 } else { 1000 }));
        sample_seed(ctx, "stream", name, &seeds[900]);
        let words = 768;
        let res: Vec<_> = seeds
            .par_iter()
            .map(|s| {
                let mk = |w: String, pos: usize| (w, json!({"kind":"stream","type":name,"seed":hex(s),"position":pos,"words":words}));
                let mut g = match from_seed_guarded(ty, s) {
                    Ok(g) => g,
                    Err(e) => return (Err(mk(e, 0)), None),
                };
                let mut m = if is64 { Model::I64(Isaac64::from_seed_bytes(s)) } else { Model::I32(Isaac::from_seed_bytes(s)) };
                let r = compare(&mut g, &mut m, is64, words, &mk);
                (r, Some(m.cov()))
            })
            .collect();
        ctx.add("seeds", seeds.len() as u64);
        let mut c1 = vec![false; 256];
        let mut c2 = vec![false; 256];
        for (r, cov) in res {
            if let Some((a, b)) = cov {
                for i in 0..256 {
                    c1[i] |= a[i];
                    c2[i] |= b[i];
                }
            }
            match r {
                Ok(n) => ctx.add("words_compared", n),
                Err((w, replay)) => ctx.violation(&format!("C03:{}:stream", name), &format!("{}: {}", name, w), replay),
            }
        }
        ctx.set(&format!("{}_ind1_indices_hit", name), c1.iter().filter(|&&b| b).count() as u64);
        ctx.set(&format!("{}_ind2_indices_hit", name), c2.iter().filter(|&&b| b).count() as u64);
        if c1.iter().any(|&b| !b) || c2.iter().any(|&b| !b) {
            ctx.machinery(&format!("{}: not all 256 indirection indices were exercised", name));
        }
        // the bare block core (public, used with rand_core's BlockRng): whole blocks in the same order
        {
            let core_name = if is64 { "Isaac64Core" } else { "IsaacCore" };
            let core: &dyn GenType = reg.core_types().into_iter().find(|c| c.info().name == core_name).expect(core_name);
            let wb = if is64 { 8 } else { 4 };
            let res: Vec<_> = seeds
                .par_iter()
                .map(|s| {
                    let mk = |w: String, pos: usize| (w, json!({"kind":"note","type":core_name,"seed":hex(s),"position":pos}));
                    let mut g = from_seed_guarded(core, s).map_err(|e| mk(e, 0))?;
                    let mut m = if is64 { Model::I64(Isaac64::from_seed_bytes(s)) } else { Model::I32(Isaac::from_seed_bytes(s)) };
                    let mut buf = vec![0u8; 256 * wb * 3];
                    guarded(|| g.fill_bytes(&mut buf)).map_err(|o| mk(format!("generate panicked: {:?}", o), 0))?;
                    for (i, c) in buf.chunks(wb).enumerate() {
                        let mut b = [0u8; 8];
                        b[..wb].copy_from_slice(c);
                        let r = u64::from_le_bytes(b);
                        let e = m.next();
                        if r != e {
                            return Err(mk(format!("word {} of block {} is {:#x}, reference gives {:#x}", i % 256, i / 256, r, e), i));
                        }
                    }
                    Ok(768u64)
                })
                .collect();
            ctx.add("core_seeds", seeds.len() as u64);
            for r in res {
                match r {
                    Ok(n) => ctx.add("words_compared", n),
                    Err((w, replay)) => ctx.violation(&format!("C03:{}:blocks", core_name), &format!("{}: {}", core_name, w), replay),
                }
            }
        }
        // long runs
        let blocks = if thorough { 1 << 18 } else { 1 << 14 };
        let mut long_seeds = vec![alphabet::zero(len), alphabet::ones(len)];
        long_seeds.extend(alphabet::w1(len).into_iter().step_by(if thorough { 8 } else { 32 }));
        long_seeds.extend(chain_seeds(ty, ctx.seed ^ 0x33, 30));
        let res: Vec<_> = long_seeds
            .par_iter()
            .map(|s| {
                let mk = |w: String, pos: usize| (w, json!({"kind":"stream","type":name,"seed":hex(s),"position":pos,"words":blocks*256}));
                let mut g = from_seed_guarded(ty, s).map_err(|e| mk(e, 0))?;
                let mut m = if is64 { Model::I64(Isaac64::from_seed_bytes(s)) } else { Model::I32(Isaac::from_seed_bytes(s)) };
                compare(&mut g, &mut m, is64, blocks * 256, &mk)
            })
            .collect();
        ctx.add("long_seeds", long_seeds.len() as u64);
        for r in res {
            match r {
                Ok(n) => ctx.add("words_compared", n),
                Err((w, replay)) => ctx.violation(&format!("C03:{}:stream-long", name), &format!("{}: {}", name, w), replay),
            }
        }
        // deep runs (thorough): 2^30 words from 8 dense seeds
        if thorough {
            let deep = chain_seeds(ty, ctx.seed ^ 0x3D, 8);
            let words = 1usize << 30;
            let res: Vec<_> = deep
                .par_iter()
                .map(|s| {
                    let mk = |w: String, pos: usize| (w, json!({"kind":"stream","type":name,"seed":hex(s),"position":pos,"words":words}));
                    let mut g = from_seed_guarded(ty, s).map_err(|e| mk(e, 0))?;
                    let mut m = if is64 { Model::I64(Isaac64::from_seed_bytes(s)) } else { Model::I32(Isaac::from_seed_bytes(s)) };
                    compare(&mut g, &mut m, is64, words, &mk)
                })
                .collect();
            ctx.add("long_seeds", deep.len() as u64);
            for r in res {
                match r {
                    Ok(n) => ctx.add("words_compared", n),
                    Err((w, replay)) => ctx.violation(&format!("C03:{}:stream-deep", name), &format!("{}: {}", name, w), replay),
                }
            }
        }
        // every triple of seed bits, first block + 8 words
        {
            let n = 256;
            let res: Vec<_> = (0..n)
                .into_par_iter()
                .map(|i| {
                    let mut cnt = 0u64;
                    let mut first = None;
                    for j in i + 1..n {
                        for k in j + 1..n {
                            let s = alphabet::with_bits(len, &[i, j, k]);
                            let mk = |w: String, pos: usize| (w, json!({"kind":"stream","type":name,"seed":hex(&s),"position":pos,"words":264}));
                            let r = (|| {
                                let mut g = from_seed_guarded(ty, &s).map_err(|e| mk(e, 0))?;
                                let mut m = if is64 { Model::I64(Isaac64::from_seed_bytes(&s)) } else { Model::I32(Isaac::from_seed_bytes(&s)) };
                                compare(&mut g, &mut m, is64, 264, &mk)
                            })();
                            match r {
                                Ok(w) => cnt += w,
                                Err(e) => {
                                    if first.is_none() {
                                        first = Some(e)
                                    }
                                }
                            }
                        }
                    }
                    (cnt, first)
                })
                .collect();
            for (cnt, first) in res {
                ctx.add("words_compared", cnt);
                ctx.add("w3_seeds", cnt / 264);
                if let Some((w, replay)) = first {
                    ctx.violation(&format!("C03:{}:stream", name), &format!("{}: {}", name, w), replay);
                }
            }
        }
        // rare reachable events found on the reference model: lock-step through each of them
        {
            let kind = if is64 { crate::rare::Kind::Isaac64 } else { crate::rare::Kind::Isaac };
            let (evs, words) = crate::rare::events_for(kind, ctx.seed, thorough);
            ctx.add("rare_event_search_words", words);
            ctx.add("rare_events_visited", evs.len() as u64);
            let res: Vec<_> = evs
                .par_iter()
                .map(|e| {
                    let n = e.word_index as usize + 600;
                    let mk = |w: String, pos: usize| (w, json!({"kind":"stream","type":name,"seed":hex(&e.seed),"position":pos,"words":n}));
                    let r = (|| {
                        let mut g = from_seed_guarded(ty, &e.seed).map_err(|x| mk(x, 0))?;
                        let mut m = if is64 { Model::I64(Isaac64::from_seed_bytes(&e.seed)) } else { Model::I32(Isaac::from_seed_bytes(&e.seed)) };
                        compare(&mut g, &mut m, is64, n, &mk)
                    })();
                    (r, e)
                })
                .collect();
            for (r, e) in res {
                match r {
                    Ok(n) => ctx.add("words_compared", n),
                    Err((w, replay)) => ctx.violation(&format!("C03:{}:stream-event", name), &format!("{}: at a stream position with {} ({}): {}", name, e.what, crate::rare::describe(e), w), replay),
                }
            }
        }
        // seed_from_u64(0) == the reference generator used unseeded (randinit(FALSE))
        {
            let mk = |w: String, pos: usize| (w, json!({"kind":"stream-u64","type":name,"x":0,"position":pos,"words":1024}));
            let r = (|| {
                let mut g = guarded(|| ty.seed_from_u64(0)).map_err(|o| mk(format!("seed_from_u64(0) panicked: {:?}", o), 0))?;
                let zero = [0u32; 256];
                let zero64 = [0u64; 256];
                let mut m = if is64 { Model::I64(Isaac64::init(&zero64, 1)) } else { Model::I32(Isaac::init(&zero, 1)) };
                compare(&mut g, &mut m, is64, 1024, &mk)
            })();
            ctx.add("seeds", 1);
            match r {
                Ok(n) => ctx.add("words_compared", n),
                Err((w, replay)) => ctx.violation(&format!("C03:{}:unseeded", name), &format!("{}: seed_from_u64(0): {}", name, w), replay),
            }
        }
    }
    ctx.set("states", ctx.get("seeds") + ctx.get("core_seeds") + ctx.get("long_seeds") + ctx.get("w3_seeds"));
    ctx.set("transitions", ctx.get("words_compared"));
    ctx.set_exhaustive(true);
    Outcome {
        level: "model_checking",
        keys: EvidenceKeys {
            states: "states",
            transitions: "transitions",
            traces: "states",
            evaluations: "states",
            distinct: "seeds",
            rule: "per generator: seeds = Z, O, every single bit and every pair of seed bits, walking zeros, byte probes, dense chained seeds (distinct by construction); each compared with the reference for all 768 words of the first 3 blocks, through the generator and through the bare block core; a subset for 2^14 (quick) / 2^18 (thorough) blocks; seed_from_u64(0) against the unseeded reference for 4 blocks; every triple of seed bits (W3) is compared for the first block + 8 words".into(),
        },
    }
}
