//! C14 — no generator operation panics or overflows, for any input, history or timer.
//! The harness is built with overflow checks and debug assertions on (profile "checked-fast").

use super::c13;
use super::common::*;
use super::makers::*;
use super::statespace::*;
use super::Outcome;
use crate::alphabet;
use crate::evidence::{hex, Ctx, EvidenceKeys, Tier};
use crate::histories::Maker;
use crate::jitter_env::{self, deviate, DEV_MENU};
use crate::ops::{apply, guarded, ops_json, ops_short, Obs, Op};
use crate::subject::{FallibleSource, FaultMode, GenType, Registry, ScriptSource, TimerScript};
use rayon::prelude::*;
use serde_json::json;

fn panic_msg(o: &Obs) -> Option<&str> {
    match o {
        Obs::Panic(m) => Some(m),
        _ => None,
    }
}

/// readings of one collection from a list of probe deltas (prime, then [lc][probe][lc] per measurement)
pub fn collection_script(deltas: &[i64]) -> Vec<u64> {
    let mut t: u64 = 1 << 45;
    let mut r = vec![t];
    for &d in deltas {
        r.push(t.wrapping_add(1));
        t = t.wrapping_add(d as u64);
        r.push(t);
        r.push(t.wrapping_add(1));
    }
    r
}

fn benign_delta(i: usize) -> i64 {
    900 + ((i * i * 31 + i * 7) % 211) as i64 * 3 + (i % 5) as i64 * 57
}

pub fn run(reg: &dyn Registry, ctx: &Ctx) -> Outcome {
    let thorough = ctx.tier == Tier::Thorough;
    ctx.assume("harness and crates built with overflow-checks = on and debug-assertions = on; every call into the crates runs under catch_unwind; a scripted timer running out is 'did not return', not a panic");
    let mut all_types: Vec<&'static dyn GenType> = reg.types();
    all_types.extend(reg.core_types());

    // (a1) histories on every deterministic type
    let depth = ctx.tier.pick(3, 4);
    let _: Vec<()> = all_types
        .par_iter()
        .map(|ty| {
            let info = ty.info();
            let makers: Vec<Box<dyn Maker>> = standard_seeds(*ty, ctx.seed).into_iter().map(|s| Box::new(SeedMaker { ty: *ty, seed: s }) as Box<dyn Maker>).collect();
            let states = build_states(&makers, depth);
            for s in &states {
                let mut g = makers[s.maker].make();
                ctx.add("histories", 1);
                for (i, op) in s.history.iter().enumerate() {
                    let o = apply(&mut g, op);
                    ctx.add("transitions", 1);
                    if let Some(m) = panic_msg(&o) {
                        ctx.violation(&format!("C14:{}:history:{}", info.name, op.short()), &format!("{}: {} panicked after {}: {}", info.name, op.short(), ops_short(&s.history[..i]), m), json!({"kind":"history","type":info.name,"ctor":makers[s.maker].describe(),"ops":ops_json(&s.history[..=i])}));
                        break;
                    }
                }
            }
            // every fill length 0..=130 and around block sizes, from every start offset
            let mut lens: Vec<usize> = (0..=130).collect();
            if let Some(b) = info.block_words {
                let bb = b * info.word_bits / 8;
                lens.extend([bb - 1, bb, bb + 1, 2 * bb - 1, 2 * bb, 2 * bb + 1, 3 * bb + 5]);
            }
            lens.extend([255, 256, 257, 1000, 4096, 65537]);
            for mk in makers.iter().take(2) {
                let starts = if info.family == crate::subject::Family::Core { vec![(0usize, false)] } else { super::c05::start_prefixes(info) };
                for (w, half) in starts {
                    let prefix = super::c05::prefix_ops(info, w, half);
                    for &n in &lens {
                        let mut g = crate::histories::rebuild(mk.as_ref(), &prefix);
                        let o = apply(&mut g, &Op::Fill(n));
                        let o2 = apply(&mut g, &Op::U64);
                        ctx.add("transitions", 2);
                        ctx.add("histories", 1);
                        for o in [&o, &o2] {
                            if let Some(m) = panic_msg(o) {
                                ctx.violation(&format!("C14:{}:fill", info.name), &format!("{}: fill_bytes({}) / next_u64 panicked after {} native words: {}", info.name, n, w, m), json!({"kind":"history","type":info.name,"ctor":mk.describe(),"ops":ops_json(&[prefix.clone(), vec![Op::Fill(n), Op::U64]].concat())}));
                            }
                        }
                    }
                }
            }
            // long runs: counters
            let blocks = if thorough { 1 << 22 } else { 1 << 18 };
            let words = info.block_words.unwrap_or(100) * blocks;
            let mut g = makers[1].make();
            let r = guarded(|| {
                if info.family == crate::subject::Family::Core {
                    for _ in 0..blocks {
                        g.next_u32();
                    }
                } else {
                    let mut buf = vec![0u8; 4096];
                    let mut left = words * info.word_bits / 8;
                    while left > 0 {
                        let n = left.min(4096);
                        g.fill_bytes(&mut buf[..n]);
                        left -= n;
                    }
                    g.next_u32();
                    g.next_u64();
                }
            });
            ctx.add("long_run_words", words as u64);
            ctx.add("transitions", (words / 512) as u64);
            if let Err(o) = r {
                ctx.violation(&format!("C14:{}:long-run", info.name), &format!("{}: panicked during a run of {} blocks / {} words: {:?}", info.name, blocks, words, o), json!({"kind":"long-run","type":info.name,"ctor":makers[1].describe(),"words":words}));
            }
            if info.linear_bits.is_some() {
                // value-directed states: those whose jump()/long_jump() image, or whose successor, is special
                // (a zero word, equal words, words summing to zero, ...), and the special states themselves
                for (_, opname, sb) in super::c18aux::for_type(*ty, ctx.seed) {
                    let op = match opname {
                        "jump" => Op::Jump,
                        "long_jump" => Op::LongJump,
                        _ => Op::U32,
                    };
                    let r = guarded(|| {
                        let mut g = ty.from_seed(&sb);
                        let o = apply(&mut g, &op);
                        let mut o2 = apply(&mut g, &Op::U64);
                        for extra in [Op::U32, Op::U64, Op::Fill(9)] {
                            let o3 = apply(&mut g, &extra);
                            if o3.is_panic() {
                                o2 = o3;
                            }
                        }
                        (o, o2)
                    });
                    ctx.add("transitions", 2);
                    ctx.add("jump_special_states", 1);
                    let bad = match &r {
                        Ok((a, b)) => a.is_panic() || b.is_panic(),
                        Err(_) => true,
                    };
                    if bad {
                        ctx.violation(&format!("C14:{}:jump", info.name), &format!("{}: {} from state {} (which has, or whose image has, a special word pattern) panicked: {:?}", info.name, opname, hex(&sb), r), json!({"kind":"history","type":info.name,"ctor":{"from_seed":hex(&sb)},"ops":ops_json(&[op.clone(), Op::U64])}));
                    }
                }
            }
            if info.has_jump {
                let mut g = makers[1].make();
                for _ in 0..64 {
                    for op in [Op::Jump, Op::LongJump, Op::U64] {
                        if let Some(m) = panic_msg(&apply(&mut g, &op)) {
                            ctx.violation(&format!("C14:{}:jump", info.name), &format!("{}: {} panicked: {}", info.name, op.short(), m), json!({"kind":"note"}));
                        }
                        ctx.add("transitions", 1);
                    }
                }
            }

            // (a2) constructors
            if info.family != crate::subject::Family::Core {
                let len = info.seed_len;
                let mut seeds = vec![alphabet::zero(len)];
                seeds.extend(seed_alphabet(len, len <= 32 || thorough));
                for s in &seeds {
                    ctx.add("constructor_calls", 1);
                    match guarded(|| {
                        let mut g = ty.from_seed(s);
                        g.next_u32();
                        g.next_u64();
                    }) {
                        Ok(_) => {}
                        Err(o) => ctx.violation(&format!("C14:{}:from_seed", info.name), &format!("{}: from_seed({}) or the first outputs panicked: {:?}", info.name, hex(s), o), json!({"kind":"history","type":info.name,"ctor":{"from_seed":hex(s)},"ops":["next_u32","next_u64"]})),
                    }
                }
                let mut xs = alphabet::u64_alphabet();
                xs.extend(0..if thorough { 1 << 20 } else { 1 << 17 });
                let dense = alphabet::bg_bytes(ctx.seed, 0x1401, 8 * 20000);
                xs.extend(dense.chunks(8).map(|c| u64::from_le_bytes(c.try_into().unwrap())));
                for x in xs {
                    ctx.add("constructor_calls", 1);
                    if let Err(o) = guarded(|| {
                        let mut g = ty.seed_from_u64(x);
                        g.next_u32();
                    }) {
                        ctx.violation(&format!("C14:{}:seed_from_u64", info.name), &format!("{}: seed_from_u64({:#x}) or the first output panicked: {:?}", info.name, x, o), json!({"kind":"history","type":info.name,"ctor":{"seed_from_u64":x},"ops":["next_u32"]}));
                    }
                }
                // sources: zero blocks, short scripts (the filler continues), failing sources
                let n = match info.family {
                    crate::subject::Family::Isaac => 1024,
                    crate::subject::Family::Isaac64 => 2048,
                    _ => len,
                };
                for z in 0..6usize {
                    for tailv in [0x00u8, 0x01, 0xff] {
                        let mut script = vec![0u8; z * n];
                        script.extend(std::iter::repeat(tailv).take(n));
                        script.extend(alphabet::bg_bytes(ctx.seed, 0x1402, 2 * n));
                        ctx.add("constructor_calls", 2);
                        let mut src = ScriptSource::new(script.clone());
                        if let Err(o) = guarded(|| {
                            let mut g = ty.from_rng(&mut src);
                            g.next_u64();
                        }) {
                            ctx.violation(&format!("C14:{}:from_rng", info.name), &format!("{}: from_rng panicked ({} zero blocks then {:#x}..): {:?}", info.name, z, tailv, o), json!({"kind":"note"}));
                        }
                        for f in 0..3usize {
                            for mode in [FaultMode::Untouched, FaultMode::Partial, FaultMode::Full] {
                                let mut fs = FallibleSource::new(script.clone(), Some(f), mode, 5);
                                ctx.add("constructor_calls", 1);
                                if let Err(o) = guarded(|| {
                                    if let Ok(mut g) = ty.try_from_rng(&mut fs) {
                                        g.next_u64();
                                    }
                                }) {
                                    ctx.violation(&format!("C14:{}:try_from_rng", info.name), &format!("{}: try_from_rng panicked (fail at call {} {:?}): {:?}", info.name, f, mode, o), json!({"kind":"note"}));
                                }
                            }
                        }
                    }
                }
            }
            if info.name == "Hc128Rng" {
                ctx.sample(json!({"type": info.name, "histories": states.len(), "fill_lengths": lens.len(), "long_run_blocks": blocks}));
            }
        })
        .collect();

    // (b) JitterRng under hostile timers
    let jit_run = |readings: Vec<u64>, ops: &[Op], what: &str, key: &str| {
        let script = TimerScript::new(readings.clone());
        let mut g = reg.jitter(script);
        ctx.add("jitter_executions", 1);
        for (i, op) in ops.iter().enumerate() {
            let o = apply(&mut g, op);
            ctx.add("transitions", 1);
            match o {
                Obs::Panic(m) => {
                    ctx.violation(
                        &format!("C14:jitter:{}:{}", key, op.short()),
                        &format!("JitterRng: {} panicked ({}): {}", op.short(), what, m),
                        json!({"kind":"jitter","ops":ops_json(&ops[..=i]),"readings":readings,"what":what}),
                    );
                    return;
                }
                Obs::Horizon => {
                    ctx.add("jitter_did_not_return", 1);
                    return;
                }
                _ => {}
            }
        }
    };
    // single deviations of the C12 menu at every position
    for rounds in [1u8, 2, 3] {
        for ops in [vec![Op::SetRounds(rounds), Op::U64, Op::U32], vec![Op::SetRounds(rounds), Op::TimerStats(true), Op::Fill(9)], vec![Op::TimerStats(false), Op::SetRounds(rounds), Op::Fill(4)]] {
            let need = 2 * jitter_env::readings_per_word(rounds) + 8;
            let base = jitter_env::raw_readings(ctx.seed ^ 0x14, need + 60);
            for pos in 0..need {
                for &k in DEV_MENU.iter().chain([crate::jitter_env::Dev::Zero].iter()) {
                    jit_run(deviate(&base, &[(pos, k)]), &ops, &format!("deviation {:?} at reading {}", k, pos), "deviation");
                }
            }
        }
    }
    // long runs of consecutive stuck measurements (any retry bound, narrow retry counter or the
    // memory-access noise buffer's byte counters): k = 2^j-1, 2^j, 2^j+1 up to 8193 (quick) / 65537
    {
        let lens = jitter_env::run_lengths(if thorough { 65536 } else { 8192 });
        let maxk = *lens.last().unwrap();
        let base = jitter_env::raw_readings(ctx.seed ^ 0x14AA, 3 * jitter_env::readings_per_word(3) + 3 * maxk + 200);
        let jobs: Vec<(u8, usize, crate::jitter_env::Dev)> = [1u8, 3].iter().flat_map(|&r| lens.iter().flat_map(move |&k| [crate::jitter_env::Dev::Repeat3, crate::jitter_env::Dev::SameDelta, crate::jitter_env::Dev::Arith].into_iter().map(move |d| (r, k, d)))).collect();
        jobs.par_iter().for_each(|&(rounds, k, kind)| {
            let per = jitter_env::readings_per_word(rounds);
            let rd = jitter_env::with_stuck_run(&base[..(3 * per + 3 * k + 150).min(base.len())], per + 5, k, kind);
            jit_run(rd, &[Op::SetRounds(rounds), Op::U32, Op::U64, Op::U32], &format!("{} consecutive stuck measurements ({:?}) in the second collection, rounds {}", k, kind, rounds), "stuck-run");
        });
        ctx.set("longest_stuck_run", maxk as u64);
    }
    // a long life of one object (per-object accumulators): 2^16 + 8 collections, with a clone half-way
    {
        let n = (1usize << 16) + 8;
        let rd = jitter_env::raw_readings(ctx.seed ^ 0x1416, n * jitter_env::readings_per_word(1) + 64);
        let script = TimerScript::new(rd);
        let mut g = reg.jitter(script);
        let r = guarded(|| {
            g.jitter().unwrap().set_rounds(1);
            for i in 0..n {
                if i % 3 == 0 {
                    g.next_u32();
                } else {
                    g.next_u64();
                }
                if i == n / 2 {
                    let mut c = g.clone_box();
                    c.next_u64();
                }
            }
        });
        ctx.add("jitter_executions", 1);
        ctx.add("transitions", n as u64);
        if let Err(o) = r {
            if !matches!(o, Obs::Horizon) {
                ctx.violation("C14:jitter:long-life", &format!("JitterRng: panicked during a life of {} collections: {:?}", n, o), json!({"kind":"note","collections":n}));
            }
        }
    }
    // the largest round counts (u8 bookkeeping of the rounds loop): every deviation kind at the priming
    // probe, at the first and second counted measurement and at the last one
    for rounds in [254u8, 255] {
        let per = jitter_env::readings_per_word(rounds);
        let base = jitter_env::raw_readings(ctx.seed ^ 0x14FF ^ rounds as u64, 2 * per + 200);
        for &k in DEV_MENU.iter().chain([crate::jitter_env::Dev::Zero].iter()) {
            for pos in [2usize, 5, 8, per - 2, per + 5] {
                let rd = deviate(&base, &[(pos, k)]);
                let mut g = reg.jitter(TimerScript::new(rd));
                let r = guarded(|| {
                    g.jitter().unwrap().set_rounds(rounds);
                    g.next_u64();
                    g.next_u32();
                });
                ctx.add("jitter_executions", 1);
                ctx.add("transitions", 2);
                if let Err(o) = r {
                    if !matches!(o, Obs::Horizon) {
                        ctx.violation("C14:jitter:deviation:max-rounds", &format!("JitterRng: rounds {} with deviation {:?} at reading {}: panicked: {:?}", rounds, k, pos, o), json!({"kind":"note","rounds":rounds,"deviation":format!("{:?}",k),"position":pos}));
                    }
                }
            }
        }
    }
    // comparisons made anywhere in this run that panicked inside the crate
    {
        let np = reg.eq_panics();
        ctx.set("eq_panics", np);
        if np > 0 {
            ctx.violation("C14:eq-panicked", &format!("{} comparisons with == / != panicked inside the crate", np), json!({"kind":"note","count":np}));
        }
    }
    // the public seed wrapper type: Debug under many formatting-flag combinations, AsRef / AsMut / Default
    {
        let (n, bad) = reg.seed_type_format_probe();
        ctx.add("seed_type_format_calls", n);
        ctx.add("transitions", n);
        if let Some(w) = bad {
            ctx.violation("C14:Seed512:format", &w, json!({"kind":"note","what":w}));
        }
    }
    // bursts of three consecutive probe deltas
    let menu: Vec<i64> = vec![0, 1, -1, 1 << 30, -(1 << 30), -(1 << 30) + 1, (1 << 30) + (1 << 29), -((1 << 30) + (1 << 29)), (1i64 << 31) - 1, -(1i64 << 31), (1i64 << 31) + 5, (1i64 << 32) - 1];
    let mut bursts: Vec<(i64, i64, i64)> = Vec::new();
    for &a in &menu {
        for &b in &menu {
            for &c in &menu {
                bursts.push((a, b, c));
            }
        }
    }
    ctx.set("burst_patterns", bursts.len() as u64);
    bursts.par_iter().for_each(|&(a, b, c)| {
        for rounds in [1u8, 2, 3] {
            let nmeas = rounds as usize + 1;
            for m in 0..nmeas {
                let mut deltas: Vec<i64> = (0..nmeas + 14).map(benign_delta).collect();
                deltas[m] = a;
                deltas[m + 1] = b;
                deltas[m + 2] = c;
                jit_run(collection_script(&deltas), &[Op::SetRounds(rounds), Op::U64], &format!("probe deltas {:?} from measurement {} (rounds {})", (a, b, c), m, rounds), "overflow");
            }
        }
    });
    // test_timer: bursts at selected probes, and all C13 scripts
    let base = c13::healthy();
    let probes_at = [0usize, 1, 99, 100, 101, 250, 397];
    let tt_bursts: Vec<&(i64, i64, i64)> = if thorough { bursts.iter().collect() } else { bursts.iter().step_by(3).collect() };
    tt_bursts.par_iter().for_each(|&&(a, b, c)| {
        for &p in &probes_at {
            let mut pr = base.clone();
            pr[p].d = a;
            pr[p + 1].d = b;
            pr[p + 2].d = c;
            jit_run(c13::build(&pr), &[Op::TestTimer], &format!("test_timer with probe differences {:?} at probes {}..", (a, b, c), p), "overflow");
        }
    });
    let cs = c13::cases(false);
    cs.par_iter().for_each(|c| {
        jit_run(c13::build(&c.probes), &[Op::TestTimer, Op::SetRounds(2)], &format!("test_timer script {}", c.label), "test_timer");
    });
    ctx.sample(json!({"jitter_burst_example": format!("{:?}", bursts[bursts.len() / 2]), "menu": menu}));
    ctx.set("states", ctx.get("histories") + ctx.get("constructor_calls") + ctx.get("jitter_executions"));
    ctx.set_exhaustive(true);
    Outcome {
        level: "model_checking",
        keys: EvidenceKeys {
            states: "states",
            transitions: "transitions",
            traces: "jitter_executions",
            evaluations: "states",
            distinct: "states",
            rule: "every history up to the stated depth from every start offset for 20 generator types + 3 cores; every fill_bytes length 0..=130, around 1..3 blocks and 255..65537; 2^18 (quick) / 2^22 (thorough) block runs; every constructor on the seed alphabets, 2^17 (2^20) consecutive + dense u64 arguments, zero-block and failing sources; JitterRng: one deviation of 13 kinds at every reading position, all 12^3 bursts of three consecutive probe deltas (incl. +-2^30, +-(2^30+2^29), 2^31-1, -2^31, 2^32-1) at every measurement of a collection (rounds 1..3) and at 7 probe positions of test_timer, and all C13 scripts; oracle: no panic".into(),
        },
    }
}
