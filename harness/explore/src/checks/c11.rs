//! C11 — a serde (bincode) snapshot at any point restores a generator with the identical future.

use super::common::*;
use super::makers::*;
use super::statespace::*;
use super::Outcome;
use crate::alphabet;
use crate::evidence::{hex, Ctx, EvidenceKeys, Tier};
use crate::histories::Maker;
use crate::ops::{apply, guarded, ops_json, ops_short, Obs, Op};
use crate::subject::{Gen, GenType, Registry};
use rayon::prelude::*;
use serde_json::json;

fn roundtrip(ty: &dyn GenType, g: &dyn Gen) -> Result<(Vec<u8>, Box<dyn Gen>), String> {
    let bytes = guarded(|| g.ser()).map_err(|o| format!("serialize panicked: {:?}", o))?.ok_or("not serialisable")?;
    let r = guarded(|| ty.de(&bytes)).map_err(|o| format!("deserialize panicked: {:?}", o))?;
    match r {
        Some(Ok(r)) => Ok((bytes, r)),
        Some(Err(e)) => Err(format!("deserialize failed: {}", e)),
        None => Err("not deserialisable".into()),
    }
}

pub fn run(reg: &dyn Registry, ctx: &Ctx) -> Outcome {
    let thorough = ctx.tier == Tier::Thorough;
    let depth = ctx.tier.pick(2, 3);
    let types: Vec<&'static dyn GenType> = reg.types().into_iter().filter(|t| t.info().has_serde).collect();
    ctx.assume("snapshot formats: bincode 1.3.3 (compact, not self-describing) and serde_json (human-readable, self-describing); the harness builds the crates with their `serde` feature");
    let _: Vec<()> = types
        .par_iter()
        .map(|ty| {
            let info = ty.info();
            let makers: Vec<Box<dyn Maker>> = standard_seeds(*ty, ctx.seed).into_iter().map(|s| Box::new(SeedMaker { ty: *ty, seed: s }) as Box<dyn Maker>).collect();
            let states = build_states(&makers, depth);
            let conts: Vec<Vec<Op>> = all_histories(&compact_alphabet(info), 2).into_iter().filter(|c| !c.is_empty()).collect();
            let mut mid_block = 0u64;
            let mut half = 0u64;
            // (a) snapshot at every state of the history space
            for (si, s) in states.iter().enumerate() {
                let g = materialise(&makers, s);
                ctx.add("states", 1);
                let key = |k: &str| format!("C11:{}:{}", info.name, k);
                let rep = |extra: serde_json::Value| json!({"kind":"snapshot","type":info.name,"maker":makers[s.maker].describe(),"ops":ops_json(&s.history),"detail":extra});
                let (bytes, r) = match roundtrip(*ty, g.as_ref()) {
                    Ok(x) => x,
                    Err(e) => {
                        ctx.violation(&key("roundtrip"), &format!("{}: snapshot after {}: {}", info.name, ops_short(&s.history), e), rep(json!(null)));
                        continue;
                    }
                };
                ctx.add("snapshots", 1);
                if s.history.last() == Some(&Op::U32) && info.word_bits == 64 && info.block_words.is_some() {
                    half += 1;
                }
                if info.block_words.is_some() && !s.history.is_empty() {
                    mid_block += 1;
                }
                if info.has_eq && r.eq_dyn(g.as_ref()) != Some(true) {
                    ctx.violation(&key("restored-not-equal"), &format!("{}: generator restored from a snapshot after {} does not compare equal to the original", info.name, ops_short(&s.history)), rep(json!(null)));
                    continue;
                }
                if r.ser().as_deref() != Some(&bytes[..]) {
                    // informational only: the property does not require byte-identical re-serialisation
                    ctx.add("reserialize_differences_info", 1);
                }
                let every = if si % 4 == 0 { 1 } else { 5 };
                for (ci, cont) in conts.iter().enumerate() {
                    if ci % every != 0 {
                        continue;
                    }
                    // restored copy vs a replayed copy that was never serialised vs the serialised original
                    let mut fresh = materialise(&makers, s);
                    let mut orig = materialise(&makers, s);
                    let _ = orig.ser();
                    let (_, mut rest) = roundtrip(*ty, orig.as_ref()).unwrap();
                    let of: Vec<Obs> = cont.iter().map(|o| apply(&mut fresh, o)).collect();
                    let oo: Vec<Obs> = cont.iter().map(|o| apply(&mut orig, o)).collect();
                    let or: Vec<Obs> = cont.iter().map(|o| apply(&mut rest, o)).collect();
                    ctx.add("transitions", 3 * cont.len() as u64);
                    if or != of {
                        ctx.violation(
                            &key("restored-diverges"),
                            &format!("{}: snapshot after {}: under {} the restored generator returns {:?}, the original {:?}", info.name, ops_short(&s.history), ops_short(cont), or.iter().map(|o| o.to_json()).collect::<Vec<_>>(), of.iter().map(|o| o.to_json()).collect::<Vec<_>>()),
                            rep(json!({"continuation": ops_json(cont)})),
                        );
                        break;
                    }
                    if oo != of {
                        ctx.violation(&key("original-disturbed"), &format!("{}: serialising after {} disturbed the original (continuation {})", info.name, ops_short(&s.history), ops_short(cont)), rep(json!({"continuation": ops_json(cont)})));
                        break;
                    }
                }
                // Deserialize::deserialize_in_place: the snapshot restored *into* an existing generator (a fresh
                // one and one in another state)
                for (tname, mut target) in [("a fresh generator", makers[s.maker].make()), ("a generator in another state", materialise(&makers, &states[(si + 1) % states.len()]))] {
                    match guarded(|| target.de_in_place(&bytes)) {
                        Ok(Some(Ok(()))) => {
                            ctx.add("in_place_restores", 1);
                            if info.has_eq && target.eq_dyn(g.as_ref()) != Some(true) {
                                ctx.violation(&key("in-place-restored-not-equal"), &format!("{}: {} overwritten by deserialize_in_place with the snapshot after {} does not compare equal to the original", info.name, tname, ops_short(&s.history)), rep(json!({"in_place_target": tname})));
                                break;
                            }
                            let cont = &conts[(si + 2) % conts.len()];
                            let mut fresh = materialise(&makers, s);
                            let of: Vec<Obs> = cont.iter().map(|o| apply(&mut fresh, o)).collect();
                            let ot: Vec<Obs> = cont.iter().map(|o| apply(&mut target, o)).collect();
                            ctx.add("transitions", 2 * cont.len() as u64);
                            if of != ot {
                                ctx.violation(&key("in-place-restored-diverges"), &format!("{}: {} overwritten by deserialize_in_place with the snapshot after {}: under {} it returns {:?}, the original {:?}", info.name, tname, ops_short(&s.history), ops_short(cont), ot.iter().map(|o| o.to_json()).collect::<Vec<_>>(), of.iter().map(|o| o.to_json()).collect::<Vec<_>>()), rep(json!({"in_place_target": tname, "continuation": ops_json(cont)})));
                                break;
                            }
                        }
                        Ok(Some(Err(e))) => {
                            ctx.violation(&key("in-place-roundtrip"), &format!("{}: deserialize_in_place of the snapshot after {} into {} failed: {}", info.name, ops_short(&s.history), tname, e), rep(json!({"in_place_target": tname})));
                            break;
                        }
                        Ok(None) => break,
                        Err(o) => {
                            ctx.violation(&key("in-place-roundtrip"), &format!("{}: deserialize_in_place of the snapshot after {} into {} panicked: {:?}", info.name, ops_short(&s.history), tname, o), rep(json!({"in_place_target": tname})));
                            break;
                        }
                    }
                }
                // two snapshots in one stream (this state, then the next state of the set): each must come back
                // as itself (a deserializer that reads too little or too much)
                if si % 3 == 0 {
                    let other = materialise(&makers, &states[(si + 1) % states.len()]);
                    if let Some(ob) = other.ser() {
                        let mut both = bytes.clone();
                        both.extend_from_slice(&ob);
                        match guarded(|| ty.de_two(&both)) {
                            Ok(Some(Ok((mut r1, mut r2)))) => {
                                ctx.add("snapshot_pairs_in_one_stream", 1);
                                let cont = &conts[si % conts.len()];
                                let mut f1 = materialise(&makers, s);
                                let mut f2 = materialise(&makers, &states[(si + 1) % states.len()]);
                                let same = cont.iter().all(|o| apply(&mut f1, o) == apply(&mut r1, o)) && cont.iter().all(|o| apply(&mut f2, o) == apply(&mut r2, o));
                                if !same {
                                    ctx.violation(&key("stream-of-two-diverges"), &format!("{}: the snapshots after {} and after {} written one after the other and read back from one stream do not both restore their generator", info.name, ops_short(&s.history), ops_short(&states[(si + 1) % states.len()].history)), rep(json!({"second_ops": ops_json(&states[(si + 1) % states.len()].history)})));
                                }
                            }
                            Ok(Some(Err(e))) => ctx.violation(&key("stream-of-two-roundtrip"), &format!("{}: the snapshots after {} and after {} written one after the other cannot be read back from one stream: {}", info.name, ops_short(&s.history), ops_short(&states[(si + 1) % states.len()].history), e), rep(json!({"second_ops": ops_json(&states[(si + 1) % states.len()].history)}))),
                            Ok(None) => {}
                            Err(o) => ctx.violation(&key("stream-of-two-roundtrip"), &format!("{}: reading two snapshots from one stream panicked: {:?}", info.name, o), rep(json!(null))),
                        }
                    }
                }
                // second generation: a snapshot of the generator that was itself restored from a snapshot
                {
                    let (_, r1) = roundtrip(*ty, g.as_ref()).unwrap();
                    match roundtrip(*ty, r1.as_ref()) {
                        Ok((_, mut r2)) => {
                            let cont = &conts[(si + 1) % conts.len()];
                            let mut fresh = materialise(&makers, s);
                            let of: Vec<Obs> = cont.iter().map(|o| apply(&mut fresh, o)).collect();
                            let o2: Vec<Obs> = cont.iter().map(|o| apply(&mut r2, o)).collect();
                            ctx.add("transitions", 2 * cont.len() as u64);
                            ctx.add("second_generation_snapshots", 1);
                            if of != o2 {
                                ctx.violation(&key("second-generation-diverges"), &format!("{}: snapshot after {}, restored, snapshotted again and restored: under {} it returns {:?}, the original {:?}", info.name, ops_short(&s.history), ops_short(cont), o2.iter().map(|o| o.to_json()).collect::<Vec<_>>(), of.iter().map(|o| o.to_json()).collect::<Vec<_>>()), rep(json!({"generations": 2, "continuation": ops_json(cont)})));
                            }
                        }
                        Err(e) => ctx.violation(&key("second-generation-roundtrip"), &format!("{}: a generator restored from a snapshot after {} cannot be snapshotted and restored again: {}", info.name, ops_short(&s.history), e), rep(json!({"generations": 2}))),
                    }
                }
                // the same snapshot through a human-readable, self-describing format (serde_json): a
                // Serialize / Deserialize that branches on the format, or a value the text form cannot carry
                if let Some(jb) = g.ser_json() {
                    ctx.add("json_snapshots", 1);
                    match guarded(|| ty.de_json(&jb)) {
                        Ok(Some(Ok(mut rj))) => {
                            if info.has_eq && rj.eq_dyn(g.as_ref()) != Some(true) {
                                ctx.violation(&key("json-restored-not-equal"), &format!("{}: generator restored from a JSON snapshot after {} does not compare equal to the original", info.name, ops_short(&s.history)), rep(json!({"format":"json"})));
                                continue;
                            }
                            let cont = &conts[si % conts.len()];
                            let mut fresh = materialise(&makers, s);
                            let of: Vec<Obs> = cont.iter().map(|o| apply(&mut fresh, o)).collect();
                            let oj: Vec<Obs> = cont.iter().map(|o| apply(&mut rj, o)).collect();
                            ctx.add("transitions", 2 * cont.len() as u64);
                            if of != oj {
                                ctx.violation(
                                    &key("json-restored-diverges"),
                                    &format!("{}: JSON snapshot after {}: under {} the restored generator returns {:?}, the original {:?}", info.name, ops_short(&s.history), ops_short(cont), oj.iter().map(|o| o.to_json()).collect::<Vec<_>>(), of.iter().map(|o| o.to_json()).collect::<Vec<_>>()),
                                    rep(json!({"format":"json","continuation": ops_json(cont)})),
                                );
                            }
                        }
                        Ok(Some(Err(e))) => ctx.violation(&key("json-roundtrip"), &format!("{}: JSON snapshot after {} cannot be restored: {}", info.name, ops_short(&s.history), e), rep(json!({"format":"json"}))),
                        Ok(None) => {}
                        Err(o) => ctx.violation(&key("json-roundtrip"), &format!("{}: restoring a JSON snapshot after {} panicked: {:?}", info.name, ops_short(&s.history), o), rep(json!({"format":"json"}))),
                    }
                }
            }
            ctx.add("snapshots_mid_block", mid_block);
            ctx.add("snapshots_half_pending", half);

            // (b) crash-point sweep: snapshot at every point of a 600-step next_u32 history
            let steps = if thorough { 1400 } else { 600 };
            let look = if thorough { 600 } else { 300 };
            for mk in makers.iter() {
                // reference future: one long never-serialised run of next_u32
                let mut g = mk.make();
                let all: Vec<u32> = (0..steps + look).map(|_| g.next_u32()).collect();
                let mut g = mk.make();
                for p in 0..steps {
                    match roundtrip(*ty, g.as_ref()) {
                        Ok((_, mut r)) => {
                            ctx.add("crash_points", 1);
                            let mut bad = None;
                            for k in 0..look {
                                let v = r.next_u32();
                                if v != all[p + k] {
                                    bad = Some((k, v, all[p + k]));
                                    break;
                                }
                            }
                            ctx.add("transitions", look as u64);
                            if let Some((k, v, e)) = bad {
                                ctx.violation(
                                    &format!("C11:{}:crash-point", info.name),
                                    &format!("{}: snapshot after {} next_u32 calls: restored generator's next_u32 #{} is {:#x}, the original's {:#x}", info.name, p, k, v, e),
                                    json!({"kind":"snapshot","type":info.name,"maker":mk.describe(),"ops":ops_json(&vec![Op::U32; p]),"detail":{"diverges_at":k}}),
                                );
                                break;
                            }
                        }
                        Err(e) => {
                            ctx.violation(&format!("C11:{}:roundtrip", info.name), &format!("{}: snapshot after {} next_u32 calls: {}", info.name, p, e), json!({"kind":"snapshot","type":info.name,"maker":mk.describe(),"ops":ops_json(&vec![Op::U32; p])}));
                            break;
                        }
                    }
                    g.next_u32();
                }
            }

            // (b2) snapshots around call counts 2^k (per-object counters that a snapshot could lose): after
            // 2^k - 2 .. 2^k + 1 native calls for k = 8, 16 (and 20 in the thorough tier), looking 2^k ahead
            for k in if thorough { vec![8u32, 16, 20] } else { vec![8, 16] } {
                let base = 1usize << k;
                // 16 dense seeds (a counter-triggered action may depend on the state it meets)
                for dseed in chain_seeds(*ty, ctx.seed ^ 0x11DD ^ k as u64, if k <= 16 { 16 } else { 2 }) {
                let mk = SeedMaker { ty: *ty, seed: dseed };
                let mk = &mk;
                let mut g = mk.make();
                for _ in 0..base - 2 {
                    native(&mut g, info.word_bits);
                }
                for off in 0..4usize {
                    // snapshot after base-2+off calls; the restored generator must agree for the next 2^k+4 calls
                    match roundtrip(*ty, g.as_ref()) {
                        Ok((_, mut r)) => {
                            ctx.add("crash_points", 1);
                            let mut o = g.clone_box();
                            let look = base + 4;
                            let mut bad = None;
                            for j in 0..look {
                                let (a, b) = (native(&mut o, info.word_bits), native(&mut r, info.word_bits));
                                if a != b {
                                    bad = Some(j);
                                    break;
                                }
                            }
                            ctx.add("transitions", 2 * look as u64);
                            if let Some(j) = bad {
                                ctx.violation(
                                    &format!("C11:{}:deep-crash-point", info.name),
                                    &format!("{}: snapshot after {} native calls: the restored generator diverges from the original {} calls later", info.name, base - 2 + off, j),
                                    json!({"kind":"snapshot","type":info.name,"maker":mk.describe(),"ops":ops_json(&vec![if info.word_bits == 32 { Op::U32 } else { Op::U64 }; base - 2 + off])}),
                                );
                            }
                        }
                        Err(e) => ctx.violation(&format!("C11:{}:roundtrip", info.name), &format!("{}: snapshot after {} native calls: {}", info.name, base - 2 + off, e), json!({"kind":"note"})),
                    }
                    native(&mut g, info.word_bits);
                }
                }
            }

            // (c) snapshot of the initial state for every seed of the structured alphabet
            let len = info.seed_len;
            let mut seeds = vec![alphabet::zero(len)];
            seeds.extend(seed_alphabet(len, len <= 32 || thorough));
            for s in &seeds {
                let g = match from_seed_guarded(*ty, s) {
                    Ok(g) => g,
                    Err(_) => continue,
                };
                ctx.add("states", 1);
                ctx.add("snapshots", 1);
                match roundtrip(*ty, g.as_ref()) {
                    Ok((_, mut r)) => {
                        let mut o = from_seed_guarded(*ty, s).unwrap();
                        let same = (0..6).all(|_| native(&mut r, info.word_bits) == native(&mut o, info.word_bits));
                        ctx.add("transitions", 12);
                        let eq_ok = !info.has_eq || r.eq_dyn(o.as_ref()) == Some(true);
                        if !same || !eq_ok {
                            ctx.violation(&format!("C11:{}:initial-state", info.name), &format!("{}: snapshot of from_seed({}) restores a generator with a different future", info.name, hex(s)), json!({"kind":"snapshot","type":info.name,"maker":{"from_seed":hex(s)},"ops":[]}));
                        }
                    }
                    Err(e) => ctx.violation(&format!("C11:{}:roundtrip", info.name), &format!("{}: snapshot of from_seed({}): {}", info.name, hex(s), e), json!({"kind":"snapshot","type":info.name,"maker":{"from_seed":hex(s)},"ops":[]})),
                }
            }
            if info.name == "Isaac64Rng" {
                ctx.sample(json!({"type": info.name, "state_example": ops_short(&states[states.len() - 3].history), "continuations": conts.len(), "crash_points_per_seed": steps}));
            }
        })
        .collect();
    // ---- thorough: a snapshot after 2^32 output words (block counters of the buffered generators pass 2^24)
    if thorough {
        for name in ["IsaacRng", "Isaac64Rng"] {
            let Some(ty) = reg.get(name) else { continue };
            let mk = SeedMaker { ty, seed: standard_seeds(ty, ctx.seed)[1].clone() };
            let mut g = mk.make();
            let mut buf = vec![0u8; 1 << 20];
            let total_bytes: u64 = (1u64 << 32) * (ty.info().word_bits as u64 / 8) + 4 * 77;
            let mut left = total_bytes;
            while left > 0 {
                let n = left.min(buf.len() as u64) as usize;
                g.fill_bytes(&mut buf[..n]);
                left -= n as u64;
            }
            ctx.add("snapshots", 1);
            match roundtrip(ty, g.as_ref()) {
                Ok((_, mut r)) => {
                    for k in 0..600 {
                        let (x, y) = (g.next_u32(), r.next_u32());
                        if x != y {
                            ctx.violation(&format!("C11:{}:very-deep", name), &format!("{}: snapshot after 2^32 words: restored generator diverges at next_u32 #{}", name, k), json!({"kind":"note"}));
                            break;
                        }
                    }
                }
                Err(e) => ctx.violation(&format!("C11:{}:very-deep", name), &format!("{}: snapshot after 2^32 output words ({} bytes): {}", name, total_bytes, e), json!({"kind":"note","maker":mk.describe(),"bytes_drawn":total_bytes})),
            }
        }
    }
    // ---- snapshots at rare reachable events (found on the reference model): around the special word and
    // at the boundaries of the block that holds it
    for (ty, evs) in rare_events(reg, ctx.seed, thorough) {
        let info = ty.info();
        if !info.has_serde {
            continue;
        }
        let b = info.block_words.unwrap_or(1) as u64;
        let jobs: Vec<(&crate::rare::Event, u64)> = evs
            .iter()
            .flat_map(|e| {
                let blk = e.word_index / b * b;
                let mut v: Vec<u64> = vec![e.word_index.saturating_sub(1), e.word_index, e.word_index + 1, blk, blk + 1, blk + b - 1, blk + b];
                v.sort();
                v.dedup();
                v.into_iter().map(move |p| (e, p))
            })
            .collect();
        let res: Vec<Option<(String, serde_json::Value)>> = jobs
            .par_iter()
            .map(|(e, p)| {
                let mk = SkipMaker { ty, seed: e.seed.clone(), skip_words: *p };
                let g = mk.make();
                let rp = json!({"kind":"snapshot","type":info.name,"maker":mk.describe(),"ops":[],"event":crate::rare::describe(e)});
                match roundtrip(ty, g.as_ref()) {
                    Err(er) => Some((format!("{}: snapshot {} words into the stream of seed {} (a block with {}): {}", info.name, p, hex(&e.seed), e.what, er), rp)),
                    Ok((_, mut r)) => {
                        let mut o = g;
                        for k in 0..(2 * b + 8) {
                            let (x, y) = (o.next_u32(), r.next_u32());
                            if x != y {
                                return Some((format!("{}: snapshot {} words into the stream of seed {} (a block with {}): next_u32 #{} of the restored generator is {:#x}, the original's {:#x}", info.name, p, hex(&e.seed), e.what, k, y, x), rp));
                            }
                        }
                        None
                    }
                }
            })
            .collect();
        ctx.add("rare_event_snapshots", jobs.len() as u64);
        ctx.add("snapshots", jobs.len() as u64);
        for r in res.into_iter().flatten() {
            ctx.violation(&format!("C11:{}:rare-event", info.name), &r.0, r.1);
        }
    }
    // ---- the public block cores: plain, in-place and JSON restores ---------------------------------
    for core in reg.core_types().into_iter().filter(|c| c.info().has_serde) {
        let info = core.info();
        for (si, seed) in standard_seeds(core, ctx.seed).into_iter().enumerate() {
            for blocks in [0usize, 1, 2, 5] {
                let build = |extra: usize| {
                    let mut g = core.from_seed(&seed);
                    for _ in 0..blocks + extra {
                        g.next_u32();
                    }
                    g
                };
                let g = build(0);
                let rep = json!({"kind":"note","type":info.name,"seed":crate::evidence::hex(&seed),"blocks_generated":blocks});
                let Some(bytes) = g.ser() else { continue };
                ctx.add("core_snapshots", 1);
                let want: Vec<u32> = {
                    let mut f = build(0);
                    (0..3).map(|_| f.next_u32()).collect()
                };
                let mut candidates: Vec<(&str, Box<dyn Gen>)> = Vec::new();
                if let Some(Ok(r)) = core.de(&bytes) {
                    candidates.push(("deserialize", r));
                } else {
                    ctx.violation(&format!("C11:{}:roundtrip", info.name), &format!("{}: snapshot after {} blocks cannot be restored", info.name, blocks), rep.clone());
                }
                for (tname, mut target) in [("deserialize_in_place into a fresh core", core.from_seed(&standard_seeds(core, ctx.seed)[(si + 1) % 3])), ("deserialize_in_place into a core in another state", build(2))] {
                    match guarded(|| target.de_in_place(&bytes)) {
                        Ok(Some(Ok(()))) => candidates.push((tname, target)),
                        Ok(None) => {}
                        other => ctx.violation(&format!("C11:{}:in-place-roundtrip", info.name), &format!("{}: {} of the snapshot after {} blocks failed: {:?}", info.name, tname, blocks, other.map(|o| o.map(|r| r.err()))), rep.clone()),
                    }
                }
                if let Some(jb) = g.ser_json() {
                    match core.de_json(&jb) {
                        Some(Ok(r)) => candidates.push(("JSON restore", r)),
                        Some(Err(e)) => ctx.violation(&format!("C11:{}:json-roundtrip", info.name), &format!("{}: JSON snapshot after {} blocks cannot be restored: {}", info.name, blocks, e), rep.clone()),
                        None => {}
                    }
                }
                for (how, mut r) in candidates {
                    if r.eq_dyn(g.as_ref()) != Some(true) {
                        ctx.violation(&format!("C11:{}:restored-not-equal", info.name), &format!("{}: the core restored ({}) from the snapshot after {} blocks does not compare equal to the original", info.name, how, blocks), rep.clone());
                        continue;
                    }
                    let got: Vec<u32> = (0..3).map(|_| r.next_u32()).collect();
                    ctx.add("transitions", 6);
                    if got != want {
                        ctx.violation(&format!("C11:{}:restored-diverges", info.name), &format!("{}: the core restored ({}) from the snapshot after {} blocks generates blocks starting with {:x?}, the original {:x?}", info.name, how, blocks, got, want), rep.clone());
                    }
                }
            }
        }
    }
    // ---- generators restored from edited images ------------------------------------------------
    // A generator G' = deserialize(edited image) is a serializable generator like any other (whatever the
    // deserializer made of the bytes), so the property applies to it: deserialize(serialize(G')) must
    // have the future of G', and serializing must not disturb G'. The reference copy of G' is a second
    // deserialisation of the same bytes. Edits: every byte of the image xor 0x01 / 0x80, and a word
    // at every byte offset of the image set to 0 / all ones (buffered words, table words, counters with special
    // values), on three states per type.
    {
        let mut types2: Vec<&'static dyn GenType> = types.clone();
        types2.extend(reg.core_types().into_iter().filter(|c| c.info().has_serde));
        let _: Vec<()> = types2
            .par_iter()
            .map(|ty| {
                let info = ty.info();
                let is_core = info.family == crate::subject::Family::Core;
                let mk = SeedMaker { ty: *ty, seed: standard_seeds(*ty, ctx.seed)[1].clone() };
                let native = if info.word_bits == 32 || is_core { Op::U32 } else { Op::U64 };
                let bw = info.block_words.unwrap_or(4);
                let hists: Vec<Vec<Op>> = if is_core { vec![vec![], vec![Op::U32]] } else { vec![vec![], vec![native.clone(); bw / 2 + 3], [vec![native.clone(); bw - 1], vec![Op::U32]].concat()] };
                let future: Vec<Op> = if is_core { vec![Op::U32, Op::U32, Op::U32] } else { vec![Op::U32, Op::U64, Op::Fill(bw * info.word_bits / 8 + 9), Op::U32, Op::U32, Op::U64] };
                for h in &hists {
                    let mut g = mk.make();
                    for op in h {
                        apply(&mut g, op);
                    }
                    let Some(img) = g.ser() else { return };
                    let wb = info.word_bits / 8;
                    let mut edits: Vec<Vec<u8>> = Vec::new();
                    for p in 0..img.len() {
                        for flip in [0x01u8, 0x80] {
                            let mut im = img.clone();
                            im[p] ^= flip;
                            edits.push(im);
                        }
                    }
                    // a word at every byte offset (the image layout is the implementation's business)
                    for off in 0..img.len().saturating_sub(wb - 1) {
                        for val in [0x00u8, 0xff] {
                            let mut im = img.clone();
                            for b in &mut im[off..off + wb] {
                                *b = val;
                            }
                            if im != img {
                                edits.push(im);
                            }
                        }
                    }
                    for im in edits {
                        let Ok(Some(Ok(mut gp))) = guarded(|| ty.de(&im)) else { continue };
                        let Ok(Some(Ok(mut twin))) = guarded(|| ty.de(&im)) else { continue };
                        ctx.add("edited_image_generators", 1);
                        let rep = || json!({"kind":"edited-image","type":info.name,"maker":mk.describe(),"ops":ops_json(h),"image":crate::evidence::hex(&im)});
                        let first_diff = im.iter().zip(img.iter()).position(|(a, b)| a != b).unwrap_or(0);
                        let r = match roundtrip(*ty, gp.as_ref()) {
                            Ok((_, r)) => r,
                            Err(e) => {
                                ctx.violation(&format!("C11:{}:edited-image-roundtrip", info.name), &format!("{}: a generator restored from an image (state after {}, edited at byte {}) cannot be snapshotted and restored again: {}", info.name, ops_short(h), first_diff, e), rep());
                                break;
                            }
                        };
                        let mut r = r;
                        let ot: Vec<Obs> = future.iter().map(|o| apply(&mut twin, o)).collect();
                        let og: Vec<Obs> = future.iter().map(|o| apply(&mut gp, o)).collect();
                        let or: Vec<Obs> = future.iter().map(|o| apply(&mut r, o)).collect();
                        ctx.add("transitions", 3 * future.len() as u64);
                        if ot.iter().any(|o| o.is_panic()) {
                            continue; // the edited image describes a state the generator itself cannot run from (C14's business if reachable)
                        }
                        if og != ot {
                            ctx.violation(&format!("C11:{}:edited-image-disturbed", info.name), &format!("{}: serializing a generator restored from an image (state after {}, edited at byte {}) changed its future", info.name, ops_short(h), first_diff), rep());
                            break;
                        }
                        if or != ot {
                            ctx.violation(
                                &format!("C11:{}:edited-image-restored-diverges", info.name),
                                &format!("{}: G' = the generator restored from an image (state after {}, edited at byte {}); deserialize(serialize(G')) returns {:?} under {} where G' returns {:?}", info.name, ops_short(h), first_diff, or.iter().map(|o| o.to_json().to_string().chars().take(40).collect::<String>()).collect::<Vec<_>>(), ops_short(&future), ot.iter().map(|o| o.to_json().to_string().chars().take(40).collect::<String>()).collect::<Vec<_>>()),
                                rep(),
                            );
                            break;
                        }
                        // second stage: G' has now run through `future` (across a block boundary, so counters in the
                        // image have moved on - possibly wrapped); snapshot it again and compare once more
                        match roundtrip(*ty, gp.as_ref()) {
                            Ok((_, mut r2)) => {
                                let ot2: Vec<Obs> = future.iter().map(|o| apply(&mut twin, o)).collect();
                                let or2: Vec<Obs> = future.iter().map(|o| apply(&mut r2, o)).collect();
                                ctx.add("transitions", 2 * future.len() as u64);
                                if !ot2.iter().any(|o| o.is_panic()) && or2 != ot2 {
                                    ctx.violation(
                                        &format!("C11:{}:edited-image-restored-diverges", info.name),
                                        &format!("{}: G' = the generator restored from an image (state after {}, edited at byte {}) and advanced by {}; deserialize(serialize(G')) returns {:?} under {} where G' returns {:?}", info.name, ops_short(h), first_diff, ops_short(&future), or2.iter().map(|o| o.to_json().to_string().chars().take(40).collect::<String>()).collect::<Vec<_>>(), ops_short(&future), ot2.iter().map(|o| o.to_json().to_string().chars().take(40).collect::<String>()).collect::<Vec<_>>()),
                                        json!({"kind":"edited-image","type":info.name,"maker":mk.describe(),"ops":ops_json(h),"image":crate::evidence::hex(&im),"advance_first":ops_json(&future)}),
                                    );
                                    break;
                                }
                            }
                            Err(e) => {
                                ctx.violation(&format!("C11:{}:edited-image-roundtrip", info.name), &format!("{}: a generator restored from an image (state after {}, edited at byte {}) and advanced by {} cannot be snapshotted and restored: {}", info.name, ops_short(h), first_diff, ops_short(&future), e), rep());
                                break;
                            }
                        }
                    }
                }
            })
            .collect();
    }
    // ---- value-directed probes for the buffered generators -------------------------------------
    // A state whose *buffered* words have special values (a zero / all-ones word at the first, last or
    // next-to-be-read slot) is reachable but rare (1 in 2^32 blocks). It is first built by editing the
    // serde image (never a verdict by itself: an injected image need not be a reachable state); if the
    // snapshot of that injected state does not round-trip, a *reachable* state with the same pattern is
    // searched for (seed_from_u64(k), block b) within a budget and the violation is reported on it.
    if let Some(ty) = reg.get("IsaacRng") {
        let budget_blocks: u64 = if thorough { 1 << 33 } else { 1 << 29 };
        let mk = SeedMaker { ty, seed: standard_seeds(ty, ctx.seed)[1].clone() };
        let mut g = mk.make();
        for _ in 0..300 {
            g.next_u32(); // mid-block: index 44 of the second block
        }
        let img = g.ser().unwrap();
        let index = 44usize;
        let mut suspects: Vec<(usize, u32)> = Vec::new();
        for slot in [0usize, 255, index, index + 1, 128] {
            for val in [0u32, u32::MAX] {
                let mut im = img.clone();
                im[4 * slot..4 * slot + 4].copy_from_slice(&val.to_le_bytes());
                ctx.add("injected_images", 1);
                let Some(Ok(s)) = ty.de(&im) else { continue };
                if s.ser().as_deref() != Some(&im[..]) {
                    continue; // not a faithful injection
                }
                let Some(bytes) = s.ser() else { continue };
                let restored = ty.de(&bytes);
                let ok = match restored {
                    Some(Ok(mut r)) => {
                        let mut o = ty.de(&im).unwrap().unwrap();
                        (0..600).all(|_| r.next_u32() == o.next_u32())
                    }
                    _ => false,
                };
                if !ok {
                    suspects.push((slot, val));
                }
            }
        }
        ctx.set("injected_image_suspects", suspects.len() as u64);
        for (slot, val) in suspects {
            // search a reachable block whose buffered word `slot` equals `val`
            let chunk: u64 = 1 << 14; // seeds per task
            let blocks_per_seed: u64 = 64;
            let tasks = budget_blocks / (chunk * blocks_per_seed);
            let found: Option<(u64, u64)> = (0..tasks).into_par_iter().find_map_any(|t| {
                for k in t * chunk..(t + 1) * chunk {
                    let mut g = ty.seed_from_u64(k ^ (ctx.seed << 40));
                    for b in 0..blocks_per_seed {
                        // read the block: slot `slot` is the (slot)-th word handed out
                        let mut hit = false;
                        for i in 0..256 {
                            let w = g.next_u32();
                            if i == slot && w == val {
                                hit = true;
                            }
                        }
                        if hit {
                            return Some((k ^ (ctx.seed << 40), b));
                        }
                    }
                }
                None
            });
            ctx.add("reachable_state_search_blocks", tasks * chunk * blocks_per_seed);
            match found {
                Some((k, b)) => {
                    // snapshot inside that block, at every index
                    let mut bad = None;
                    for at in [0usize, 1, slot.min(255), 100, 255] {
                        let mut g = ty.seed_from_u64(k);
                        for _ in 0..(b as usize * 256 + at) {
                            g.next_u32();
                        }
                        let (_, mut r) = match roundtrip(ty, g.as_ref()) {
                            Ok(x) => x,
                            Err(e) => {
                                bad = Some((at, format!("round trip failed: {}", e)));
                                break;
                            }
                        };
                        for j in 0..600 {
                            let (x, y) = (g.next_u32(), r.next_u32());
                            if x != y {
                                bad = Some((at, format!("output {} after the snapshot: original {:#x}, restored {:#x}", j, x, y)));
                                break;
                            }
                        }
                        if bad.is_some() {
                            break;
                        }
                    }
                    if let Some((at, what)) = bad {
                        ctx.violation(
                            "C11:IsaacRng:buffered-value",
                            &format!("IsaacRng: seed_from_u64({:#x}), block {} (buffered word {} is {:#x}), snapshot after {} words of it: {}", k, b, slot, val, at, what),
                            json!({"kind":"snapshot","type":"IsaacRng","maker":{"seed_from_u64":k},"ops":ops_json(&vec![Op::U32; b as usize * 256 + at])}),
                        );
                    }
                }
                None => {
                    ctx.note(&format!("unconfirmed_suspect_slot{}_val{:#x}", slot, val), json!(format!("an injected image with buffered word {} = {:#x} does not round-trip, but no reachable state with that pattern was found within {} blocks; not reported", slot, val, tasks * chunk * blocks_per_seed)));
                    println!("NOTE C11: unconfirmed suspicion (injected IsaacRng image with buffered word {} = {:#x} does not round-trip; no reachable witness within budget)", slot, val);
                }
            }
        }
    }
    for c in ["snapshots_mid_block", "snapshots_half_pending", "crash_points"] {
        if ctx.get(c) == 0 {
            ctx.machinery(&format!("anti-vacuity: counter {} is zero", c));
        }
    }
    ctx.set_exhaustive(true);
    Outcome {
        level: "model_checking",
        keys: EvidenceKeys {
            states: "states",
            transitions: "transitions",
            traces: "snapshots",
            evaluations: "snapshots",
            distinct: "states",
            rule: format!("states = every history up to depth {} from every start offset and 3 seeds for the 18 serialisable types, plus the initial state of every seed of O/W1/W2/WZ/BYTE/Z, plus every point of a 600 (quick) / 1400 (thorough) step next_u32 history (every buffer index, half-used or not, across refills); a snapshot is taken in every state and the restored generator is compared with a never-serialised replay under all continuations of depth <= 2 / for the next 300+ words", depth),
        },
    }
}
