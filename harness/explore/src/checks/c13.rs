//! C13 — test_timer returns Ok(r) only with a usable r >= 1, else a TimerError that holds.

use super::Outcome;
use crate::evidence::{Ctx, EvidenceKeys, Tier};
use crate::ops::{guarded, Obs};
use crate::subject::{Registry, TimerResult, TimerScript};
use rayon::prelude::*;
use serde_json::json;
use std::collections::BTreeMap;

const BASE: u64 = 1 << 50;
const STEP: u64 = 1 << 34;

/// One probe: true difference time2 - time, and optional zero readings.
#[derive(Clone, Copy, Debug)]
pub struct Probe {
    pub d: i64,
    pub zero_time: bool,
    pub zero_time2: bool,
    /// first reading of the probe, if not the default BASE + i * STEP (wrap-around of the counter)
    pub time: Option<u64>,
}

impl Probe {
    pub fn d(d: i64) -> Probe {
        Probe { d, zero_time: false, zero_time2: false, time: None }
    }
}

/// Readings of a complete test_timer run on the documented schedule: one priming reading, then
/// per probe [time][loop-count][loop-count][time2].
pub fn build(probes: &[Probe]) -> Vec<u64> {
    let mut r = Vec::with_capacity(1 + 4 * probes.len() + 8);
    r.push(BASE - 1000);
    for (i, p) in probes.iter().enumerate() {
        let time = p.time.unwrap_or(BASE + (i as u64) * STEP);
        let time2 = time.wrapping_add(p.d as u64);
        r.push(if p.zero_time { 0 } else { time });
        r.push(time.wrapping_add(3));
        r.push(time.wrapping_add(5));
        r.push(if p.zero_time2 { 0 } else { time2 });
    }
    // a few spare readings so that an implementation that reads more does not hit the horizon at once
    let last = *r.last().unwrap();
    for k in 1..=8 {
        r.push(last.wrapping_add(1000 * k));
    }
    r
}

#[derive(Default, Debug, Clone)]
pub struct Facts {
    pub zero_reading: bool,
    pub zero_delta: bool,
    pub backwards: u32,
    pub mod100: u32,
    pub stuck: u32,
    pub sum: u64,
    pub mean: u64,
    /// probe index at which a run that stops at the first zero reading / zero delta returns
    pub first_fatal: Option<usize>,
}

/// The failure conditions of the statement, computed from the readings alone.
pub fn facts(r: &[u64]) -> Facts {
    let mut f = Facts::default();
    let mut last_delta: i32 = 0;
    let mut last_delta2: i32 = 0;
    let mut old: i64 = 0;
    for i in 0..400 {
        let time = r[1 + 4 * i];
        let time2 = r[4 + 4 * i];
        let delta = time2.wrapping_sub(time) as i64 as i32;
        if time == 0 || time2 == 0 {
            f.zero_reading = true;
            if f.first_fatal.is_none() {
                f.first_fatal = Some(i);
            }
        }
        if delta == 0 {
            f.zero_delta = true;
            if f.first_fatal.is_none() {
                f.first_fatal = Some(i);
            }
        }
        if i < 100 {
            continue;
        }
        // stuck: zero delta, zero first or zero second difference of deltas (wrapping 32-bit)
        let d2 = last_delta.wrapping_sub(delta);
        let d3 = d2.wrapping_sub(last_delta2);
        last_delta = delta;
        last_delta2 = d2;
        if delta == 0 || d2 == 0 || d3 == 0 {
            f.stuck += 1;
        }
        if time2 <= time {
            f.backwards += 1;
        }
        if delta % 100 == 0 {
            f.mod100 += 1;
        }
        f.sum += (delta as i64 - old).unsigned_abs();
        old = delta as i64;
    }
    f.mean = f.sum / 300;
    f
}

impl Facts {
    pub fn holds(&self, e: &TimerResult) -> bool {
        match e {
            TimerResult::NoTimer => self.zero_reading,
            TimerResult::CoarseTimer => self.zero_delta || self.mod100 > 270,
            TimerResult::NotMonotonic => self.backwards > 3,
            TimerResult::TinyVariations => self.mean < 2,
            TimerResult::TooManyStuck => self.stuck > 270,
            _ => false,
        }
    }
    pub fn any(&self) -> bool {
        self.zero_reading || self.zero_delta || self.mod100 > 270 || self.backwards > 3 || self.mean < 2 || self.stuck > 270
    }
}

fn bitlen(x: u64) -> u32 {
    64 - x.leading_zeros()
}

/// deltas for probes 100..400 whose variation sum (with delta_99 := 0) is exactly `s`
pub fn deltas_for_sum(s: u64) -> Option<Vec<i64>> {
    if s == 0 {
        return None;
    }
    let b: u64 = if s < 10 { 1 } else { 7 };
    let rest = s - b;
    let q = rest / 299;
    let extra = (rest % 299) as usize;
    let mut d: i64 = b as i64;
    let mut out = vec![d];
    for i in 0..299 {
        let v = (q + if i < extra { 1 } else { 0 }) as i64;
        let nd = if d - v >= 1 {
            d - v
        } else if d + v <= i32::MAX as i64 {
            d + v
        } else if d - v >= i32::MIN as i64 {
            d - v
        } else {
            return None;
        };
        d = nd;
        out.push(d);
    }
    Some(out)
}

fn warmup(i: usize) -> i64 {
    1000 + ((i * i * 7 + i * 13) % 89) as i64 * 3 + (i % 3) as i64 * 211
}

/// a healthy base: irregular positive deltas, not stuck, few multiples of 100
pub fn healthy() -> Vec<Probe> {
    let mut x: u64 = 0x9E3779B97F4A7C15;
    (0..400)
        .map(|i| {
            x ^= x >> 12;
            x ^= x << 25;
            x ^= x >> 27;
            let r = (x.wrapping_mul(0x2545F4914F6CDD1D) >> 54) as i64; // 10 bits
            Probe::d(if i < 100 { warmup(i) } else { 1001 + 3 * r })
        })
        .collect()
}

pub struct Case {
    pub label: String,
    pub probes: Vec<Probe>,
    /// what the generator did before this test_timer call: 0 nothing (fresh), 3 a successful test_timer on
    /// a healthy timer, 1 a complete test_timer
    /// on the same probe pattern, 2 one next_u64
    pub before: u8,
}

pub fn cases(thorough: bool) -> Vec<Case> {
    let mut cs = Vec::new();
    // (a) every variation sum 1..=6000 and around every log2 boundary
    let mut sums: Vec<u64> = (1..=6000).collect();
    for k in 4..=32u32 {
        for m in [-2i64, -1, 0, 1, 2] {
            for unit in [1i64, 300] {
                let s = 300i128 * (1i128 << k) + (m * unit) as i128;
                if s > 0 && s <= 300 * (u32::MAX as i128) {
                    sums.push(s as u64);
                }
            }
        }
    }
    sums.sort();
    sums.dedup();
    for s in sums {
        if let Some(ds) = deltas_for_sum(s) {
            let mut p: Vec<Probe> = (0..100).map(|i| Probe::d(warmup(i))).collect();
            p.extend(ds.into_iter().map(Probe::d));
            cs.push(Case { before: 0, label: format!("sum={}", s), probes: p });
        }
    }
    // (a2) the (stuck count, variation sum) grid: s constant-delta probes (stuck) followed by a zig-zag
    // that brings the variation sum to a chosen value, around every product 16 * (300 - s) and the
    // table/formula boundary 4800
    for st in [1usize, 2, 3, 10, 50, 150, 250, 268] {
        let mut targets: Vec<u64> = vec![3000, 4000, 4799, 4800, 4801, 5000, 600, 601];
        let b = 16 * (300 - st as u64);
        targets.extend([b - 1, b, b + 1, b + 7, (b + 4800) / 2]);
        targets.sort();
        targets.dedup();
        for target in targets {
            let c0: i64 = 37;
            if target <= c0 as u64 + 5 {
                continue;
            }
            let mut ds: Vec<i64> = vec![c0; st + 1];
            let n = 300 - ds.len();
            if n == 0 {
                continue;
            }
            let rest = target - c0 as u64;
            let q = rest / n as u64;
            let extra = (rest % n as u64) as usize;
            let mut d = c0;
            let mut up = true;
            for i in 0..n {
                let v = (q + if i < extra { 1 } else { 0 }) as i64;
                // strictly alternate up/down where possible (alternation is never stuck)
                if up || d - v < 1 {
                    d += v;
                    up = false;
                } else {
                    d -= v;
                    up = true;
                }
                ds.push(d);
            }
            let mut p: Vec<Probe> = (0..100).map(|i| Probe::d(warmup(i))).collect();
            p.extend(ds.into_iter().map(Probe::d));
            cs.push(Case { before: 0, label: format!("grid stuck~{} sum={}", st, target), probes: p });
        }
    }
    // (b) thresholds on a healthy base
    let base = healthy();
    cs.push(Case { before: 0, label: "healthy".into(), probes: base.clone() });
    for (kind, d) in [("back5", -5i64), ("back_2^32-700", -((1i64 << 32) - 700)), ("fwd_2^31+777", (1i64 << 31) + 777), ("back_2^31", -(1i64 << 31)), ("fwd_2^32+9", (1i64 << 32) + 9)] {
        for count in [1usize, 3, 4, 5] {
            let mut p = base.clone();
            for j in 0..count {
                p[150 + 17 * j].d = d;
            }
            cs.push(Case { before: 0, label: format!("{}x{}", kind, count), probes: p });
        }
    }
    for n in 262..=282usize {
        // n counted probes with one constant delta (stuck), and n multiples of 100
        let mut p = base.clone();
        for j in 0..n {
            p[100 + j].d = 1003;
        }
        cs.push(Case { before: 0, label: format!("const-delta x{}", n), probes: p });
        let mut p = base.clone();
        for j in 0..n {
            p[100 + j].d = 100 * (11 + ((j * j + 3 * j) % 23) as i64);
        }
        cs.push(Case { before: 0, label: format!("mult100 x{}", n), probes: p });
    }
    for n in 262..=282usize {
        // the constant delta already starts during the warm-up (the stuck test must start from a blank
        // history at probe 100 whatever the warm-up measured)
        for start in [0usize, 90, 98, 99] {
            let mut p = base.clone();
            for j in start..100 + n {
                p[j].d = 1001;
            }
            cs.push(Case { before: 0, label: format!("const-delta from probe {} x{}", start, n), probes: p });
        }
        // one delta a at probe 100, then 2a constant: third difference zero at probe 101 only with a blank history
        let mut p = base.clone();
        p[100].d = 1001;
        for j in 0..n {
            p[101 + j].d = 2002;
        }
        cs.push(Case { before: 0, label: format!("a then 2a x{}", n), probes: p });
        // multiples of 100 of which three sit on backward (tolerated) probes
        let mut p = base.clone();
        for j in 0..n {
            p[100 + j].d = 100 * (11 + ((j * j + 3 * j) % 23) as i64);
        }
        for j in [5usize, 50, 150] {
            p[100 + j].d = -100 * (7 + j as i64 % 5);
        }
        cs.push(Case { before: 0, label: format!("mult100 x{} with 3 backward", n), probes: p });
        // ties that exist only in wrapping 32-bit arithmetic: deltas alternating x and x + 2^31 have the
        // constant second difference i32::MIN, hence a zero third difference (stuck) on every probe
        for x in [0x4000_0000i64, 12_345] {
            let mut p = base.clone();
            for j in 0..n {
                p[100 + j].d = if j % 2 == 0 { x } else { x + (1i64 << 31) };
            }
            cs.push(Case { before: 0, label: format!("wrap-tie ({:#x}, +2^31) x{}", x, n), probes: p });
        }
        // raw differences that are multiples of 100 while the truncated 32-bit deltas are not, and vice versa
        let mut p = base.clone();
        for j in 0..n {
            p[100 + j].d = (1i64 << 32) + 4 + 100 * ((j * j + 5 * j) % 37) as i64;
        }
        cs.push(Case { before: 0, label: format!("raw-mult100 (2^32+4+100m) x{}", n), probes: p });
        let mut p = base.clone();
        for j in 0..n {
            p[100 + j].d = (1i64 << 32) + 100 * (3 + (j * j + 5 * j) % 37) as i64;
        }
        cs.push(Case { before: 0, label: format!("trunc-mult100 (2^32+100m) x{}", n), probes: p });
    }
    // differences of 2^63 and more between the two readings of a probe, and a counter that wraps around
    // inside a probe: "second reading not larger" is a statement about the readings themselves
    for n in [3usize, 4, 5] {
        // forward steps of 2^63 + small: the second reading *is* larger
        let mut p = base.clone();
        for j in 0..n {
            p[120 + 17 * j].d = i64::MIN + 1_000 + 13 * j as i64;
        }
        cs.push(Case { before: 0, label: format!("{} probes with a forward step of 2^63+d", n), probes: p });
        // the counter wraps inside the probe: the second reading is smaller although the wrapped difference is small
        let mut p = base.clone();
        for j in 0..n {
            p[130 + 19 * j].time = Some(u64::MAX - 2 - j as u64);
            p[130 + 19 * j].d = 1_200 + 11 * j as i64;
        }
        cs.push(Case { before: 0, label: format!("{} probes during which the counter wraps around", n), probes: p });
        // backward by 2^63 + small (second reading smaller by a huge amount)
        let mut p = base.clone();
        for j in 0..n {
            p[140 + 23 * j].time = Some((1u64 << 63) + 5_000_000 + 4_001 * j as u64);
            p[140 + 23 * j].d = i64::MIN + 977 + j as i64;
        }
        cs.push(Case { before: 0, label: format!("{} probes with a backward step of 2^63-d", n), probes: p });
    }
    // staircases: every delta repeated r times, then stepped by s (a, a, b, b, c, c, ... with equal
    // steps): exactly the repeats are stuck; a stuck test whose history goes stale on a stuck probe would
    // also count the steps
    for r in [2usize, 3, 5, 10, 11] {
        for s in [4i64, 9, 33, 1000, -7] {
            for start in [100usize, 37] {
                let mut p = base.clone();
                let x0: i64 = if s < 0 { 50_021 } else { 1_013 };
                for j in 0..(400 - start) {
                    p[start + j].d = x0 + s * (j / r) as i64;
                }
                cs.push(Case { before: 0, label: format!("staircase repeat {} step {} from probe {}", r, s, start), probes: p });
            }
        }
    }
    for i in [0usize, 1, 99, 100, 101, 250, 398, 399] {
        for (kind, f) in [("time=0", 0), ("time2=0", 1), ("delta=0", 2), ("delta=2^32", 3), ("delta=-2^32", 4)] {
            let mut p = base.clone();
            match f {
                0 => p[i].zero_time = true,
                1 => p[i].zero_time2 = true,
                2 => p[i].d = 0,
                3 => p[i].d = 1i64 << 32,
                _ => p[i].d = -(1i64 << 32),
            }
            cs.push(Case { before: 0, label: format!("{}@{}", kind, i), probes: p });
        }
    }
    // (b2) variation sums around the TinyVariations boundary with 1..3 tolerated backward probes
    let mut sums: Vec<u64> = vec![590u64, 598, 599, 600, 601, 614, 650, 1199, 1200];
    // ... and around the switch from the lookup table to the formula (mean 15 / 16), where an average
    // taken over fewer samples or rounded differently changes the branch
    sums.extend(4560..=4860);
    for sum in sums {
        for nb in 1..=3usize {
            if let Some(ds) = deltas_for_sum(sum) {
                let mut p: Vec<Probe> = (0..100).map(|i| Probe::d(warmup(i))).collect();
                p.extend(ds.into_iter().map(Probe::d));
                for j in 0..nb {
                    p[140 + 50 * j].d = -70;
                }
                cs.push(Case { before: 0, label: format!("sum~{} with {} backward probes of -70", sum, nb), probes: p });
            }
        }
    }
    // (b3) the threshold scripts again on a generator with a past: after a complete test_timer on the
    // same pattern, and after one next_u64 (a stuck-test history or other state carried over between
    // calls would move the counts)
    {
        let extra: Vec<Case> = cs
            .iter()
            .filter(|c| c.label.starts_with("const-delta") || c.label.starts_with("a then 2a") || c.label.starts_with("mult100") || c.label.starts_with("wrap-tie") || c.label.starts_with("staircase") || c.label.starts_with("grid") || c.label == "healthy")
            .flat_map(|c| {
                [1u8, 2, 3].into_iter().map(move |b| Case {
                    before: b,
                    label: format!("{} [after {}]", c.label, match b {
                        1 => "a previous test_timer",
                        2 => "a next_u64",
                        _ => "a previous successful test_timer on a healthy timer",
                    }),
                    probes: c.probes.clone(),
                })
            })
            .collect();
        cs.extend(extra);
    }
    // (c) periodic patterns of true differences
    let alpha: Vec<i64> = vec![1, 2, 3, 7, 99, 100, 101, 200, 1000, -1, -100, (1 << 31) - 1, -(1 << 31), (1 << 31) + 777, -((1i64 << 32) - 700), (1i64 << 32) + 5, -((1i64 << 32) + 5)];
    let maxp = if thorough { 4 } else { 3 };
    for period in 1..=maxp {
        let n = alpha.len().pow(period as u32);
        for mut idx in 0..n {
            let mut pat = Vec::with_capacity(period);
            for _ in 0..period {
                pat.push(alpha[idx % alpha.len()]);
                idx /= alpha.len();
            }
            let p: Vec<Probe> = (0..400).map(|i| Probe::d(pat[i % period])).collect();
            cs.push(Case { before: 0, label: format!("periodic{:?}", pat), probes: p });
        }
    }
    cs
}

/// Result of one script on the real code against the oracle computed from the statement.
#[derive(Default)]
pub struct CaseOutcome {
    pub verdict: String,
    pub violation: Option<(String, String)>,
    pub consumed: u64,
    pub schedule_mismatch: bool,
}

pub fn case_replay_json(c: &Case) -> serde_json::Value {
    json!({"kind":"jitter-test-timer","label":c.label,"before":c.before,"probe_differences":c.probes.iter().map(|p| p.d).collect::<Vec<_>>(),"zero_time":c.probes.iter().enumerate().filter(|(_,p)| p.zero_time).map(|(i,_)| i).collect::<Vec<_>>(),"zero_time2":c.probes.iter().enumerate().filter(|(_,p)| p.zero_time2).map(|(i,_)| i).collect::<Vec<_>>(),"time_overrides":c.probes.iter().enumerate().filter_map(|(i,p)| p.time.map(|t| json!([i, t.to_string()]))).collect::<Vec<_>>()})
}

pub fn case_from_json(r: &serde_json::Value) -> Option<Case> {
    let d: Vec<i64> = r.get("probe_differences")?.as_array()?.iter().filter_map(|x| x.as_i64()).collect();
    let mut probes: Vec<Probe> = d.into_iter().map(Probe::d).collect();
    for i in r.get("zero_time").and_then(|a| a.as_array()).map(|a| a.iter().filter_map(|x| x.as_u64()).collect::<Vec<_>>()).unwrap_or_default() {
        probes.get_mut(i as usize)?.zero_time = true;
    }
    for i in r.get("zero_time2").and_then(|a| a.as_array()).map(|a| a.iter().filter_map(|x| x.as_u64()).collect::<Vec<_>>()).unwrap_or_default() {
        probes.get_mut(i as usize)?.zero_time2 = true;
    }
    for ov in r.get("time_overrides").and_then(|a| a.as_array()).cloned().unwrap_or_default() {
        let i = ov.get(0)?.as_u64()? as usize;
        let t: u64 = ov.get(1)?.as_str()?.parse().ok()?;
        probes.get_mut(i)?.time = Some(t);
    }
    Some(Case { before: r.get("before").and_then(|b| b.as_u64()).unwrap_or(0) as u8, label: r.get("label").and_then(|l| l.as_str()).unwrap_or("replayed script").to_string(), probes })
}

pub fn eval_case(reg: &dyn Registry, c: &Case) -> CaseOutcome {
    let mut out = CaseOutcome::default();

            let own = build(&c.probes);
            let f = facts(&own);
            // what happened before on this generator
            let mut readings: Vec<u64> = Vec::new();
            let prefix_len = match c.before {
                1 => {
                    readings.extend_from_slice(&own[..1601]);
                    1601
                }
                2 => {
                    let pre = crate::jitter_env::raw_readings(7, crate::jitter_env::readings_per_word(64));
                    readings.extend(pre.iter().map(|t| t + (1 << 40)));
                    readings.len()
                }
                3 => {
                    // a complete test_timer run on the healthy script (which returns Ok)
                    let h = build(&healthy());
                    readings.extend_from_slice(&h[..1601]);
                    1601
                }
                _ => 0,
            };
            readings.extend_from_slice(&own);
            let script = TimerScript::new(readings.clone());
            let mut g = reg.jitter(script.clone());
            if c.before == 1 || c.before == 3 {
                let _ = guarded(|| g.jitter().unwrap().test_timer());
            } else if c.before == 2 {
                let _ = guarded(|| g.next_u64());
            }
            if script.consumed() != prefix_len {
                // the earlier call did not consume what the documented schedule says (early return of a failing
                // test_timer): re-align the cursor on the script of the call under test
                script.pos.store(prefix_len, std::sync::atomic::Ordering::Relaxed);
            }
            let r = guarded(|| g.jitter().unwrap().test_timer());
            let consumed = script.consumed() - prefix_len;
            out.consumed = consumed as u64;
            let verdict: String;
            match r {
                Err(o) => {
                    verdict = "panic".into();
                    let what = match o {
                        Obs::Panic(m) => m,
                        o => format!("{:?}", o),
                    };
                    out.violation = Some(("C13:panic".to_string(), format!("test_timer panicked on script {}: {}", c.label, what)));
                }
                Ok(res) => {
                    verdict = format!("{:?}", res);
                    // schedule confirmation
                    let expect_consumed = match (&res, f.first_fatal) {
                        (TimerResult::NoTimer, Some(i)) | (TimerResult::CoarseTimer, Some(i)) => 1 + 4 * (i + 1),
                        _ => 1601,
                    };
                    let early_ok = matches!(res, TimerResult::NoTimer | TimerResult::CoarseTimer);
                    if consumed != expect_consumed && !(early_ok && consumed == 1601) {
                        out.schedule_mismatch = true;
                    }
                    match res {
                        TimerResult::Ok(r) => {
                            if f.any() {
                                out.violation = Some((
                                    format!("C13:ok-despite-failure:{}", if f.mean < 2 { "tiny" } else if f.backwards > 3 { "backwards" } else if f.zero_reading { "zero-reading" } else if f.zero_delta { "zero-delta" } else if f.stuck > 270 { "stuck" } else { "mod100" }),
                                    format!("test_timer returned Ok({}) on script {} although a documented failure condition holds: {:?}", r, c.label, f),
                                ));
                            } else if r == 0 || r > 128 || (r as u64) * (bitlen(f.mean) as u64) < 128 {
                                out.violation = Some((
                                    (if r == 0 { "C13:ok-zero-rounds" } else { "C13:ok-too-few-rounds" }).to_string(),
                                    format!("test_timer returned Ok({}) on script {} (mean delta variation {}, bitlen {}): r * bitlen(mean) = {} < 128 or r outside 1..=128", r, c.label, f.mean, bitlen(f.mean), r as u64 * bitlen(f.mean) as u64),
                                ));
                            } else {
                                let rr = r;
                                if guarded(|| g.jitter().unwrap().set_rounds(rr)).is_err() {
                                    out.violation = Some(("C13:ok-zero-rounds".to_string(), format!("set_rounds(test_timer()?) panicked for Ok({}) on script {}", r, c.label)));
                                }
                            }
                        }
                        e => {
                            // the printed form of the error names a condition too: if it contains the name of a
                            // documented condition, one of the conditions it names must hold (a text that names none
                            // is not judged)
                            if let Some(text) = g.jitter().unwrap().last_timer_error_display() {
                                let lower = text.to_lowercase();
                                let named: Vec<TimerResult> = [("no timer", TimerResult::NoTimer), ("coarse", TimerResult::CoarseTimer), ("monotonic", TimerResult::NotMonotonic), ("variation", TimerResult::TinyVariations), ("stuck", TimerResult::TooManyStuck)]
                                    .into_iter()
                                    .filter(|(k, _)| lower.contains(k))
                                    .map(|(_, v)| v)
                                    .collect();
                                if !named.is_empty() && !named.iter().any(|v| f.holds(v)) {
                                    out.violation = Some((format!("C13:error-text-names-wrong-condition:{:?}", e), format!("test_timer returned Err({:?}) on script {}, printed as {:?}, which names a condition that does not hold: {:?}", e, c.label, text, f)));
                                }
                            }
                            if !f.holds(&e) {
                                out.violation = Some((format!("C13:error-does-not-hold:{:?}", e), format!("test_timer returned Err({:?}) on script {}, but that condition does not hold: {:?}", e, c.label, f)));
                            }
                        }
                    }
                }
            }
    out.verdict = verdict;
    out
}

pub fn run(reg: &dyn Registry, ctx: &Ctx) -> Outcome {
    let thorough = ctx.tier == Tier::Thorough;
    ctx.assume("failure conditions are computed from the readings on the documented schedule (1 priming reading + 4 per probe); the schedule itself is confirmed on every run (readings consumed) and is C12's statement");
    ctx.assume("mean = floor(sum of |delta_i - delta_(i-1)| / 300) over the 300 counted probes with delta_99 := 0 (the crate's convention), differences taken exactly (no wrap-around)");
    let cs = cases(thorough);
    ctx.set("states", cs.len() as u64);
    let results: Vec<(String, String)> = cs
        .par_iter()
        .map(|c| {
            let o = eval_case(reg, c);
            ctx.add("transitions", o.consumed);
            if o.schedule_mismatch {
                ctx.add("schedule_mismatches", 1);
            }
            if let Some((key, what)) = o.violation {
                ctx.violation(&key, &what, case_replay_json(c));
            }
            (o.verdict, c.label.clone())
        })
        .collect();
    let mut per: BTreeMap<String, (u64, String)> = BTreeMap::new();
    for (v, l) in results {
        let e = per.entry(v).or_insert((0, l));
        e.0 += 1;
    }
    ctx.set("distinct_verdicts", per.len() as u64);
    let mut verdicts = serde_json::Map::new();
    for (v, (n, l)) in &per {
        verdicts.insert(v.clone(), json!({"scripts": n, "example": l}));
    }
    ctx.note("scripts_per_verdict", serde_json::Value::Object(verdicts));
    ctx.sample(json!({"script": "sum=4791", "meaning": "400 probes; counted deltas zig-zag so that the variation sum is exactly 4791 (mean 15.97)"}));
    for need in ["NoTimer", "CoarseTimer", "NotMonotonic", "TinyVariations", "TooManyStuck"] {
        if !per.contains_key(need) {
            ctx.machinery(&format!("anti-vacuity: no script produced {}", need));
        }
    }
    for r in [128u8, 81, 64, 56, 50, 46, 43, 41, 39, 38, 36, 35, 34, 33] {
        if !per.contains_key(&format!("Ok({})", r)) {
            ctx.machinery(&format!("anti-vacuity: no script produced Ok({})", r));
        }
    }
    if ctx.get("schedule_mismatches") > 0 {
        ctx.machinery("test_timer does not read its timer on the documented schedule (see C12); C13's oracle would be misaligned");
    }
    ctx.set_exhaustive(true);
    Outcome {
        level: "model_checking",
        keys: EvidenceKeys {
            states: "states",
            transitions: "transitions",
            traces: "states",
            evaluations: "states",
            distinct: "distinct_verdicts",
            rule: "states = complete 1601-reading timer scripts: every variation sum 1..=6000 and 300*2^k +-{1,2,300,600} for k=4..32; threshold scripts (1/3/4/5 backward or sign-ambiguous probes, 262..282 stuck probes, 262..282 multiples of 100, a zero reading / zero truncated delta at probes 0,1,99,100,101,250,398,399); all periodic difference patterns of period <= 3 (quick) / 4 (thorough) over 17 values incl. +-2^31, +-2^32; transitions = timer readings consumed; distinct = distinct verdicts observed (each table value of r and each TimerError must occur)".into(),
        },
    }
}
