//! C15 — JitterRng pool mixing is bijective (LFSR fold in pool and in time, rotation, stir,
//! and the whole pool -> output map of a collection), via the pool hook.

use super::Outcome;
use crate::alphabet;
use crate::evidence::{Ctx, EvidenceKeys, Tier};
use crate::jitter_env::{self, deviate, Dev};
use crate::ops::guarded;
use crate::subject::Registry;
use rayon::prelude::*;
use refmodels::gf2::{BitVec, Mat};
use serde_json::json;
use std::collections::HashMap;
use std::sync::Mutex;

type F<'a> = &'a (dyn Fn(&BitVec) -> Result<BitVec, String> + Sync);

pub struct FnModel {
    pub mat: Mat,
    pub c: BitVec,
}

impl FnModel {
    pub fn predict(&self, x: &BitVec) -> BitVec {
        let mut y = self.mat.apply(x);
        y.xor_assign(&self.c);
        y
    }
}

/// affine model of f around `base`: col_i = f(base ^ e_i) ^ f(base); c = f(base) ^ L base
pub fn extract_fn(f: F, n_in: usize, n_out: usize, base: &BitVec) -> Result<FnModel, String> {
    let fb = f(base)?;
    let cols: Result<Vec<BitVec>, String> = (0..n_in)
        .into_par_iter()
        .map(|i| {
            let mut x = base.clone();
            x.set(i, !base.get(i));
            let mut y = f(&x)?;
            y.xor_assign(&fb);
            Ok(y)
        })
        .collect();
    let mat = Mat { rows: n_out, cols: n_in, col: cols? };
    let mut c = mat.apply(base);
    c.xor_assign(&fb);
    Ok(FnModel { mat, c })
}

pub fn u64_bits(v: u64) -> BitVec {
    BitVec { n: 64, w: vec![v] }
}
pub fn joint(p: u64, t: u64) -> BitVec {
    BitVec { n: 128, w: vec![p, t] }
}

/// inputs for conformance: weight 1..3, walking zeros, ones, dense chain
pub fn inputs(n: usize, seed: u64, w3: bool) -> Vec<BitVec> {
    let len = n / 8;
    let mut v: Vec<BitVec> = vec![BitVec::zero(n)];
    for s in alphabet::w1(len) {
        v.push(BitVec::from_bytes(n, &s));
    }
    for (i, j) in alphabet::w2_pairs(n) {
        v.push(BitVec::from_bytes(n, &alphabet::with_bits(len, &[i, j])));
    }
    if w3 {
        for i in 0..n {
            for j in i + 1..n {
                for k in j + 1..n {
                    v.push(BitVec::from_bytes(n, &alphabet::with_bits(len, &[i, j, k])));
                }
            }
        }
    }
    for s in alphabet::wz(len) {
        v.push(BitVec::from_bytes(n, &s));
    }
    v.push(BitVec::from_bytes(n, &alphabet::ones(len)));
    for k in 0..4096u64 {
        v.push(BitVec::from_bytes(n, &alphabet::bg_bytes(seed, 0x15C0 + k, len)));
    }
    v
}

/// (replayed, mismatching inputs (capped))
pub fn conform_fn(f: F, m: &FnModel, xs: &[BitVec]) -> (u64, u64, Vec<BitVec>) {
    let kept: Mutex<Vec<BitVec>> = Mutex::new(Vec::new());
    let bad: u64 = xs
        .par_iter()
        .map(|x| match f(x) {
            Ok(y) if y == m.predict(x) => 0u64,
            _ => {
                let mut k = kept.lock().unwrap();
                if k.len() < 64 {
                    k.push(x.clone());
                }
                1
            }
        })
        .sum();
    (xs.len() as u64, bad, kept.into_inner().unwrap())
}

struct MapSpec<'a> {
    name: &'static str,
    f: Box<dyn Fn(&BitVec) -> Result<BitVec, String> + Sync + 'a>,
    n_in: usize,
    /// input bit ranges in which the map must be injective with the other inputs fixed
    injective_in: Vec<(&'static str, usize, usize)>,
    /// the point around which the map is extracted (None: zero)
    base: Option<BitVec>,
}

pub fn run(reg: &dyn Registry, ctx: &Ctx) -> Outcome {
    let thorough = ctx.tier == Tier::Thorough;
    ctx.assume("pool read/written through the cfg(feature = rngs_verif) hook; one LFSR fold observed as timer_stats(false) over a two-reading script; linearity beyond the replayed weights (<= 3)");

    let fold = |x: &BitVec| -> Result<BitVec, String> {
        let (p, t) = (x.w[0], x.w[1]);
        let (mut g, _) = jitter_env::jitter_with(reg, vec![t, t.wrapping_add(12345)], None);
        guarded(|| {
            let j = g.jitter().unwrap();
            j.set_pool(p);
            j.timer_stats(false);
            u64_bits(j.pool())
        })
        .map_err(|o| format!("{:?}", o))
    };
    let stir = |x: &BitVec| -> Result<BitVec, String> {
        let (mut g, _) = jitter_env::jitter_with(reg, vec![1], None);
        guarded(|| {
            let j = g.jitter().unwrap();
            j.set_pool(x.w[0]);
            j.stir();
            u64_bits(j.pool())
        })
        .map_err(|o| format!("{:?}", o))
    };
    // whole collections: pool -> output for fixed scripts, rounds 1..3, with and without a stuck retry
    let mut scripts: Vec<(String, u8, Vec<u64>)> = Vec::new();
    for rounds in [1u8, 2, 3] {
        let base = jitter_env::benign_readings(ctx.seed ^ 0x15 ^ rounds as u64, rounds, 1, 16);
        scripts.push((format!("collection rounds={}", rounds), rounds, base.clone()));
        // a stuck retry: zero delta at the second measured probe (reading index 5)
        scripts.push((format!("collection rounds={} with stuck retry", rounds), rounds, deviate(&base, &[(5, Dev::Repeat3)])));
    }
    // a collection whose priming measurement is stuck (zero delta against the priming reading)
    for rounds in [1u8, 2] {
        let base = jitter_env::raw_readings(ctx.seed ^ 0x15CC ^ rounds as u64, 80);
        scripts.push((format!("collection rounds={} with a stuck priming measurement", rounds), rounds, deviate(&base, &[(2, Dev::Repeat2)])));
    }
    // collections that contain long runs of stuck measurements (any retry bound)
    for k in [9usize, 33, 70, 130, 260, 1030] {
        let base = jitter_env::raw_readings(ctx.seed ^ 0x15BB, 3 * k + 80);
        scripts.push((format!("collection rounds=2 with {} consecutive stuck measurements", k), 2, jitter_env::with_stuck_run(&base, 5, k, Dev::Repeat3)));
    }
    // maps over two calls: pool -> second output, for histories whose first call is timer_stats or a
    // collection with a long run of stuck measurements (state carried from one call into the next)
    let mut two_call: Vec<(String, Vec<crate::ops::Op>, Vec<u64>)> = Vec::new();
    {
        use crate::ops::Op;
        let base = jitter_env::raw_readings(ctx.seed ^ 0x15DD, 400);
        two_call.push(("timer_stats(false) then a collection".into(), vec![Op::TimerStats(false), Op::U64], base.clone()));
        two_call.push(("timer_stats(false) then a collection with a stuck priming measurement".into(), vec![Op::TimerStats(false), Op::U64], deviate(&base, &[(4, Dev::Repeat2)])));
        two_call.push(("timer_stats(true) then a collection with a stuck priming measurement".into(), vec![Op::TimerStats(true), Op::U64], deviate(&base, &[(6, Dev::Repeat2)])));
        two_call.push(("two collections".into(), vec![Op::U64, Op::U64], base.clone()));
        for k in [33usize, 130] {
            let b2 = jitter_env::raw_readings(ctx.seed ^ 0x15EE, 3 * k + 200);
            two_call.push((format!("two collections, the first with {} consecutive stuck measurements", k), vec![Op::U64, Op::U64], jitter_env::with_stuck_run(&b2, 5, k, Dev::Repeat3)));
        }
    }
    let mut maps: Vec<MapSpec> = vec![
        MapSpec { name: "lfsr-fold(pool,time)", f: Box::new(fold), n_in: 128, injective_in: vec![("pool (time fixed)", 0, 64), ("time (pool fixed)", 64, 128)], base: None },
        MapSpec { name: "stir", f: Box::new(stir), n_in: 64, injective_in: vec![("pool", 0, 64)], base: None },
    ];
    for (name, rounds, readings) in scripts.iter() {
        let rounds = *rounds;
        let f = move |x: &BitVec| -> Result<BitVec, String> {
            let (mut g, _) = jitter_env::jitter_with(reg, readings.clone(), Some(rounds));
            guarded(|| {
                g.jitter().unwrap().set_pool(x.w[0]);
                u64_bits(g.next_u64())
            })
            .map_err(|o| format!("{:?}", o))
        };
        maps.push(MapSpec { name: Box::leak(name.clone().into_boxed_str()), f: Box::new(f), n_in: 64, injective_in: vec![("pool", 0, 64)], base: None });
    }

    for (name, ops, readings) in two_call.iter() {
        let f = move |x: &BitVec| -> Result<BitVec, String> {
            let (mut g, _) = jitter_env::jitter_with(reg, readings.clone(), Some(2));
            guarded(|| {
                g.jitter().unwrap().set_pool(x.w[0]);
                let mut last = 0u64;
                for op in ops {
                    match crate::ops::apply(&mut g, op) {
                        crate::ops::Obs::U64(v) => last = v,
                        crate::ops::Obs::I64(_) => {}
                        o => panic!("unexpected observation {:?}", o),
                    }
                }
                u64_bits(last)
            })
            .map_err(|o| format!("{:?}", o))
        };
        maps.push(MapSpec { name: Box::leak(name.clone().into_boxed_str()), f: Box::new(f), n_in: 64, injective_in: vec![("pool", 0, 64)], base: None });
    }
    // maps through a clone: pool -> first 64-bit output of a clone taken right away / with a half pending
    // / made with clone_from (the clone must carry the whole pool)
    for (name, pre_u32, via_clone_from) in [("clone, then a collection on the clone", false, false), ("next_u32, clone with the half pending, then a collection on the clone", true, false), ("next_u32, clone_from into a fresh generator, then a collection there", true, true)] {
        let readings = jitter_env::raw_readings(ctx.seed ^ 0x15C1, 200);
        let f = move |x: &BitVec| -> Result<BitVec, String> {
            let mut g = reg.jitter_forking(crate::subject::TimerScript::new(readings.clone()));
            guarded(|| {
                g.jitter().unwrap().set_rounds(2);
                g.jitter().unwrap().set_pool(x.w[0]);
                if pre_u32 {
                    g.next_u32();
                }
                let mut c = if via_clone_from {
                    let mut t = reg.jitter_forking(crate::subject::TimerScript::new(readings.clone()));
                    t.jitter().unwrap().set_rounds(2);
                    t.clone_from_dyn(g.as_ref());
                    t
                } else {
                    g.clone_box()
                };
                u64_bits(c.next_u64())
            })
            .map_err(|o| format!("{:?}", o))
        };
        maps.push(MapSpec { name, f: Box::new(f), n_in: 64, injective_in: vec![("pool", 0, 64)], base: None });
    }
    // a whole test_timer call, succeeding and failing in each documented way (early return at a zero
    // reading / zero delta, full run ending in an error): every probe folds a time value, so the pool
    // after the call is a one-to-one image of the pool before it, whatever the verdict
    {
        use super::c13::{build, healthy, Probe};
        let base = healthy();
        let mut variants: Vec<(&'static str, Vec<Probe>)> = vec![("test_timer returning Ok", base.clone())];
        let mut p = base.clone();
        p[37].zero_time = true;
        variants.push(("test_timer failing with a zero reading at probe 37", p));
        let mut p = base.clone();
        p[5].d = 0;
        variants.push(("test_timer failing with a zero delta at probe 5", p));
        let mut p = base.clone();
        for q in p.iter_mut().skip(100) {
            q.d = 4242;
        }
        variants.push(("test_timer failing after a full run (constant deltas)", p));
        let mut p = base.clone();
        for (j, q) in p.iter_mut().enumerate().skip(100) {
            q.d = 100 * (7 + (j % 13) as i64);
        }
        variants.push(("test_timer failing after a full run (deltas multiples of 100)", p));
        let mut p = base.clone();
        for q in p.iter_mut().skip(100).step_by(40) {
            q.d = -70;
        }
        variants.push(("test_timer failing after a full run (backward probes)", p));
        for (name, probes) in variants {
            let readings = build(&probes);
            let f = move |x: &BitVec| -> Result<BitVec, String> {
                let (mut g, _) = jitter_env::jitter_with(reg, readings.clone(), None);
                guarded(|| {
                    let j = g.jitter().unwrap();
                    j.set_pool(x.w[0]);
                    let _ = j.test_timer();
                    u64_bits(j.pool())
                })
                .map_err(|o| format!("{:?}", o))
            };
            maps.push(MapSpec { name, f: Box::new(f), n_in: 64, injective_in: vec![("pool", 0, 64)], base: None });
        }
    }
    // one fold while a half word is pending (after an odd next_u32)
    {
        let pre = jitter_env::raw_readings(ctx.seed ^ 0x15F1, jitter_env::readings_per_word(1) + 2);
        let f = move |x: &BitVec| -> Result<BitVec, String> {
            let (p, t) = (x.w[0], x.w[1]);
            let mut readings = pre.clone();
            readings.truncate(jitter_env::readings_per_word(1));
            readings.extend([t, t.wrapping_add(12345)]);
            let (mut g, _) = jitter_env::jitter_with(reg, readings, Some(1));
            guarded(|| {
                g.next_u32();
                let j = g.jitter().unwrap();
                j.set_pool(p);
                j.timer_stats(false);
                u64_bits(j.pool())
            })
            .map_err(|o| format!("{:?}", o))
        };
        maps.push(MapSpec { name: "lfsr-fold(pool,time) with a half word pending", f: Box::new(f), n_in: 128, injective_in: vec![("pool (time fixed)", 0, 64), ("time (pool fixed)", 64, 128)], base: None });
    }
    // one fold after a previous fold on the same object (anything a fold remembers for the next one):
    // first timer_stats(true) over [t1][loop count][loop count][t1'], then the pool is set and one more
    // fold of time t is observed; extracted around t = t1 so that times agreeing with t1 in their low /
    // high half are among the basis points
    let dense_t = u64::from_le_bytes(crate::alphabet::bg_bytes(ctx.seed, 0x15F0, 8).try_into().unwrap());
    for (t1, lc) in [(0u64, 1u64), (0x1_0000_1234, 1), (dense_t, 1), (dense_t, 0xAAAA_AAAA_AAAA_AAAB), (0x1_0000_1234, 0)] {
        for var2 in [false, true] {
            let name = format!("lfsr-fold(pool,time) after timer_stats(true) of time {:#x} (loop-count readings {:#x}), var_rounds {}", t1, lc, var2);
            let f = move |x: &BitVec| -> Result<BitVec, String> {
                let (p, t) = (x.w[0], x.w[1]);
                let mut readings = vec![t1, lc, lc, t1.wrapping_add(777), t];
                if var2 {
                    readings.extend([0, 0]);
                }
                readings.push(t.wrapping_add(12345));
                let (mut g, _) = jitter_env::jitter_with(reg, readings, None);
                guarded(|| {
                    let j = g.jitter().unwrap();
                    j.timer_stats(true);
                    j.set_pool(p);
                    j.timer_stats(var2);
                    u64_bits(j.pool())
                })
                .map_err(|o| format!("{:?}", o))
            };
            maps.push(MapSpec { name: Box::leak(name.into_boxed_str()), f: Box::new(f), n_in: 128, injective_in: vec![("pool (time fixed)", 0, 64), ("time (pool fixed)", 64, 128)], base: Some(joint(0, t1)) });
        }
    }
    for m in &maps {
        let f: F = m.f.as_ref();
        let n = m.n_in;
        let key = |k: &str| format!("C15:{}:{}", m.name, k);
        let model = match extract_fn(f, n, 64, m.base.as_ref().unwrap_or(&BitVec::zero(n))) {
            Ok(m) => m,
            Err(e) => {
                // not a verdict about bijectivity: the map could not be evaluated (script horizon or a panic
                // inside the call); undecided
                ctx.machinery(&format!("{}: cannot evaluate on the basis: {}", m.name, e));
                continue;
            }
        };
        ctx.add("states", n as u64 + 1);
        ctx.add("basis_executions", n as u64 + 1);
        let heavy = m.name.contains("consecutive stuck") || m.name.contains("then a collection") || m.name.contains("two collections") || m.name.contains("clone") || m.name.contains("test_timer");
        let mut xs = inputs(n, ctx.seed, (n == 64 && !heavy) || thorough);
        if heavy && !thorough {
            xs.truncate(64 + 1 + 2016 + 64 + 1 + 256);
        }
        // model-guided inputs: those that the extracted model maps to a special output (zero, all ones, a
        // zero half, a single bit): what a guard keyed on the *result* of a mixing step would single out
        {
            let mut targets: Vec<u64> = jitter_env::SPECIAL_WORDS.to_vec();
            targets.extend((0..64).map(|i| 1u64 << i));
            targets.extend((0..64).map(|i| !(1u64 << i)));
            for (_, lo, hi) in &m.injective_in {
                let sub = Mat { rows: 64, cols: hi - lo, col: model.mat.col[*lo..*hi].to_vec() };
                for &y in &targets {
                    let mut rhs = u64_bits(y);
                    rhs.xor_assign(&model.c);
                    if let Some(z) = sub.solve(&rhs) {
                        let mut x = BitVec::zero(n);
                        for b in 0..(hi - lo) {
                            if z.get(b) {
                                x.set(lo + b, true);
                            }
                        }
                        xs.push(x);
                    }
                }
            }
            ctx.add("special_output_preimages", (targets.len() * m.injective_in.len()) as u64);
        }
        let (cnt, bad, kept) = conform_fn(f, &model, &xs);
        ctx.add("conformance_replays", cnt);
        ctx.add("transitions", cnt);
        // anti-vacuity: a perturbed model must be noticed
        {
            let mut p = FnModel { mat: model.mat.clone(), c: model.c.clone() };
            let cur = p.mat.col[n / 2].get(7);
            p.mat.col[n / 2].set(7, !cur);
            let (_, pb, _) = conform_fn(f, &p, &xs[..(2 * n + 1).min(xs.len())]);
            ctx.add("perturbed_model_disagreements", pb);
            if pb == 0 {
                ctx.machinery("conformance replay did not notice a perturbed model");
            }
        }
        // the model to decide on: the one extracted at 0 if it is bound to the code, else the one
        // extracted around a dense base point (used only to find concrete witnesses)
        let bound = bad == 0;
        let dense = if bound { None } else { extract_fn(f, n, 64, &BitVec::from_bytes(n, &alphabet::bg_bytes(ctx.seed, 0x15DE, n / 8))).ok() };
        // rank facts are taken from the model extracted around the map's base point and, if that one is not
        // bound to the code, also from the dense-base model; a rank defect is a verdict only with a
        // concrete colliding pair on the real code
        let mut decide_on: Vec<&FnModel> = vec![&model];
        if let Some(d) = dense.as_ref() {
            decide_on.push(d);
        }
        let mut found_witness = false;
        'facts: for (what, lo, hi) in &m.injective_in {
            for decide in &decide_on {
                let sub = Mat { rows: 64, cols: hi - lo, col: decide.mat.col[*lo..*hi].to_vec() };
                let (rank, kernel) = sub.rank_and_kernel();
                ctx.add("model_facts_decided", 1);
                ctx.note(&format!("rank[{} / {}]", m.name, what), json!(rank));
                if rank < hi - lo {
                    // concrete witness on the real code: x and x ^ k (k in the sub-range) collide
                    let k = kernel.unwrap();
                    let mut kk = BitVec::zero(n);
                    for b in 0..(hi - lo) {
                        if k.get(b) {
                            kk.set(lo + b, true);
                        }
                    }
                    let mut bases = vec![BitVec::zero(n), BitVec::from_bytes(n, &alphabet::bg_bytes(ctx.seed, 0x15AA, n / 8))];
                    if let Some(b) = &m.base {
                        bases.insert(0, b.clone());
                    }
                    for base in bases {
                        let mut other = base.clone();
                        other.xor_assign(&kk);
                        if let (Ok(a), Ok(b)) = (f(&base), f(&other)) {
                            if a == b {
                                found_witness = true;
                                ctx.violation(
                                    &key(&format!("not-injective-in-{}", what.split(' ').next().unwrap())),
                                    &format!("{}: not one-to-one in the {}: inputs {:x?} and {:x?} give the same pool/output {:#x} (model rank {} < {})", m.name, what, base.w, other.w, a.w[0], rank, hi - lo),
                                    json!({"kind":"jitter-collision","map":m.name,"input_a":base.w,"input_b":other.w,"output":a.w[0]}),
                                );
                                break 'facts;
                            }
                        }
                    }
                }
            }
        }
        if !bound {
            ctx.add("conformance_mismatches", bad);
            // direct witnesses: (1) equal outputs among enumerated inputs that differ only inside one
            // injective range; (2) model preimage of an observed output
            'outer: for (what, lo, hi) in &m.injective_in {
                let mut seen: HashMap<(Vec<u64>, u64), BitVec> = HashMap::new();
                for x in xs.iter().take(20000).chain(kept.iter()) {
                    let Ok(y) = f(x) else { continue };
                    // key: the part of the input outside the range, and the output
                    let mut outside = x.clone();
                    for b in *lo..*hi {
                        outside.set(b, false);
                    }
                    let k = (outside.w.clone(), y.w[0]);
                    if let Some(prev) = seen.get(&k) {
                        if prev != x {
                            found_witness = true;
                            ctx.violation(&key(&format!("not-injective-in-{}", what.split(' ').next().unwrap())), &format!("{}: inputs {:x?} and {:x?} (differing only in the {}) give the same result {:#x}", m.name, prev.w, x.w, what, y.w[0]), json!({"kind":"jitter-collision","map":m.name,"input_a":prev.w,"input_b":x.w,"output":y.w[0]}));
                            break 'outer;
                        }
                    } else {
                        seen.insert(k, x.clone());
                    }
                }
                if let Some(dm) = &dense {
                    let sub = Mat { rows: 64, cols: hi - lo, col: dm.mat.col[*lo..*hi].to_vec() };
                    for x in kept.iter().chain(xs.iter().take(300)) {
                        let Ok(y) = f(x) else { continue };
                        if dm.predict(x) == y {
                            continue;
                        }
                        // solve sub * z = y ^ c ^ (rest of x through the model)
                        let mut outside = x.clone();
                        for b in *lo..*hi {
                            outside.set(b, false);
                        }
                        let mut rhs = dm.mat.apply(&outside);
                        rhs.xor_assign(&dm.c);
                        rhs.xor_assign(&y);
                        if let Some(z) = sub.solve(&rhs) {
                            let mut other = outside.clone();
                            for b in 0..(hi - lo) {
                                if z.get(b) {
                                    other.set(lo + b, true);
                                }
                            }
                            if &other != x {
                                if let Ok(y2) = f(&other) {
                                    if y2 == y {
                                        found_witness = true;
                                        ctx.violation(&key(&format!("not-injective-in-{}", what.split(' ').next().unwrap())), &format!("{}: inputs {:x?} and {:x?} (differing only in the {}) give the same result {:#x}", m.name, x.w, other.w, what, y.w[0]), json!({"kind":"jitter-collision","map":m.name,"input_a":x.w,"input_b":other.w,"output":y.w[0]}));
                                        break 'outer;
                                    }
                                }
                            }
                        }
                    }
                }
            }
            if !found_witness {
                ctx.machinery(&format!("{}: not the affine map extracted from it ({} replay mismatches) and no colliding pair found: undecided", m.name, bad));
            }
        }
        if m.name == "stir" {
            ctx.sample(json!({"map": m.name, "affine_constant": format!("{:#x}", model.c.w[0]), "column_0": format!("{:#x}", model.mat.col[0].w[0]), "inputs_replayed": cnt}));
        }
    }
    // the rotation by 7 is part of the collection maps; check it in isolation on the model level:
    // fold followed by an accepted measurement differs from fold alone by rotl 7 (informational)
    ctx.set_exhaustive(true);
    Outcome {
        level: "model_checking",
        keys: EvidenceKeys {
            states: "states",
            transitions: "transitions",
            traces: "conformance_replays",
            evaluations: "conformance_replays",
            distinct: "conformance_replays",
            rule: "for the LFSR fold as a map of (pool, time) (128 input bits), the stir step and six whole pool->output collection maps (rounds 1..3, with/without a stuck retry): the affine model is extracted from the implementation on every basis input, the ranks of its pool part and time part are decided (= 64 means one-to-one for all 2^64 values), and the model is replayed on every input of weight <= 2 (<= 3 for the 64-bit maps; also for the 128-bit fold in the thorough tier), walking zeros, all-ones and 4096 dense inputs; all inputs are distinct by construction".into(),
        },
    }
}
