//! C01 — xoshiro/xoroshiro/SplitMix64 equal the Blackman–Vigna reference.

use super::common::*;
use super::Outcome;
use crate::alphabet;
use crate::evidence::{hex, Ctx, EvidenceKeys};
use crate::linear::{self, LinOp};
use crate::ops::guarded;
use crate::subject::{Family, GenType, Registry, SweepJob};
use rayon::prelude::*;
use refmodels::gf2::{BitVec, Mat};
use refmodels::xoshiro::{self, Kind};
use serde_json::json;

/// The reference step models for the 16 generators that are stepped word by word.
#[derive(Clone, Copy, Debug, PartialEq, Eq)]
pub enum RefModel {
    Xo(Kind),
    Xor128,
}

impl RefModel {
    pub fn for_type(name: &str) -> Option<RefModel> {
        if name == "XorShiftRng" {
            Some(RefModel::Xor128)
        } else {
            Kind::from_name(name).map(RefModel::Xo)
        }
    }
    pub fn state_bits(self) -> usize {
        match self {
            RefModel::Xo(k) => k.state_bits(),
            RefModel::Xor128 => 128,
        }
    }
    /// (reference output, reference successor as seed bytes) after `steps` steps; outputs collected
    pub fn run(self, seed: &[u8], steps: usize) -> (Vec<u64>, Vec<Vec<u8>>) {
        let mut outs = Vec::with_capacity(steps);
        let mut states = Vec::with_capacity(steps);
        match self {
            RefModel::Xo(k) => {
                let mut s = xoshiro::state_from_seed(k, seed);
                for _ in 0..steps {
                    outs.push(xoshiro::step(k, &mut s));
                    states.push(xoshiro::seed_from_state(k, &s));
                }
            }
            RefModel::Xor128 => {
                let mut s = refmodels::xor128::state_from_seed(seed);
                for _ in 0..steps {
                    outs.push(refmodels::xor128::step(&mut s) as u64);
                    states.push(refmodels::xor128::seed_from_state(&s));
                }
            }
        }
        (outs, states)
    }
}

/// Lock-step run: from_seed(seed) against the model for `steps` native outputs; then the state.
/// Returns the number of steps compared or a description of the first disagreement.
pub fn lockstep(ty: &dyn GenType, kind: Kind, seed: &[u8], steps: usize) -> Result<u64, (String, serde_json::Value)> {
    lockstep_model(ty, RefModel::Xo(kind), seed, steps)
}

pub fn lockstep_model(ty: &dyn GenType, model: RefModel, seed: &[u8], steps: usize) -> Result<u64, (String, serde_json::Value)> {
    let info = ty.info();
    let mk = |what: &str, extra: serde_json::Value| (what.to_string(), json!({"kind":"lockstep","type":info.name,"seed":hex(seed),"steps":steps,"detail":extra}));
    let mut g = from_seed_guarded(ty, seed).map_err(|e| mk(&e, json!(null)))?;
    // the state image is the seed itself wherever the serde image is the plain state (a different image
    // is a verdict only together with a wrong output below, or for C08's "used verbatim"; the layout of
    // the snapshot is not part of this property)
    let image_differs = matches!(g.ser(), Some(img) if img.len() == seed.len() && img != seed);
    // long runs are compared in windows so that the reference states need not all be kept
    let (outs, states) = if steps <= 64 { model.run(seed, steps) } else { (vec![], vec![]) };
    let mut long_model = if steps > 64 { Some(LongRef::new(model, seed)) } else { None };
    for i in 0..steps {
        let (e, sb_opt): (u64, Option<Vec<u8>>) = match long_model.as_mut() {
            Some(m) => {
                let e = m.step();
                (e, if i == 0 || i + 1 == steps { Some(m.state_bytes()) } else { None })
            }
            None => (outs[i], if i == 0 || i + 1 == steps { Some(states[i].clone()) } else { None }),
        };
        let r = guarded(|| native(&mut g, info.word_bits)).map_err(|o| mk(&format!("step {} panicked: {:?}", i, o), json!(null)))?;
        if r != e {
            let what = if image_differs && i == 0 { "state image after from_seed differs from the seed bytes, and the first output differs from the reference".to_string() } else { format!("native output {} is {:#x}, reference {:#x}", i, r, e) };
            return Err(mk(&what, json!({"position": i, "observed": format!("{:#x}", r), "expected": format!("{:#x}", e)})));
        }
        if let Some(sb) = sb_opt {
            // successor state via == against from_seed(reference state)
            if sb.iter().any(|&b| b != 0) {
                let mut e = ty.from_seed(&sb);
                if g.eq_dyn(e.as_ref()) != Some(true) {
                    // `==` is C10's subject, not this property's: the verdict is taken on the outputs of a
                    // serde copy of the generator (or of the generator itself at the last step) against a
                    // generator started from the reference state, for enough words to pin the state down
                    let words = 2 * info.seed_len / (info.word_bits / 8) + 4;
                    let mut copy: Option<Box<dyn crate::subject::Gen>> = if i + 1 == steps { None } else { g.ser().and_then(|b| ty.de(&b)).and_then(|r| r.ok()) };
                    let mut differ = false;
                    if i + 1 == steps || copy.is_some() {
                        for _ in 0..words {
                            let a = match copy.as_mut() {
                                Some(c) => native(c, info.word_bits),
                                None => native(&mut g, info.word_bits),
                            };
                            if a != native(&mut e, info.word_bits) {
                                differ = true;
                                break;
                            }
                        }
                    } else {
                        differ = true;
                    }
                    if differ {
                        return Err(mk(&format!("state after {} step(s) differs from the reference state", i + 1), json!({"position": i, "expected_state": hex(&sb)})));
                    }
                }
            }
        }
    }
    Ok(steps as u64)
}

struct LongRef {
    model: RefModel,
    xo: [u64; 8],
    xs: [u32; 4],
}
impl LongRef {
    fn new(model: RefModel, seed: &[u8]) -> LongRef {
        match model {
            RefModel::Xo(k) => LongRef { model, xo: xoshiro::state_from_seed(k, seed), xs: [0; 4] },
            RefModel::Xor128 => LongRef { model, xo: [0; 8], xs: refmodels::xor128::state_from_seed(seed) },
        }
    }
    fn step(&mut self) -> u64 {
        match self.model {
            RefModel::Xo(k) => xoshiro::step(k, &mut self.xo),
            RefModel::Xor128 => refmodels::xor128::step(&mut self.xs) as u64,
        }
    }
    fn state_bytes(&self) -> Vec<u8> {
        match self.model {
            RefModel::Xo(k) => xoshiro::seed_from_state(k, &self.xo),
            RefModel::Xor128 => refmodels::xor128::seed_from_state(&self.xs),
        }
    }
}

pub fn ref_matrix(model: RefModel) -> Mat {
    let n = model.state_bits();
    let col = (0..n)
        .map(|i| {
            let seed = alphabet::with_bits(n / 8, &[i]);
            let (_, st) = model.run(&seed, 1);
            bits(&st[0])
        })
        .collect();
    Mat { rows: n, cols: n, col }
}

/// operand word indices of the scrambler: (first, second or same)
pub fn scrambler_operands(kind: Kind) -> (usize, Option<usize>) {
    match kind {
        Kind::Xoroshiro64Star | Kind::Xoroshiro64StarStar => (0, None),
        Kind::Xoroshiro128Plus | Kind::Xoroshiro128PlusPlus => (0, Some(1)),
        Kind::Xoroshiro128StarStar => (0, None),
        Kind::Xoshiro128Plus | Kind::Xoshiro128PlusPlus => (0, Some(3)),
        Kind::Xoshiro128StarStar => (1, None),
        Kind::Xoshiro256Plus | Kind::Xoshiro256PlusPlus => (0, Some(3)),
        Kind::Xoshiro256StarStar => (1, None),
        Kind::Xoshiro512Plus | Kind::Xoshiro512PlusPlus => (0, Some(2)),
        Kind::Xoshiro512StarStar => (1, None),
        Kind::SplitMix64 => (0, None),
    }
}

pub fn cube_jobs(kind: Kind, seed: u64, full: bool, bits_quick: usize) -> Vec<(String, SweepJob)> {
    let w = kind.word_bits();
    let len = kind.seed_len();
    let (a, b) = scrambler_operands(kind);
    let mut jobs = Vec::new();
    let mut tag = 0u64;
    let mut bg = || {
        tag += 1;
        alphabet::bg_bytes(seed, 0xC0BE_0000 + tag + ((kind as u64) << 8), len)
    };
    // thorough: the complete 2^32 input space for the single-operand 32-bit scramblers and for both
    // halves of the SplitMix64 counter; 2^28 sub-cubes elsewhere (a 64-bit two-operand adder has a 2^128
    // input space either way)
    let bitsn = if full { if (w == 32 && b.is_none()) || kind == Kind::SplitMix64 { 32 } else { 28 } } else { bits_quick };
    let both = if kind == Kind::SplitMix64 { vec![false, true] } else { vec![false] };
    for &use_u32 in &both {
        if w == 32 {
            // single 32-bit operand: its whole input space
            if b.is_none() {
                jobs.push((format!("cube32 word{}", a), SweepJob::StepCube { background: bg(), lanes: vec![(a * 32, bitsn)], use_u32, check_state: true }));
            }
        } else {
            // each half of the (first) 64-bit operand
            jobs.push((format!("cube32 word{} low", a), SweepJob::StepCube { background: bg(), lanes: vec![(a * 64, bitsn)], use_u32, check_state: true }));
            jobs.push((format!("cube32 word{} high", a), SweepJob::StepCube { background: bg(), lanes: vec![(a * 64 + 64 - bitsn, bitsn)], use_u32, check_state: true }));
        }
    }
    if let Some(b) = b {
        // two-operand adders: two 16-bit lanes (or bitsn/2) at all lane placements
        let lane = bitsn / 2;
        let offs: Vec<usize> = if w == 32 { vec![0, 16] } else { vec![0, 16, 32, 48] };
        let placements: Vec<(usize, usize)> = if full {
            offs.iter().flat_map(|&x| offs.iter().map(move |&y| (x, y))).collect()
        } else {
            // quick: aligned placements only (carry chains cross the lane top into background bits)
            offs.iter().map(|&x| (x, x)).collect()
        };
        for (x, y) in placements {
            jobs.push((
                format!("cube16^2 word{}@{} word{}@{}", a, x, b, y),
                SweepJob::StepCube { background: bg(), lanes: vec![(a * w + x.min(w - lane), lane), (b * w + y.min(w - lane), lane)], use_u32: false, check_state: true },
            ));
        }
    } else if w == 64 {
        // single 64-bit operand: two 16-bit lanes inside the word at all placements (thorough)
        if full {
            for (x, y) in [(0usize, 16usize), (0, 32), (0, 48), (16, 32), (16, 48), (32, 48)] {
                jobs.push((format!("cube16^2 word{}@{},{}", a, x, y), SweepJob::StepCube { background: bg(), lanes: vec![(a * 64 + x, 16), (a * 64 + y, 16)], use_u32: false, check_state: true }));
            }
        }
    }
    jobs
}

pub fn run(reg: &dyn Registry, ctx: &Ctx) -> Outcome {
    let types: Vec<&'static dyn GenType> = reg.types().into_iter().filter(|t| t.info().family == Family::Xoshiro).collect();
    let thorough = ctx.tier == crate::evidence::Tier::Thorough;
    ctx.assume("reference models transcribed from the published C sources, validated at start-up against the published vectors");
    ctx.assume("engine linearity beyond the replayed weights (<=2 quick, <=3 thorough) for the 'all states' claim of the matrix comparison");

    for ty in &types {
        let info = ty.info();
        let kind = Kind::from_name(info.name).expect("kind");
        let len = info.seed_len;
        let k = kind.words();

        // (a)+(b) decode and lock-step on the structured alphabet and on dense chained seeds
        let mut seeds = seed_alphabet(len, true);
        let chain = chain_seeds(*ty, ctx.seed ^ (kind as u64), if thorough { 4096 } else { 512 });
        seeds.extend(chain);
        if kind == Kind::SplitMix64 {
            seeds.push(vec![0u8; 8]); // SplitMix64 has no zero-seed exception
            // counters from which a special value is reached within a few steps (0 - j*PHI etc.)
            seeds.extend(alphabet::u64_alphabet().into_iter().map(|x| x.to_le_bytes().to_vec()));
        }
        seeds.extend(documented_constant_seeds(*ty).into_iter().filter(|s| s.iter().any(|&b| b != 0)));
        // value-directed states: the next output is 0, all ones, 1, a half-zero word (the scrambler is
        // inverted on the reference model); other state words zero and dense
        {
            let dense_fill: [u64; 8] = {
                let b = alphabet::bg_bytes(ctx.seed, 0x0FF0 + kind as u64, 64);
                let mut a = [0u64; 8];
                for i in 0..8 {
                    a[i] = u64::from_le_bytes(b[8 * i..8 * i + 8].try_into().unwrap());
                }
                a
            };
            let free: Vec<u64> = {
                let mut v = vec![0u64, 1, 2, 1 << 31, 1u64 << 63, u64::MAX, 0xffff_ffff, dense_fill[7], dense_fill[6] | 1];
                v.extend(alphabet::carry_words(kind.word_bits()).into_iter().step_by(7));
                v
            };
            let before = seeds.len();
            for target in [0u64, u64::MAX, 1, 0xffff_ffff, 0xffff_ffff_0000_0000, 0x8000_0000_0000_0000, 0x0000_0000_8000_0000] {
                for fill in [[0u64; 8], dense_fill] {
                    seeds.extend(xoshiro::states_with_output(kind, target, &free, &fill));
                }
            }
            ctx.add("special_output_states", (seeds.len() - before) as u64);
        }
        {
            let mut seen = std::collections::HashSet::new();
            seeds.retain(|s| seen.insert(s.clone()));
        }
        sample_seed(ctx, "lockstep", info.name, &seeds[seeds.len() / 2]);
        let steps = 2 * k + 2;
        let res: Vec<Result<u64, (String, serde_json::Value)>> = seeds.par_iter().map(|s| lockstep(*ty, kind, s, steps)).collect();
        ctx.add("seeds_lockstep", seeds.len() as u64);
        for r in res {
            match r {
                Ok(n) => ctx.add("steps_compared", n),
                Err((what, replay)) => ctx.violation(&format!("C01:{}:lockstep", info.name), &format!("{}: {}", info.name, what), replay),
            }
        }

        // (e) long chains: every output of L steps from 8 dense base seeds
        let l = if thorough { 1 << 27 } else { (1 << 17) + 64 };
        let bases: Vec<Vec<u8>> = (0..8).map(|b| alphabet::bg_bytes(ctx.seed, 0xBA5E00 + b + ((kind as u64) << 16), len)).collect();
        let res: Vec<Result<u64, (String, serde_json::Value)>> = bases.par_iter().map(|s| lockstep(*ty, kind, s, l)).collect();
        for r in res {
            match r {
                Ok(n) => ctx.add("steps_compared", n),
                Err((what, replay)) => ctx.violation(&format!("C01:{}:chain", info.name), &format!("{}: {}", info.name, what), replay),
            }
        }
        ctx.add("chain_bases", 8);

        // carry-chain products on two-operand scramblers
        if let (a, Some(b)) = scrambler_operands(kind) {
            let cw = alphabet::carry_words(kind.word_bits());
            let wb = kind.word_bits() / 8;
            // twice: the other state words dense, and the other state words zero
            for bgw in [alphabet::bg_bytes(ctx.seed, 0xCA44 + kind as u64, len), vec![0u8; len]] {
            // (0,0) on a two-word state is the all-zero seed, which is remapped: C08's business
            let pairs: Vec<(u64, u64)> = cw.iter().flat_map(|&x| cw.iter().map(move |&y| (x, y))).filter(|&(x, y)| !((k == 2 || bgw.iter().all(|&b| b == 0)) && x == 0 && y == 0)).collect();
            let res: Vec<Result<u64, (String, serde_json::Value)>> = pairs
                .par_iter()
                .map(|&(x, y)| {
                    let mut s = bgw.clone();
                    s[a * wb..(a + 1) * wb].copy_from_slice(&x.to_le_bytes()[..wb]);
                    s[b * wb..(b + 1) * wb].copy_from_slice(&y.to_le_bytes()[..wb]);
                    lockstep(*ty, kind, &s, 1)
                })
                .collect();
            ctx.add("carry_pairs", pairs.len() as u64);
            for r in res {
                match r {
                    Ok(n) => ctx.add("steps_compared", n),
                    Err((what, replay)) => ctx.violation(&format!("C01:{}:carry", info.name), &format!("{}: {}", info.name, what), replay),
                }
            }
            }
        }

        // SplitMix64: counters for which an *intermediate* value of the finaliser (after each xor-shift and
        // each multiply, of the 64-bit and of the 32-bit output function) is special: zero, small (< 2^32),
        // just at / above 2^32 and 2^33, a single high bit, all ones, a zero half. Both output widths are
        // compared with the reference for the call that meets the value and the two calls before it.
        if kind == Kind::SplitMix64 {
            use refmodels::seeding::{splitmix_counter_for_stage32, splitmix_counter_for_stage64};
            let d = u64::from_le_bytes(alphabet::bg_bytes(ctx.seed, 0x5A17, 8).try_into().unwrap());
            let mut vals: Vec<u64> = vec![0, 1, 2, 0xffff, 1 << 31, (1 << 32) - 1, 1 << 32, (1 << 32) + 1, (1 << 33) - 1, 1 << 33, (1 << 33) + 1, (1 << 34) - 1, 1 << 48, 1 << 63, u64::MAX, u64::MAX - 1, 0xffff_ffff_0000_0000, 0x0000_0001_0000_0000];
            vals.extend([d & 0xffff_ffff, (d & 0xffff_ffff) | (1 << 32), (d & 0x1_ffff_ffff) | (1 << 32), d << 32, d >> 31, d >> 33, d | (1 << 63)]);
            for j in [8u32, 16, 24, 40, 56] {
                vals.push((1u64 << j) - 1);
                vals.push(1u64 << j);
            }
            let mut counters: Vec<u64> = Vec::new();
            for &v in &vals {
                for st in 0..5 {
                    counters.push(splitmix_counter_for_stage64(st, v));
                }
                for st in 0..4 {
                    counters.push(splitmix_counter_for_stage32(st, v));
                }
            }
            const PHI: u64 = refmodels::xoshiro::SPLITMIX_PHI;
            let mut bad: Option<(String, serde_json::Value)> = None;
            for &c in &counters {
                for back in 0..3u64 {
                    let x0 = c.wrapping_sub(back.wrapping_mul(PHI));
                    for width32_at in 0..=back {
                        // `back` calls of next_u64 (or next_u32 at one position), then both widths at the counter
                        for last32 in [false, true] {
                            let mut g = ty.from_seed(&x0.to_le_bytes());
                            let mut x = x0;
                            let mut ok = true;
                            for i in 0..=back {
                                let use32 = if i == back { last32 } else { i == width32_at && last32 };
                                if use32 {
                                    ok &= g.next_u32() == refmodels::xoshiro::splitmix64_next_u32(&mut x);
                                } else {
                                    ok &= g.next_u64() == refmodels::xoshiro::splitmix64_next(&mut x);
                                }
                            }
                            ctx.add("steps_compared", back + 1);
                            if !ok && bad.is_none() {
                                bad = Some((format!("SplitMix64: from counter {:#x}, {} call(s) (the last through {}) do not return the reference values", x0, back + 1, if last32 { "next_u32" } else { "next_u64" }), json!({"kind":"lockstep","type":"SplitMix64","seed":hex(&x0.to_le_bytes()),"steps":back + 1})));
                            }
                        }
                    }
                }
            }
            ctx.add("splitmix_intermediate_directed_counters", counters.len() as u64);
            ctx.add("seeds_lockstep", counters.len() as u64);
            if let Some((w, r)) = bad {
                ctx.violation("C01:SplitMix64:intermediate-value", &w, r);
            }
        }

        // multiplication-boundary operands of the * and ** scramblers: operands on which a product split
        // into partial products has a deciding carry, for the first multiplier directly and for the
        // second through the inverse of the first stage
        {
            let w = kind.word_bits();
            let mask = if w == 64 { u64::MAX } else { (1u64 << w) - 1 };
            let rotr = |y: u64, r: u32| -> u64 { if w == 64 { y.rotate_right(r) } else { ((y as u32).rotate_right(r)) as u64 } };
            let stages: Option<(u64, u32, u64)> = match kind {
                Kind::Xoroshiro64Star => Some((0x9E37_79BB, 0, 1)),
                Kind::Xoroshiro64StarStar => Some((0x9E37_79BB, 5, 5)),
                Kind::Xoroshiro128StarStar | Kind::Xoshiro128StarStar | Kind::Xoshiro256StarStar | Kind::Xoshiro512StarStar => Some((5, 7, 9)),
                _ => None,
            };
            if let Some((m1, rot, m2)) = stages {
                let (a, _) = scrambler_operands(kind);
                let mut xs = alphabet::mult_boundary_words(w, m1, ctx.seed);
                if m2 > 1 {
                    let inv = alphabet::inv_odd(m1, w);
                    xs.extend(alphabet::mult_boundary_words(w, m2, ctx.seed ^ 1).into_iter().map(|y| rotr(y, rot).wrapping_mul(inv) & mask));
                }
                // operands for which the first product, or the rotated first product, is a special value (zero,
                // one, all ones, a single bit, 2^w - 2, ...): a reduction or shortcut that is exact except for
                // one value of an intermediate result
                {
                    let inv = alphabet::inv_odd(m1, w);
                    let mut specials: Vec<u64> = vec![0, 1, 2, mask, mask - 1, mask >> 1, (mask >> 1) + 1, 0xffff, 0xffff_0000 & mask];
                    specials.extend((0..w).map(|b| 1u64 << b));
                    specials.extend((0..w).map(|b| mask ^ (1u64 << b)));
                    for &v in &specials {
                        xs.push(v.wrapping_mul(inv) & mask);
                        xs.push(rotr(v, rot).wrapping_mul(inv) & mask);
                    }
                }
                xs.sort();
                xs.dedup();
                let wb = w / 8;
                let bgw = alphabet::bg_bytes(ctx.seed, 0xCA55 + kind as u64, len);
                let res: Vec<Result<u64, (String, serde_json::Value)>> = xs
                    .par_iter()
                    .map(|&x| {
                        let mut s = bgw.clone();
                        s[a * wb..(a + 1) * wb].copy_from_slice(&x.to_le_bytes()[..wb]);
                        lockstep(*ty, kind, &s, 1)
                    })
                    .collect();
                ctx.add("carry_pairs", xs.len() as u64);
                ctx.add("multiplication_boundary_operands", xs.len() as u64);
                for r in res {
                    match r {
                        Ok(n) => ctx.add("steps_compared", n),
                        Err((what, replay)) => ctx.violation(&format!("C01:{}:mult-carry", info.name), &format!("{}: {}", info.name, what), replay),
                    }
                }
            }
        }

        // (c) the linear engine on all states: extracted matrix == reference matrix, bound by replay
        if kind.is_linear() {
            match linear::extract(*ty, LinOp::Step) {
                Ok(ex) => {
                    ctx.add("basis_executions", ex.executions);
                    let tref = ref_matrix(RefModel::Xo(kind));
                    if !ex.c.is_zero() {
                        ctx.violation(&format!("C01:{}:engine-constant", info.name), &format!("{}: one step from the all-zero state does not stay zero (affine constant {})", info.name, hex(&ex.c.to_bytes())), json!({"kind":"state-step","type":info.name,"state":hex(&vec![0u8;len])}));
                    }
                    if ex.mat != tref {
                        // concrete witness: a basis state whose successor differs
                        let i = (0..ex.mat.cols).find(|&i| ex.mat.col[i] != tref.col[i]).unwrap();
                        let st = alphabet::with_bits(len, &[i]);
                        ctx.violation(
                            &format!("C01:{}:engine-matrix", info.name),
                            &format!("{}: transition matrix extracted from the code differs from the reference engine (first differing basis state: bit {})", info.name, i),
                            json!({"kind":"lockstep","type":info.name,"seed":hex(&st),"steps":1}),
                        );
                    }
                    ctx.add("model_facts_decided", 1);
                    // conformance: W2 all pairs, WZ, ones, chain
                    let n = ex.mat.cols;
                    let pairs = alphabet::w2_pairs(n);
                    let (cnt, bad, kept) = linear::conform(*ty, &ex, pairs.len(), &|i| {
                        let (a, b) = pairs[i];
                        let mut s = BitVec::zero(n);
                        s.set(a, true);
                        s.set(b, true);
                        s
                    });
                    ctx.add("conformance_replays", cnt);
                    let mut allbad = bad;
                    let mut keep = kept;
                    let wz = alphabet::wz(len);
                    let (cnt, bad, kept) = linear::conform(*ty, &ex, wz.len(), &|i| bits(&wz[i]));
                    ctx.add("conformance_replays", cnt);
                    allbad += bad;
                    keep.extend(kept);
                    let ch = linear::chain_states(*ty, ctx.seed, if thorough { 8192 } else { 512 });
                    let (cnt, bad, kept) = linear::conform(*ty, &ex, ch.len(), &|i| ch[i].clone());
                    ctx.add("conformance_replays", cnt);
                    allbad += bad;
                    keep.extend(kept);
                    if thorough || n <= 128 {
                        let (cnt, bad, kept) = linear::conform_w3(*ty, &ex);
                        ctx.add("conformance_replays", cnt);
                        ctx.add("w3_states", cnt);
                        allbad += bad;
                        keep.extend(kept);
                    }
                    if allbad > 0 {
                        // the code is not the linear map extracted from it: report each kept state as a
                        // direct disagreement with the reference (lock-step decides, not the model)
                        for m in keep.iter().take(4) {
                            let sb = m.state.to_bytes();
                            if let Err((what, replay)) = lockstep(*ty, kind, &sb, 1) {
                                ctx.violation(&format!("C01:{}:nonlinear-step", info.name), &format!("{}: {}", info.name, what), replay);
                            }
                        }
                        ctx.add("conformance_mismatches", allbad);
                    }
                }
                Err(e) => ctx.machinery(&format!("{}: cannot extract the engine matrix (undecided; the lock-step enumeration above still decides the enumerated states): {}", info.name, e)),
            }
        }

        // (c2) value-directed deep states: start states s for which the state k steps later (k = 2^8-1, 2^8,
        // 2^16-1, 2^16) has a special word pattern (a zero word, equal words, ...), obtained by solving
        // T_ref^k s = target on the reference matrix; lock-step for k+6 steps. What a periodic check
        // (every 2^8-th / 2^16-th call) keyed on the state's words would single out.
        if kind.is_linear() {
            let tref = ref_matrix(RefModel::Xo(kind));
            let n = kind.state_bits();
            let mut starts: Vec<(usize, Vec<u8>)> = Vec::new();
            for k in [255usize, 256, 65535, 65536] {
                let tk = tref.pow_big(&refmodels::gf2::BigU::from_u64(k as u64));
                let imgs = linear::special_images(n, kind.word_bits(), ctx.seed ^ k as u64);
                for t in imgs.into_iter().step_by(if k > 1000 { 3 } else { 1 }) {
                    if let Some(s0) = tk.solve(&t) {
                        if !s0.is_zero() {
                            starts.push((k, s0.to_bytes()));
                        }
                    }
                }
            }
            let res: Vec<_> = starts.par_iter().map(|(k, s0)| lockstep(*ty, kind, s0, k + 6)).collect();
            ctx.add("value_directed_deep_starts", starts.len() as u64);
            for r in res {
                match r {
                    Ok(nn) => ctx.add("steps_compared", nn),
                    Err((what, replay)) => ctx.violation(&format!("C01:{}:deep-special", info.name), &format!("{}: {}", info.name, what), replay),
                }
            }
        }

        // (d) scrambler sub-cubes
        // (the second, assertion-free build of the harness runs a lighter pass: 2^16 cubes)
        let light = std::env::var("VERIF_LIGHT").is_ok();
        for (label, job) in cube_jobs(kind, ctx.seed, thorough && !light, if light { 16 } else { 24 }) {
            let r = ty.sweep(&job);
            ctx.add("cube_elements", r.elements);
            ctx.add("cubes", 1);
            if let Some(f) = r.failure {
                let input = r.failing_input.unwrap_or_default();
                ctx.violation(
                    &format!("C01:{}:cube", info.name),
                    &format!("{}: {} in {}: {}", info.name, hex(&input), label, f),
                    json!({"kind":"lockstep","type":info.name,"seed":hex(&input),"steps":1}),
                );
            }
        }
    }
    let states = ctx.get("seeds_lockstep") + ctx.get("chain_bases") + ctx.get("carry_pairs") + ctx.get("cube_elements");
    ctx.set("states", states);
    ctx.set("transitions", ctx.get("steps_compared") + ctx.get("cube_elements"));
    ctx.set("evaluations", states);
    ctx.set("distinct", ctx.get("seeds_lockstep") + ctx.get("carry_pairs") + ctx.get("cube_elements"));
    ctx.set_exhaustive(true);
    ctx.note("exhaustive_spaces", json!("every listed alphabet (O,W1,W2,WZ,BYTE,carry x carry) and every listed sub-cube is enumerated completely; the engine matrix comparison covers all states of the linear model"));
    Outcome {
        level: "model_checking",
        keys: EvidenceKeys {
            states: "states",
            transitions: "transitions",
            traces: "conformance_replays",
            evaluations: "evaluations",
            distinct: "distinct",
            rule: "states = non-zero seeds of the structured alphabets + dense chained seeds + carry-operand products + complete sub-cubes of the scrambler operands; each is stepped in lock-step with the reference model; distinct = seeds that are pairwise different by construction (alphabet elements and cube elements)".into(),
        },
    }
}
