//! C19 — generators share no hidden state: results are independent of other instances, of the
//! interleaving and of the thread. E5: all operation-granularity interleavings x thread
//! assignments on real OS threads; baseline = each instance alone in a fresh child process.

use super::Outcome;
use crate::alphabet;
use crate::evidence::{hex, unhex, Ctx, EvidenceKeys, Tier};
use crate::jitter_env;
use crate::ops::{apply, ops_json, Op};
use crate::subject::{Gen, Registry, TimerScript};
use rayon::prelude::*;
use serde_json::{json, Value};
use std::collections::{BTreeMap, BTreeSet};

#[derive(Clone, Debug, PartialEq, Eq, PartialOrd, Ord)]
pub enum Ctor {
    FromSeed(Vec<u8>),
    FromU64(u64),
    /// JitterRng::new_with_timer over raw_readings(salt, len) (+ `stuck_run` consecutive stuck
    /// measurements starting at reading 5); rounds set right after if Some
    Jitter { salt: u64, len: usize, rounds: Option<u8>, stuck_run: usize, overrides: Vec<(usize, u64)>, zst: Option<u8>, scale: u64 },
}

#[derive(Clone, Debug, PartialEq, Eq, PartialOrd, Ord)]
pub struct Inst {
    pub ty: String,
    pub ctor: Ctor,
    pub ops: Vec<Op>,
}

impl Inst {
    pub fn to_json(&self) -> Value {
        let c = match &self.ctor {
            Ctor::FromSeed(s) => json!({"from_seed": hex(s)}),
            Ctor::FromU64(x) => json!({"seed_from_u64": x}),
            Ctor::Jitter { salt, len, rounds, stuck_run, overrides, zst, scale } => json!({"jitter": {"salt": salt, "len": len, "rounds": rounds, "stuck_run": stuck_run, "overrides": overrides, "zero_sized_timer_slot": zst, "scale": scale}}),
        };
        json!({"type": self.ty, "ctor": c, "ops": ops_json(&self.ops)})
    }
    pub fn from_json(v: &Value) -> Option<Inst> {
        let ty = v.get("type")?.as_str()?.to_string();
        let c = v.get("ctor")?;
        let ctor = if let Some(s) = c.get("from_seed").and_then(|x| x.as_str()) {
            Ctor::FromSeed(unhex(s))
        } else if let Some(x) = c.get("seed_from_u64").and_then(|x| x.as_u64()) {
            Ctor::FromU64(x)
        } else if let Some(j) = c.get("jitter") {
            Ctor::Jitter { salt: j.get("salt")?.as_u64()?, len: j.get("len")?.as_u64()? as usize, rounds: j.get("rounds").and_then(|r| r.as_u64()).map(|r| r as u8), stuck_run: j.get("stuck_run").and_then(|r| r.as_u64()).unwrap_or(0) as usize, overrides: j.get("overrides").and_then(|o| o.as_array()).map(|a| a.iter().filter_map(|p| Some((p.get(0)?.as_u64()? as usize, p.get(1)?.as_u64()?))).collect()).unwrap_or_default(), zst: j.get("zero_sized_timer_slot").and_then(|r| r.as_u64()).map(|r| r as u8), scale: j.get("scale").and_then(|r| r.as_u64()).unwrap_or(1) }
        } else {
            return None;
        };
        let ops = v.get("ops")?.as_array()?.iter().filter_map(Op::from_json).collect();
        Some(Inst { ty, ctor, ops })
    }
    /// number of scheduled steps: construction + operations
    pub fn steps(&self) -> usize {
        1 + self.ops.len()
    }
}

pub fn construct(reg: &dyn Registry, i: &Inst) -> Box<dyn Gen> {
    match &i.ctor {
        Ctor::FromSeed(s) => reg.get(&i.ty).expect("type").from_seed(s),
        Ctor::FromU64(x) => reg.get(&i.ty).expect("type").seed_from_u64(*x),
        Ctor::Jitter { salt, len, rounds, stuck_run, overrides, zst, scale } => {
            let mut base = jitter_env::raw_readings(*salt, *len);
            if *scale != 1 {
                let r0 = base[0];
                for r in base.iter_mut() {
                    *r = r0.wrapping_add(r.wrapping_sub(r0).wrapping_mul(*scale));
                }
            }
            let mut readings = if *stuck_run > 0 { jitter_env::with_stuck_run(&base, 5, *stuck_run, jitter_env::Dev::Repeat3) } else { base };
            for &(i, v) in overrides {
                if i < readings.len() {
                    readings[i] = v;
                }
            }
            let mut g = match zst {
                Some(slot) => reg.jitter_zst(*slot as usize, TimerScript::new(readings)),
                None => reg.jitter(TimerScript::new(readings)),
            };
            if let Some(r) = rounds {
                g.jitter().unwrap().set_rounds(*r);
            }
            g
        }
    }
}

/// Run one instance alone (used in the child process and nowhere else for verdicts).
pub fn solo_run(reg: &dyn Registry, i: &Inst) -> Vec<String> {
    let mut g = construct(reg, i);
    i.ops.iter().map(|o| apply(&mut g, o).to_json().to_string()).collect()
}

pub fn solo_main(reg: &dyn Registry, args: &[String]) -> i32 {
    let Some(a) = args.first() else { return 2 };
    let Ok(v) = serde_json::from_str::<Value>(a) else { return 2 };
    let Some(i) = Inst::from_json(&v) else { return 2 };
    let obs = solo_run(reg, &i);
    println!("{}", serde_json::to_string(&obs).unwrap());
    0
}

fn solo_child(i: &Inst) -> Result<Vec<String>, String> {
    let exe = std::env::current_exe().map_err(|e| e.to_string())?;
    let out = std::process::Command::new(exe).arg("solo").arg(i.to_json().to_string()).output().map_err(|e| e.to_string())?;
    if !out.status.success() {
        return Err(format!("solo child failed: {}", String::from_utf8_lossy(&out.stderr)));
    }
    serde_json::from_slice::<Vec<String>>(&out.stdout).map_err(|e| e.to_string())
}

/// all interleavings of instances with the given step counts
fn interleavings(counts: &[usize]) -> Vec<Vec<usize>> {
    fn rec(left: &mut Vec<usize>, cur: &mut Vec<usize>, out: &mut Vec<Vec<usize>>) {
        if left.iter().all(|&c| c == 0) {
            out.push(cur.clone());
            return;
        }
        for i in 0..left.len() {
            if left[i] > 0 {
                left[i] -= 1;
                cur.push(i);
                rec(left, cur, out);
                cur.pop();
                left[i] += 1;
            }
        }
    }
    let mut out = Vec::new();
    rec(&mut counts.to_vec(), &mut Vec::new(), &mut out);
    out
}

type Job<'a> = Box<dyn FnOnce() + Send + 'a>;

/// One worker thread's mailbox: a spin-waited slot (hand-off latency ~ 100 ns instead of a
/// futex round trip, which matters at millions of hand-offs).
struct Mailbox<'a> {
    /// 0 idle, 1 job posted, 2 job done, 3 quit
    state: std::sync::atomic::AtomicU8,
    job: std::sync::Mutex<Option<Job<'a>>>,
}

struct Pool<'a> {
    boxes: Vec<std::sync::Arc<Mailbox<'a>>>,
}

fn wait_for(state: &std::sync::atomic::AtomicU8, want: &[u8]) -> u8 {
    let mut spins = 0u32;
    loop {
        let v = state.load(std::sync::atomic::Ordering::Acquire);
        if want.contains(&v) {
            return v;
        }
        spins += 1;
        if spins % 4096 == 0 {
            std::thread::yield_now();
        } else {
            std::hint::spin_loop();
        }
    }
}

fn worker(mb: std::sync::Arc<Mailbox<'_>>) {
    loop {
        let v = wait_for(&mb.state, &[1, 3]);
        if v == 3 {
            return;
        }
        let job = mb.job.lock().unwrap().take().expect("job");
        job();
        mb.state.store(2, std::sync::atomic::Ordering::Release);
    }
}

impl<'a> Pool<'a> {
    /// run `f` on worker `t`, wait for the result (execution is serialised: fully determined by the schedule)
    fn run<R: Send + 'a>(&self, t: usize, f: impl FnOnce() -> R + Send + 'a) -> R {
        let result: std::sync::Arc<std::sync::Mutex<Option<R>>> = std::sync::Arc::new(std::sync::Mutex::new(None));
        let r2 = result.clone();
        let mb = &self.boxes[t];
        *mb.job.lock().unwrap() = Some(Box::new(move || {
            *r2.lock().unwrap() = Some(f());
        }));
        mb.state.store(1, std::sync::atomic::Ordering::Release);
        wait_for(&mb.state, &[2]);
        mb.state.store(0, std::sync::atomic::Ordering::Release);
        let r = result.lock().unwrap().take().expect("worker result");
        r
    }
    fn quit(&self) {
        for mb in &self.boxes {
            mb.state.store(3, std::sync::atomic::Ordering::Release);
        }
    }
}

#[derive(Default)]
struct Counters {
    schedules: u64,
    handoffs: u64,
    alternate_on_one_thread: u64,
    migrations: u64,
}

fn run_schedule<'a>(reg: &'a dyn Registry, pool: &Pool<'a>, insts: &'a [Inst], order: &[usize], threads: &[usize], c: &mut Counters) -> Vec<Vec<String>> {
    let mut gens: Vec<Option<Box<dyn Gen>>> = insts.iter().map(|_| None).collect();
    let mut cursor = vec![0usize; insts.len()];
    let mut obs: Vec<Vec<String>> = insts.iter().map(|_| Vec::new()).collect();
    let mut last_thread: Vec<Option<usize>> = vec![None; insts.len()];
    let mut last_on_thread: Vec<Option<usize>> = vec![None; 2];
    let mut migrated = false;
    let mut alternated = false;
    for (step, &i) in order.iter().enumerate() {
        let t = threads[step];
        if let Some(lt) = last_thread[i] {
            if lt != t {
                migrated = true;
            }
        }
        if let Some(prev) = last_on_thread[t] {
            if prev != i {
                alternated = true;
            }
        }
        last_thread[i] = Some(t);
        last_on_thread[t] = Some(i);
        c.handoffs += 1;
        if cursor[i] == 0 {
            let inst = &insts[i];
            gens[i] = Some(pool.run(t, move || construct(reg, inst)));
        } else {
            let op = &insts[i].ops[cursor[i] - 1];
            let mut g = gens[i].take().unwrap();
            let (g2, o) = pool.run(t, move || {
                let o = apply(&mut g, op);
                (g, o)
            });
            gens[i] = Some(g2);
            obs[i].push(o.to_json().to_string());
        }
        cursor[i] += 1;
    }
    c.schedules += 1;
    if migrated {
        c.migrations += 1;
    }
    if alternated {
        c.alternate_on_one_thread += 1;
    }
    obs
}

fn thread_patterns(steps: usize, full: bool) -> Vec<Vec<usize>> {
    if full {
        (0..1usize << steps).map(|m| (0..steps).map(|s| (m >> s) & 1).collect()).collect()
    } else {
        // canonical patterns for long schedules
        let mut v: Vec<Vec<usize>> = vec![vec![0; steps], (0..steps).map(|s| s % 2).collect(), (0..steps).map(|s| (s / 2) % 2).collect(), (0..steps).map(|s| (s / 3) % 2).collect(), (0..steps).map(|s| if s < steps / 2 { 0 } else { 1 }).collect(), (0..steps).map(|s| (s * s) % 2).collect(), (0..steps).map(|s| ((s + 1) / 2) % 2).collect(), (0..steps).map(|s| (s % 3 == 0) as usize).collect()];
        v.dedup();
        v
    }
}

pub fn run(reg: &dyn Registry, ctx: &Ctx) -> Outcome {
    let thorough = ctx.tier == Tier::Thorough;
    ctx.assume("scheduling points are needed only between operations: the crates contain no synchronisation on any generator path (see source_inventory); unsynchronised shared access is excluded by the language (no unsafe shared state; inventory printed)");
    ctx.assume("baseline = the same (type, constructor, history) run alone in a fresh child process of the same binary");
    ctx.assume("JitterRng::new() (wall clock) is excluded; its JITTER_ROUNDS cache is reached only from there");
    // static inventory (informational)
    let inv = reg.source_inventory();
    ctx.note("source_inventory", json!(inv.iter().map(|(k, p, n)| format!("{}: {} x{}", k, p, n)).collect::<Vec<_>>()));

    // ---------------- configurations ----------------
    let types = reg.types();
    let mut configs: Vec<Vec<Inst>> = Vec::new();
    let dense = |ty: &dyn crate::subject::GenType, tag: u64| alphabet::bg_bytes(ctx.seed, 0x1900 + tag, ty.info().seed_len);
    for ty in &types {
        let info = ty.info();
        let z = vec![0u8; info.seed_len];
        let a = dense(*ty, 1);
        let b = dense(*ty, 2);
        let third = if info.has_jump { Op::Jump } else { Op::Fill(5) };
        let hist_a = vec![Op::U32, Op::Fill(5)];
        let hist_b = vec![Op::U64, third.clone()];
        for (sa, sb) in [(a.clone(), a.clone()), (a.clone(), b.clone()), (z.clone(), z.clone()), (z.clone(), a.clone())] {
            configs.push(vec![Inst { ty: info.name.into(), ctor: Ctor::FromSeed(sa), ops: hist_a.clone() }, Inst { ty: info.name.into(), ctor: Ctor::FromSeed(sb), ops: hist_b.clone() }]);
        }
        // seed_from_u64 route (uses SplitMix64 / PCG internally)
        configs.push(vec![Inst { ty: info.name.into(), ctor: Ctor::FromU64(0), ops: vec![Op::U64, Op::U32] }, Inst { ty: info.name.into(), ctor: Ctor::FromU64(7), ops: vec![Op::U32, Op::U64] }]);
    }
    // same-type pairs of *different* seeds that collide under the usual weak fingerprints (a seed-keyed
    // process-wide cache that compares a digest instead of the seed): swapped words (XOR / sum folds),
    // h*31+w over 32-bit words, 64-bit words and bytes, equal prefix, equal suffix
    for ty in &types {
        let info = ty.info();
        let n = info.seed_len;
        if n < 8 {
            continue;
        }
        let mut a = dense(*ty, 5);
        a[0] = 0x41;
        a[1] = 0x10;
        let mut variants: Vec<Vec<u8>> = Vec::new();
        let mut v = a.clone();
        for k in 0..4 {
            v.swap(k, 4 + k);
        }
        variants.push(v);
        let w = |s: &[u8], i: usize| u32::from_le_bytes([s[4 * i], s[4 * i + 1], s[4 * i + 2], s[4 * i + 3]]);
        let mut v = a.clone();
        v[0..4].copy_from_slice(&w(&a, 0).wrapping_sub(1).to_le_bytes());
        v[4..8].copy_from_slice(&w(&a, 1).wrapping_add(31).to_le_bytes());
        variants.push(v);
        if n >= 16 {
            let q = |s: &[u8], i: usize| u64::from_le_bytes([s[8 * i], s[8 * i + 1], s[8 * i + 2], s[8 * i + 3], s[8 * i + 4], s[8 * i + 5], s[8 * i + 6], s[8 * i + 7]]);
            let mut v = a.clone();
            v[0..8].copy_from_slice(&q(&a, 0).wrapping_sub(1).to_le_bytes());
            v[8..16].copy_from_slice(&q(&a, 1).wrapping_add(31).to_le_bytes());
            variants.push(v);
        }
        let mut v = a.clone();
        v[0] = 0x40;
        v[1] = 0x2f;
        variants.push(v);
        let mut v = a.clone();
        v[n - 1] ^= 0x80;
        variants.push(v);
        let mut v = a.clone();
        v[2] ^= 0x01;
        variants.push(v);
        for b in variants {
            configs.push(vec![Inst { ty: info.name.into(), ctor: Ctor::FromSeed(a.clone()), ops: vec![Op::U64, Op::U32] }, Inst { ty: info.name.into(), ctor: Ctor::FromSeed(b), ops: vec![Op::U64, Op::U32] }]);
        }
    }
    // cross-type pairs: each type with the next, every xoshiro type with SplitMix64; zero seeds and dense seeds
    for (i, ty) in types.iter().enumerate() {
        let next = types[(i + 1) % types.len()];
        let mut partners = vec![next];
        if ty.info().krate == "rand_xoshiro" && ty.info().name != "SplitMix64" {
            partners.push(reg.get("SplitMix64").unwrap());
        }
        for p in partners {
            for zero in [true, false] {
                let sa = if zero { vec![0u8; ty.info().seed_len] } else { dense(*ty, 3) };
                let sb = if zero { vec![0u8; p.info().seed_len] } else { dense(p, 4) };
                configs.push(vec![Inst { ty: ty.info().name.into(), ctor: Ctor::FromSeed(sa), ops: vec![Op::U64, Op::U32] }, Inst { ty: p.info().name.into(), ctor: Ctor::FromSeed(sb), ops: vec![Op::U64, Op::Fill(5)] }]);
            }
        }
    }
    // zero-seeded generators of every state size, smaller before larger and vice versa (shared
    // zero-seed replacement caches)
    for (small, large) in [("Xoroshiro64Star", "Xoroshiro128PlusPlus"), ("Xoroshiro128PlusPlus", "Xoshiro256PlusPlus"), ("Xoshiro256StarStar", "Xoshiro512StarStar"), ("Xoroshiro64StarStar", "Xoshiro512Plus"), ("Xoshiro128Plus", "Xoshiro256Plus")] {
        let s = reg.get(small).unwrap();
        let l = reg.get(large).unwrap();
        configs.push(vec![Inst { ty: small.into(), ctor: Ctor::FromSeed(vec![0u8; s.info().seed_len]), ops: vec![Op::U64, Op::U64] }, Inst { ty: large.into(), ctor: Ctor::FromSeed(vec![0u8; l.info().seed_len]), ops: vec![Op::U64, Op::U64] }]);
    }
    // JitterRng with scripted timers: two instances; one runs test_timer first
    let jit = |salt: u64, len: usize, rounds: Option<u8>, ops: Vec<Op>| Inst { ty: "JitterRng".into(), ctor: Ctor::Jitter { salt, len, rounds, stuck_run: 0, overrides: vec![], zst: None, scale: 1 }, ops };
    let jit_stuck = |salt: u64, len: usize, rounds: Option<u8>, stuck_run: usize, ops: Vec<Op>| Inst { ty: "JitterRng".into(), ctor: Ctor::Jitter { salt, len, rounds, stuck_run, overrides: vec![], zst: None, scale: 1 }, ops };
    // one instance sees a long run of stuck measurements, the other an ordinary single one
    for k in [40usize, 140, 300, 1100] {
        configs.push(vec![jit_stuck(7, 3 * k + 400, Some(2), k, vec![Op::U64, Op::U32]), jit_stuck(8, 400, Some(2), 1, vec![Op::U64, Op::U64])]);
    }
    configs.push(vec![jit(1, 200, Some(2), vec![Op::U64, Op::U32]), jit(2, 200, Some(3), vec![Op::U32, Op::Fill(9)])]);
    configs.push(vec![jit(3, 1900, None, vec![Op::TestTimer, Op::TimerStats(true)]), jit(4, 600, None, vec![Op::U64, Op::U32])]);
    configs.push(vec![jit(5, 1900, None, vec![Op::TestTimer, Op::SetRounds(2)]), jit(5, 1900, None, vec![Op::TestTimer, Op::TimerStats(false)])]);
    configs.push(vec![jit(6, 600, None, vec![Op::U64, Op::U32]), Inst { ty: "Hc128Rng".into(), ctor: Ctor::FromSeed(vec![0u8; 32]), ops: vec![Op::U64, Op::Fill(5)] }]);
    // arithmetic coincidences between the measurements of two instances: instance B's first probe
    // deltas are tied to the last delta L and last second difference L2 that instance A's collection
    // leaves behind (a stuck-test history kept outside the per-collection state would connect them)
    {
        let a_readings = jitter_env::raw_readings(21, 200);
        // rounds 1: prime r0; priming measurement probe r2; measured probe r5 (one collection = 7 readings)
        let d_prime = a_readings[2].wrapping_sub(a_readings[0]);
        let l = a_readings[5].wrapping_sub(a_readings[2]);
        let l2 = d_prime.wrapping_sub(l); // last_delta2 = previous delta - last delta
        let b_base = jitter_env::raw_readings(22, 200);
        let mk_b = |d0: u64, d1: Option<u64>| -> Inst {
            let mut ov = vec![(2usize, b_base[0].wrapping_add(d0))];
            if let Some(d1) = d1 {
                ov.push((5, b_base[0].wrapping_add(d0).wrapping_add(d1)));
            }
            Inst { ty: "JitterRng".into(), ctor: Ctor::Jitter { salt: 22, len: 200, rounds: Some(1), stuck_run: 0, overrides: ov, zst: None, scale: 1 }, ops: vec![Op::U64, Op::U64] }
        };
        let a = jit(21, 200, Some(1), vec![Op::U64, Op::U32]);
        // L == d0 ; L - d0 == L2 ; L == 2*d0 - d1
        configs.push(vec![a.clone(), mk_b(l, None)]);
        configs.push(vec![a.clone(), mk_b(l.wrapping_sub(l2), None)]);
        let d0 = 1500u64;
        configs.push(vec![a.clone(), mk_b(d0, Some((2 * d0).wrapping_sub(l)))]);
        configs.push(vec![a, mk_b(l, Some(l))]);
    }
    // timers that are zero-sized `fn` items of different types (anything cached per timer *type* or per
    // "stateless timer" would connect them): different qualities, test_timer on one before the other
    {
        let zst = |slot: u8, salt: u64, scale: u64, ops: Vec<Op>| Inst { ty: "JitterRng".into(), ctor: Ctor::Jitter { salt, len: 1900, rounds: None, stuck_run: 0, overrides: vec![], zst: Some(slot), scale }, ops };
        for (sa, sb) in [(1u64, 100u64), (1, 64), (64, 1), (100, 1)] {
            configs.push(vec![zst(0, 31, sa, vec![Op::TestTimer, Op::U64]), zst(1, 32, sb, vec![Op::TestTimer, Op::U64])]);
        }
        configs.push(vec![zst(0, 33, 1, vec![Op::TestTimer]), zst(1, 34, 64, vec![Op::TestTimer]), zst(2, 35, 100, vec![Op::TestTimer])]);
        // the same fn item type for two generators (slot shared: one after the other only)
    }
    // three instances for representative types
    for name in ["Xoshiro256PlusPlus", "XorShiftRng", "Hc128Rng", "IsaacRng", "Isaac64Rng", "Xoroshiro64Star"] {
        let ty = reg.get(name).unwrap();
        let z = vec![0u8; ty.info().seed_len];
        configs.push(vec![
            Inst { ty: name.into(), ctor: Ctor::FromSeed(z.clone()), ops: vec![Op::U32, Op::U64] },
            Inst { ty: name.into(), ctor: Ctor::FromSeed(dense(ty, 5)), ops: vec![Op::U64, Op::Fill(5)] },
            Inst { ty: name.into(), ctor: Ctor::FromSeed(z), ops: vec![Op::Fill(5), Op::U32] },
        ]);
    }
    ctx.set("configurations", configs.len() as u64);

    // ---------------- solo baselines in fresh child processes ----------------
    let distinct: BTreeSet<Inst> = configs.iter().flatten().cloned().collect();
    let distinct: Vec<Inst> = distinct.into_iter().collect();
    let solos: Vec<(Inst, Result<Vec<String>, String>)> = distinct.par_iter().map(|i| (i.clone(), solo_child(i))).collect();
    ctx.set("solo_children", solos.len() as u64);
    let mut base: BTreeMap<Inst, Vec<String>> = BTreeMap::new();
    for (i, r) in solos {
        match r {
            Ok(o) => {
                base.insert(i, o);
            }
            Err(e) => ctx.machinery(&format!("solo baseline failed for {}: {}", i.to_json(), e)),
        }
    }
    if ctx.has_machinery_failure() {
        return outcome();
    }
    // determinism self-check of the baseline: one child twice
    if let Some(i) = distinct.first() {
        if solo_child(i).ok().as_ref() != base.get(i) {
            ctx.machinery("solo baseline is not deterministic");
        }
    }

    // ---------------- schedules ----------------
    let mut counters = Counters::default();
    std::thread::scope(|scope| {
        let mut boxes = Vec::new();
        for _ in 0..2 {
            let mb = std::sync::Arc::new(Mailbox { state: std::sync::atomic::AtomicU8::new(0), job: std::sync::Mutex::new(None) });
            boxes.push(mb.clone());
            scope.spawn(move || worker(mb));
        }
        let pool = Pool { boxes };
        for cfg in &configs {
            let counts: Vec<usize> = cfg.iter().map(|i| i.steps()).collect();
            let total: usize = counts.iter().sum();
            let orders = interleavings(&counts);
            let heavy = cfg.iter().any(|i| i.ops.contains(&Op::TestTimer));
            let patterns = thread_patterns(total, total <= 6 && !heavy && (thorough || true));
            let orders: Vec<&Vec<usize>> = if heavy { orders.iter().step_by(1).collect() } else { orders.iter().collect() };
            let mut reported = false;
            for order in orders {
                for th in &patterns {
                    let obs = run_schedule(reg, &pool, cfg, order, th, &mut counters);
                    for (k, inst) in cfg.iter().enumerate() {
                        let want = &base[inst];
                        if &obs[k] != want && !reported {
                            reported = true;
                            ctx.violation(
                                &format!("C19:{}:{}", cfg.iter().map(|i| i.ty.clone()).collect::<Vec<_>>().join("+"), match &inst.ctor {
                                    Ctor::FromSeed(s) if s.iter().all(|&b| b == 0) => "zero-seed",
                                    Ctor::FromSeed(_) => "from_seed",
                                    Ctor::FromU64(_) => "seed_from_u64",
                                    Ctor::Jitter { .. } => "jitter",
                                }),
                                &format!(
                                    "instance {} ({}) returned {:?} under schedule order={:?} threads={:?} together with {}, but {:?} when run alone in a fresh process",
                                    k,
                                    inst.to_json(),
                                    obs[k],
                                    order,
                                    th,
                                    cfg.iter().enumerate().filter(|(j, _)| *j != k).map(|(_, i)| i.to_json().to_string()).collect::<Vec<_>>().join(" and "),
                                    want
                                ),
                                json!({"kind":"schedule","instances":cfg.iter().map(|i| i.to_json()).collect::<Vec<_>>(),"order":order,"threads":th,"instance":k,"observed":obs[k],"solo":want}),
                            );
                        }
                    }
                }
            }
        }
        pool.quit();
    });
    // ---------------- re-entrant constructions ----------------
    // A scheduling point *inside* one operation: the source RNG handed to from_rng is user code and may
    // itself construct and use another generator (before or after delivering the requested bytes).
    // Both generators must come out exactly as when constructed one after the other.
    {
        use crate::subject::{GenType, ScriptSource};
        struct Reentrant<'a> {
            bytes: Vec<u8>,
            pos: usize,
            partner: &'a dyn GenType,
            partner_bytes: Vec<u8>,
            before: bool,
            partner_obs: Option<Vec<String>>,
        }
        impl<'a> Reentrant<'a> {
            fn nested(&mut self) {
                if self.partner_obs.is_none() {
                    let mut src = ScriptSource::new(self.partner_bytes.clone());
                    let mut b = self.partner.from_rng(&mut src);
                    self.partner_obs = Some(vec![apply(&mut b, &Op::U64).to_json().to_string(), apply(&mut b, &Op::U32).to_json().to_string(), apply(&mut b, &Op::Fill(9)).to_json().to_string()]);
                }
            }
        }
        impl<'a> Gen for Reentrant<'a> {
            fn next_u32(&mut self) -> u32 {
                let mut b = [0u8; 4];
                self.fill_bytes(&mut b);
                u32::from_le_bytes(b)
            }
            fn next_u64(&mut self) -> u64 {
                let mut b = [0u8; 8];
                self.fill_bytes(&mut b);
                u64::from_le_bytes(b)
            }
            fn fill_bytes(&mut self, dest: &mut [u8]) {
                if self.before {
                    self.nested();
                }
                for d in dest.iter_mut() {
                    *d = if self.pos < self.bytes.len() { self.bytes[self.pos] } else { 0xA5 ^ (self.pos as u8) };
                    self.pos += 1;
                }
                if !self.before {
                    self.nested();
                }
            }
            fn jump(&mut self) {}
            fn long_jump(&mut self) {}
            fn clone_box(&self) -> Box<dyn Gen> {
                unimplemented!()
            }
            fn clone_from_dyn(&mut self, _: &dyn Gen) {
                unimplemented!()
            }
            fn eq_dyn(&self, _: &dyn Gen) -> Option<bool> {
                None
            }
            fn debug(&self, _: bool) -> String {
                String::new()
            }
            fn ser(&self) -> Option<Vec<u8>> {
                None
            }
            fn as_any(&self) -> &dyn std::any::Any {
                unimplemented!()
            }
        }
        // SAFETY of the Send bound: the value never leaves this thread
        unsafe impl<'a> Send for Reentrant<'a> {}
        let src_len = |t: &dyn GenType| match t.info().family {
            crate::subject::Family::Isaac => 1024,
            crate::subject::Family::Isaac64 => 2048,
            _ => t.info().seed_len,
        };
        let obs3 = |g: &mut Box<dyn Gen>| vec![apply(g, &Op::U64).to_json().to_string(), apply(g, &Op::U32).to_json().to_string(), apply(g, &Op::Fill(9)).to_json().to_string()];
        for (i, ty) in types.iter().enumerate() {
            for partner in [*ty, types[(i + 1) % types.len()]] {
                for before in [false, true] {
                    let a_bytes = alphabet::bg_bytes(ctx.seed, 0x19A0 + i as u64, src_len(*ty));
                    let b_bytes = alphabet::bg_bytes(ctx.seed, 0x19B0 + i as u64, src_len(partner));
                    // one after the other
                    let mut sa = ScriptSource::new(a_bytes.clone());
                    let mut ga = ty.from_rng(&mut sa);
                    let want_a = obs3(&mut ga);
                    let mut sb = ScriptSource::new(b_bytes.clone());
                    let mut gb = partner.from_rng(&mut sb);
                    let want_b = obs3(&mut gb);
                    // nested
                    let mut re = Reentrant { bytes: a_bytes.clone(), pos: 0, partner, partner_bytes: b_bytes.clone(), before, partner_obs: None };
                    let mut g = ty.from_rng_of(&mut re);
                    let got_a = obs3(&mut g);
                    let got_b = re.partner_obs.clone().unwrap_or_default();
                    ctx.add("reentrant_constructions", 1);
                    if got_a != want_a || got_b != want_b {
                        ctx.violation(
                            &format!("C19:{}+{}:reentrant-from_rng", ty.info().name, partner.info().name),
                            &format!(
                                "{}::from_rng whose source constructs a {} {} delivering its bytes: outer generator returns {:?} (alone: {:?}), inner generator {:?} (alone: {:?})",
                                ty.info().name,
                                partner.info().name,
                                if before { "before" } else { "after" },
                                got_a,
                                want_a,
                                got_b,
                                want_b
                            ),
                            json!({"kind":"reentrant","outer":ty.info().name,"inner":partner.info().name,"nested_before_delivery":before,"outer_bytes":hex(&a_bytes[..a_bytes.len().min(64)]),"inner_bytes":hex(&b_bytes[..b_bytes.len().min(64)])}),
                        );
                    }
                }
            }
        }
    }
    // ---------------- clone families ----------------
    // A clone is another instance: whatever is done to it (outputs, jumps, set_rounds) must not change
    // what the original returns afterwards, and vice versa.
    {
        let obs_of = |g: &mut Box<dyn Gen>, ops: &[Op]| -> Vec<String> { ops.iter().map(|o| apply(g, o).to_json().to_string()).collect() };
        let mut families = 0u64;
        for ty in &types {
            let info = ty.info();
            let seed = dense(*ty, 11);
            let mut disturb = vec![Op::U64, Op::Fill(9), Op::U32];
            if info.has_jump {
                disturb.push(Op::Jump);
                disturb.push(Op::LongJump);
            }
            let cont = vec![Op::U32, Op::U64, Op::Fill(5)];
            for prefix in [vec![], vec![Op::U32], vec![Op::Fill(3), Op::U64]] {
                let want = {
                    let mut g = ty.from_seed(&seed);
                    obs_of(&mut g, &prefix);
                    obs_of(&mut g, &cont)
                };
                // disturb the clone, observe the original
                let mut g = ty.from_seed(&seed);
                obs_of(&mut g, &prefix);
                let mut c = g.clone_box();
                obs_of(&mut c, &disturb);
                let got = obs_of(&mut g, &cont);
                // disturb the original, observe the clone
                let mut g2 = ty.from_seed(&seed);
                obs_of(&mut g2, &prefix);
                let mut c2 = g2.clone_box();
                obs_of(&mut g2, &disturb);
                let got_c = obs_of(&mut c2, &cont);
                families += 2;
                if got != want || got_c != want {
                    ctx.violation(&format!("C19:{}:clone-family", info.name), &format!("{}: after {}, operations on {} changed what {} returns: {:?} instead of {:?}", info.name, crate::ops::ops_short(&prefix), if got != want { "a clone" } else { "the original" }, if got != want { "the original" } else { "the clone" }, if got != want { &got } else { &got_c }, want), json!({"kind":"note","type":info.name,"seed":hex(&seed),"prefix":ops_json(&prefix),"disturb":ops_json(&disturb)}));
                    break;
                }
            }
        }
        // JitterRng: clones on identical independent timers; set_rounds / outputs / timer_stats on one member
        for rounds in [1u8, 2] {
            for prefix in [vec![], vec![Op::U32], vec![Op::U64, Op::U32]] {
                for disturb in [vec![Op::SetRounds(5)], vec![Op::SetRounds(1), Op::U64], vec![Op::U64, Op::U32], vec![Op::TimerStats(true)], vec![Op::TestTimer]] {
                    let cont = vec![Op::U64, Op::U32, Op::U32];
                    let readings = jitter_env::raw_readings(ctx.seed ^ 0x19CF ^ rounds as u64, 2600);
                    let mk = || {
                        let mut g = reg.jitter_forking(TimerScript::new(readings.clone()));
                        g.jitter().unwrap().set_rounds(rounds);
                        g
                    };
                    // a clone that nobody touches, as the reference for "the clone alone"
                    let (want_orig, want_clone) = {
                        let mut g = mk();
                        obs_of(&mut g, &prefix);
                        let mut c = g.clone_box();
                        (obs_of(&mut g, &cont), obs_of(&mut c, &cont))
                    };
                    let mut g = mk();
                    obs_of(&mut g, &prefix);
                    let mut c = g.clone_box();
                    obs_of(&mut c, &disturb);
                    let got_orig = obs_of(&mut g, &cont);
                    let mut g2 = mk();
                    obs_of(&mut g2, &prefix);
                    let mut c2 = g2.clone_box();
                    obs_of(&mut g2, &disturb);
                    let got_clone = obs_of(&mut c2, &cont);
                    families += 2;
                    if got_orig != want_orig || got_clone != want_clone {
                        ctx.violation("C19:JitterRng:clone-family", &format!("JitterRng (rounds {}): after {}, {} on {} changed what {} returns: {:?} instead of {:?}", rounds, crate::ops::ops_short(&prefix), crate::ops::ops_short(&disturb), if got_orig != want_orig { "a clone" } else { "the original" }, if got_orig != want_orig { "the original" } else { "the clone" }, if got_orig != want_orig { &got_orig } else { &got_clone }, if got_orig != want_orig { &want_orig } else { &want_clone }), json!({"kind":"note","rounds":rounds,"prefix":ops_json(&prefix),"disturb":ops_json(&disturb)}));
                    }
                }
            }
        }
        ctx.set("clone_family_runs", families);
    }
    // ---------------- operations overlapping in time ----------------
    // The timer of a JitterRng is user code too: while instance A waits inside its timer read number k,
    // instance B (another JitterRng, or a seeded generator) runs a whole operation — on the same thread
    // (called from the timer) or on another thread (A's thread parked in the timer meanwhile). Every k
    // of A's operation is a scheduling point; both instances must return what they return one after
    // the other.
    {
        let mut overlaps = 0u64;
        'outer: for (ai, (rounds, a_ops, points)) in overlap_a_variants().iter().enumerate() {
            for bi in 0..OVERLAP_B_VARIANTS {
                for k in 0..*points {
                    for other_thread in [false, true] {
                        let o = overlap_run(reg, ctx.seed, ai, bi, k, other_thread);
                        overlaps += 1;
                        if o.got_b.is_empty() {
                            // the history of A did not reach reading k: not a scheduling point of this history
                            continue;
                        }
                        if o.got_a != o.want_a || o.got_b != o.want_b {
                            ctx.violation(
                                "C19:JitterRng:overlapping-operations",
                                &format!(
                                    "JitterRng (rounds {}) running {} while {} {} inside its timer read #{}: it returns {:?} (one after the other: {:?}), the other instance {:?} (one after the other: {:?})",
                                    rounds,
                                    crate::ops::ops_short(a_ops),
                                    o.b_desc,
                                    if other_thread { "on another thread" } else { "on the same thread" },
                                    k,
                                    o.got_a,
                                    o.want_a,
                                    o.got_b,
                                    o.want_b
                                ),
                                json!({"kind":"overlap","seed":ctx.seed,"a_variant":ai,"b_variant":bi,"timer_read":k,"other_thread":other_thread,"a_ops":ops_json(a_ops),"other":o.b_desc}),
                            );
                            break 'outer;
                        }
                    }
                }
            }
        }
        ctx.set("overlapping_operation_schedules", overlaps);
    }
    ctx.set("schedules", counters.schedules);
    ctx.set("handoffs", counters.handoffs);
    ctx.set("schedules_two_instances_alternating_on_one_thread", counters.alternate_on_one_thread);
    ctx.set("schedules_with_an_instance_migrating", counters.migrations);
    ctx.set("distinct_instance_histories", distinct.len() as u64);
    ctx.sample(json!({"configuration": configs[2].iter().map(|i| i.to_json()).collect::<Vec<_>>(), "example_order": [0, 1, 0, 1, 1, 0], "example_threads": [0, 1, 1, 0, 0, 1]}));
    if counters.alternate_on_one_thread == 0 || counters.migrations == 0 {
        ctx.machinery("anti-vacuity: no schedule alternated instances on a thread / migrated an instance");
    }
    ctx.set_exhaustive(true);
    outcome()
}

/// (rounds, ops of A, number of reading indices of A's history used as scheduling points)
pub fn overlap_a_variants() -> Vec<(u8, Vec<Op>, usize)> {
    vec![
        (1, vec![Op::U64, Op::U32], 2 * jitter_env::readings_per_word(1)),
        (2, vec![Op::U32, Op::U32, Op::Fill(9)], 3 * jitter_env::readings_per_word(2)),
        (3, vec![Op::TimerStats(true), Op::U64], 4 + jitter_env::readings_per_word(3)),
    ]
}
pub const OVERLAP_B_VARIANTS: usize = 6;

pub struct Overlap {
    pub got_a: Vec<String>,
    pub got_b: Vec<String>,
    pub want_a: Vec<String>,
    pub want_b: Vec<String>,
    pub b_desc: String,
}

/// One overlapping execution: instance B (variant `bi`) runs its whole history inside timer read #k of
/// instance A (variant `ai`), on the same or on another thread; plus both histories one after the other.
pub fn overlap_run(reg: &dyn Registry, seed: u64, ai: usize, bi: usize, k: usize, other_thread: bool) -> Overlap {
    use std::sync::{Arc, Mutex};
    let obs_of = |g: &mut Box<dyn Gen>, ops: &[Op]| -> Vec<String> { ops.iter().map(|o| apply(g, o).to_json().to_string()).collect() };
    let (rounds, a_ops, _) = overlap_a_variants()[ai].clone();
    let mk_b = || -> (Box<dyn Gen>, Vec<Op>, String) {
        let jit = |r: u8, ops: Vec<Op>| {
            let mut g = reg.jitter(TimerScript::new(jitter_env::raw_readings(seed ^ 0x19B2, 400)));
            g.jitter().unwrap().set_rounds(r);
            let d = format!("a JitterRng (rounds {}) running {}", r, crate::ops::ops_short(&ops));
            (g, ops, d)
        };
        let seeded = |name: &str| {
            let ty = reg.get(name).unwrap();
            (ty.from_seed(&alphabet::bg_bytes(seed, 0x1900 + 9, ty.info().seed_len)), vec![Op::U64, Op::Fill(5)], format!("a {} running u64,fill5", name))
        };
        match bi {
            0 => jit(1, vec![Op::U64]),
            1 => jit(2, vec![Op::U32, Op::U32]),
            2 => jit(1, vec![Op::TimerStats(false), Op::U64]),
            3 => seeded("Hc128Rng"),
            4 => seeded("Isaac64Rng"),
            _ => seeded("Xoshiro256PlusPlus"),
        }
    };
    let a_readings = jitter_env::raw_readings(seed ^ 0x19A1 ^ rounds as u64, 600);
    let want_a = {
        let mut a = reg.jitter(TimerScript::new(a_readings.clone()));
        a.jitter().unwrap().set_rounds(rounds);
        obs_of(&mut a, &a_ops)
    };
    let (want_b, b_desc) = {
        let (mut g, ops, d) = mk_b();
        (obs_of(&mut g, &ops), d)
    };
    let script = TimerScript::new(a_readings);
    let (bg, b_ops, _) = mk_b();
    let slot: Arc<Mutex<(Option<Box<dyn Gen>>, Vec<String>)>> = Arc::new(Mutex::new((Some(bg), Vec::new())));
    let slot2 = slot.clone();
    script.hook_at(
        k,
        Box::new(move || {
            let work = move || {
                let mut s = slot2.lock().unwrap();
                let mut g = s.0.take().unwrap();
                s.1 = b_ops.iter().map(|o| apply(&mut g, o).to_json().to_string()).collect();
                s.0 = Some(g);
            };
            if other_thread {
                std::thread::scope(|sc| {
                    sc.spawn(work);
                });
            } else {
                work();
            }
        }),
    );
    let mut a = reg.jitter(script);
    a.jitter().unwrap().set_rounds(rounds);
    let got_a = obs_of(&mut a, &a_ops);
    let got_b = slot.lock().unwrap().1.clone();
    Overlap { got_a, got_b, want_a, want_b, b_desc }
}

fn outcome() -> Outcome {
    Outcome {
        level: "model_checking",
        keys: EvidenceKeys {
            states: "schedules",
            transitions: "handoffs",
            traces: "solo_children",
            evaluations: "schedules",
            distinct: "distinct_instance_histories",
            rule: "configurations = per type two instances x seed pairs {(a,a),(a,b),(Z,Z),(Z,a)} + seed_from_u64 pairs, cross-type pairs (each type with the next, every xoshiro type with SplitMix64; zero and dense seeds), zero-seeded generators of different state sizes, JitterRng pairs on scripted timers (incl. test_timer on one instance before the other is constructed), three-instance runs, JitterRng instances whose timers are zero-sized fn items of different types; plus re-entrant constructions (the source of from_rng constructs another generator) and overlapping operations (another instance runs a whole operation inside timer read #k of a JitterRng operation, every k, same thread and another thread); for each configuration every interleaving of the instances' [construct, op, op] histories x every assignment of the steps to two OS threads (2^6 for 6 steps; 8 canonical patterns for 9 steps or test_timer runs) is executed under a token-passing scheduler and each instance's observations are compared with the same history run alone in a fresh child process".into(),
        },
    }
}
