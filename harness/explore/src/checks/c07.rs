//! C07 — each linear engine is a bijection with one cycle of length 2^n - 1 through all non-zero
//! states: decided as ord(T) = 2^n - 1 on the transition matrix extracted from the code.

use super::lin;
use super::Outcome;
use crate::evidence::{hex, Ctx, EvidenceKeys, Tier};
use crate::linear::LinOp;
use crate::subject::{GenType, Registry};
use rayon::prelude::*;
use refmodels::gf2::{mersenne_factors, BigU, BitVec, Mat};
use serde_json::json;
use std::collections::BTreeMap;

/// Decide ord(T) == 2^n - 1. Err carries (key suffix, description, witness json).
pub fn order_is_full(t: &Mat) -> Result<u64, (String, String, serde_json::Value)> {
    let n = t.cols;
    let mut products = 0u64;
    // invertible?
    let (rank, kernel) = t.rank_and_kernel();
    if rank < n {
        let k = kernel.unwrap();
        return Err(("singular".into(), format!("transition matrix has rank {} < {}: the non-zero state {} steps to the all-zero state", rank, n, hex(&k.to_bytes())), json!({"kernel_state": hex(&k.to_bytes())})));
    }
    // T^(2^n - 1) == I  <=>  T^(2^n) == T (T invertible)
    let p = t.pow2k(n);
    products += n as u64;
    if &p != t {
        return Err(("order-not-dividing".into(), format!("T^(2^{}) != T: the order of the transition matrix does not divide 2^{}-1, so some non-zero state is not on a cycle of that length", n, n), json!({"fact": "T^(2^n) != T"})));
    }
    let factors = mersenne_factors(n).map_err(|e| ("machinery".to_string(), e, json!(null)))?;
    let m = BigU::mersenne(n);
    let bad: Vec<(String, u64)> = factors
        .par_iter()
        .map(|pr| {
            let (q, r) = m.divrem(pr);
            assert!(r.is_zero());
            let e = t.pow_big(&q);
            (if e.is_identity() { Some(pr.to_dec()) } else { None }, 2 * q.bits() as u64)
        })
        .filter_map(|(x, c)| x.map(|p| (p, c)))
        .collect();
    products += factors.len() as u64 * (n as u64 * 3 / 2);
    if let Some((p, _)) = bad.first() {
        return Err((
            "short-cycle".into(),
            format!("T^((2^{}-1)/{}) = I: every state returns after (2^{}-1)/{} steps, so the non-zero states split into more than one cycle", n, p, n, p),
            json!({"prime": p}),
        ));
    }
    Ok(products)
}

pub fn run(reg: &dyn Registry, ctx: &Ctx) -> Outcome {
    let thorough = ctx.tier == Tier::Thorough;
    let types: Vec<&'static dyn GenType> = reg.types().into_iter().filter(|t| t.info().linear_bits.is_some()).collect();
    ctx.assume("primality of the 13 prime factors of 2^512-1 (Miller-Rabin, 40 bases, re-run on every run; product re-validated)");
    ctx.assume("linearity of the step beyond the replayed weights (<=2; <=3 for n<=128 quick and all n thorough)");

    // self-test of the order computation: a deliberately wrong xoroshiro128 triple must be rejected
    {
        let n = 128;
        let mk = |a: u32, b: u32, c: u32| -> Mat {
            let col = (0..n)
                .map(|i| {
                    let mut s = [0u64; 2];
                    s[i / 64] = 1 << (i % 64);
                    let s0 = s[0];
                    let mut s1 = s[1];
                    s1 ^= s0;
                    let n0 = s0.rotate_left(a) ^ s1 ^ (s1 << b);
                    let n1 = s1.rotate_left(c);
                    let mut v = BitVec::zero(n);
                    v.w[0] = n0;
                    v.w[1] = n1;
                    v
                })
                .collect();
            Mat { rows: n, cols: n, col }
        };
        let good = order_is_full(&mk(24, 16, 37)).is_ok();
        let bad = order_is_full(&mk(24, 16, 36)).is_err();
        ctx.set("selftest_good_triple_accepted", good as u64);
        ctx.set("selftest_bad_triple_rejected", bad as u64);
        if !good || !bad {
            ctx.machinery("order computation self-test failed");
        }
    }

    // the consequence stated in the property: a generator seeded through the API is never in the
    // all-zero state (checked directly on every non-zero seed of the structured alphabet; which seed
    // is used verbatim is C01/C08's statement, not checked here)
    for ty in &types {
        let info = ty.info();
        let seeds = super::common::seed_alphabet(info.seed_len, true);
        let zero_img = vec![0u8; info.seed_len];
        let bad: Vec<&Vec<u8>> = seeds.par_iter().filter(|s| crate::ops::guarded(|| ty.from_seed(s).ser()).ok().flatten().as_deref() == Some(&zero_img[..])).collect();
        ctx.add("api_seeds_checked_nonzero_state", seeds.len() as u64);
        // from_rng over sources that start with z all-zero blocks
        for z in crate::alphabet::zero_block_counts(65536) {
            let mut script = vec![0u8; z * info.seed_len];
            script.extend(std::iter::repeat(0x5Au8).take(2 * info.seed_len));
            let mut src = crate::subject::ScriptSource::new(script);
            ctx.add("api_seeds_checked_nonzero_state", 1);
            if crate::ops::guarded(|| ty.from_rng(&mut src).ser()).ok().flatten().as_deref() == Some(&zero_img[..]) {
                ctx.violation(&format!("C07:{}:api-zero-state", info.name), &format!("{}: from_rng over a source with {} leading all-zero blocks is in the all-zero state, the fixed point outside the cycle", info.name, z), json!({"kind":"note","zero_blocks":z}));
                break;
            }
            // and the fallible route
            let mut script = vec![0u8; z * info.seed_len];
            script.extend(std::iter::repeat(0x5Au8).take(2 * info.seed_len));
            let mut fs = crate::subject::FallibleSource::new(script, None, crate::subject::FaultMode::Untouched, 1);
            ctx.add("api_seeds_checked_nonzero_state", 1);
            if let Ok(Ok(g)) = crate::ops::guarded(|| ty.try_from_rng(&mut fs)) {
                if g.ser().as_deref() == Some(&zero_img[..]) {
                    ctx.violation(&format!("C07:{}:api-zero-state", info.name), &format!("{}: try_from_rng over a source with {} leading all-zero blocks is in the all-zero state, the fixed point outside the cycle", info.name, z), json!({"kind":"note","zero_blocks":z,"route":"try_from_rng"}));
                    break;
                }
            }
        }
        // ... nor does it get there within a few steps: generators from every seeding route (sparse seeds,
        // u64 arguments, scripted sources through both from_rng and try_from_rng) are stepped; eight
        // consecutive zero outputs mean the generator sits in the fixed point
        {
            let sparse: Vec<Vec<u8>> = crate::alphabet::w1(info.seed_len);
            let stuck = |g: &mut Box<dyn crate::subject::Gen>| -> bool {
                for _ in 0..4 {
                    if info.word_bits == 32 { g.next_u32(); } else { g.next_u64(); }
                }
                (0..8).all(|_| if info.word_bits == 32 { g.next_u32() == 0 } else { g.next_u64() == 0 })
            };
            for sd in sparse.iter() {
                ctx.add("api_seeds_checked_nonzero_state", 3);
                let mut script = sd.clone();
                script.extend(std::iter::repeat(0x5Au8).take(info.seed_len));
                let mut routes: Vec<(&str, Option<Box<dyn crate::subject::Gen>>)> = Vec::new();
                routes.push(("from_seed", crate::ops::guarded(|| ty.from_seed(sd)).ok()));
                let mut src = crate::subject::ScriptSource::new(script.clone());
                routes.push(("from_rng", crate::ops::guarded(|| ty.from_rng(&mut src)).ok()));
                let mut fs = crate::subject::FallibleSource::new(script.clone(), None, crate::subject::FaultMode::Untouched, 1);
                routes.push(("try_from_rng", crate::ops::guarded(|| ty.try_from_rng(&mut fs)).ok().and_then(|r| r.ok())));
                let mut reported = false;
                for (route, g) in routes.iter_mut() {
                    if let Some(g) = g.as_mut() {
                        if crate::ops::guarded(|| stuck(g)).unwrap_or(false) && !reported {
                            reported = true;
                            ctx.violation(&format!("C07:{}:api-zero-state", info.name), &format!("{}: the generator built by {} from the block {} reaches the all-zero state within 4 steps (it then returns zeros forever)", info.name, route, hex(sd)), json!({"kind":"note","route":route,"block":hex(sd)}));
                        }
                    }
                }
                if reported {
                    break;
                }
            }
        }
        if let Ok(Some(g)) = crate::ops::guarded(|| ty.default_ctor()) {
            ctx.add("api_seeds_checked_nonzero_state", 1);
            if g.ser().as_deref() == Some(&zero_img[..]) {
                ctx.violation(&format!("C07:{}:api-zero-state", info.name), &format!("{}: Default::default() is in the all-zero state, the fixed point outside the cycle", info.name), json!({"kind":"note","ctor":"Default::default()"}));
            }
        }
        for x in crate::alphabet::u64_alphabet() {
            ctx.add("api_seeds_checked_nonzero_state", 1);
            if crate::ops::guarded(|| ty.seed_from_u64(x).ser()).ok().flatten().as_deref() == Some(&zero_img[..]) {
                ctx.violation(&format!("C07:{}:api-zero-state", info.name), &format!("{}: seed_from_u64({:#x}) is in the all-zero state, the fixed point outside the cycle", info.name, x), json!({"kind":"ctor","type":info.name,"ctor":{"seed_from_u64":x}}));
            }
        }
        if let Some(s) = bad.first() {
            ctx.violation(&format!("C07:{}:api-zero-state", info.name), &format!("{}: from_seed({}) (a non-zero seed) is in the all-zero state, the fixed point outside the cycle", info.name, hex(s)), json!({"kind":"lockstep","type":info.name,"seed":hex(s),"steps":4}));
        }
    }

    let mut by_digest: BTreeMap<u64, (Vec<&'static str>, Result<u64, (String, String, serde_json::Value)>)> = BTreeMap::new();
    for ty in &types {
        let info = ty.info();
        let n = info.linear_bits.unwrap();
        let w3 = thorough || n <= 128;
        let b = match lin::extract_and_bind(*ty, LinOp::Step, ctx, w3, if thorough { 4096 } else { 512 }) {
            Ok(b) => b,
            Err(e) => {
                ctx.machinery(&format!("{}: cannot extract the step matrix (undecided): {}", info.name, e));
                continue;
            }
        };
        ctx.add("states", n as u64 + 1);
        if !b.ex.c.is_zero() {
            ctx.violation(&format!("C07:{}:zero-moves", info.name), &format!("{}: the all-zero state is not a fixed point of the step (affine constant {}), so the map is not the linear engine", info.name, hex(&b.ex.c.to_bytes())), json!({"kind":"note"}));
        }
        if b.mismatch_count > 0 {
            // the code is not the linear map extracted from it: look for an assumption-free witness
            let suspects: Vec<BitVec> = b.mismatches.iter().map(|m| m.state.clone()).collect();
            match lin::find_collision(*ty, LinOp::Step, ctx.seed, &suspects) {
                Some((a, bb, y)) => lin::report_collision(ctx, &format!("C07:{}:collision", info.name), *ty, LinOp::Step, &a, &bb, &y),
                None => ctx.machinery(&format!("{}: step is not the extracted linear map ({} replay mismatches) and no colliding pair was found: undecided", info.name, b.mismatch_count)),
            }
            continue;
        }
        // value-directed deep states: s0 with T^k s0 special (k = 2^8-1, 2^8, 2^16-1, 2^16); the real state
        // after k+2 steps must be T^(k+2) s0 (the model is bound; a periodic guard keyed on the state's
        // words that throws a legal state away would show here)
        {
            let wb = info.word_bits;
            let mut jobs: Vec<(usize, BitVec)> = Vec::new();
            for k in [255usize, 256, 65535, 65536] {
                let tk = b.ex.mat.pow_big(&BigU::from_u64(k as u64));
                for t in crate::linear::special_images(n, wb, ctx.seed ^ k as u64).into_iter().step_by(if k > 1000 { 3 } else { 1 }) {
                    if let Some(s0) = tk.solve(&t) {
                        if !s0.is_zero() {
                            jobs.push((k, s0));
                        }
                    }
                }
            }
            let bad: Vec<(usize, BitVec, BitVec, BitVec)> = jobs
                .par_iter()
                .filter_map(|(k, s0)| {
                    let mut g = crate::linear::make_state(*ty, s0).ok()?;
                    for _ in 0..k + 2 {
                        if wb == 32 {
                            g.next_u32();
                        } else {
                            g.next_u64();
                        }
                    }
                    let got = crate::linear::state_of(g.as_ref()).ok()?;
                    let want = b.ex.mat.pow_big(&BigU::from_u64(*k as u64 + 2)).apply(s0);
                    if got != want {
                        Some((*k, s0.clone(), got, want))
                    } else {
                        None
                    }
                })
                .collect();
            ctx.add("value_directed_deep_starts", jobs.len() as u64);
            if let Some((k, s0, got, want)) = bad.first() {
                // two different start states reaching the same state is the witness of non-injectivity;
                // the state reached must have the model's unique preimage chain, so report the divergence
                ctx.violation(
                    &format!("C07:{}:deep-special", info.name),
                    &format!("{}: from state {} the generator is in state {} after {} steps, but every step being the bijection T it must be in {} (a state on the orbit was replaced)", info.name, hex(&s0.to_bytes()), hex(&got.to_bytes()), k + 2, hex(&want.to_bytes())),
                    json!({"kind":"note","type":info.name,"state":hex(&s0.to_bytes()),"steps":k + 2}),
                );
            }
        }
        let d = b.ex.mat.digest() ^ (n as u64);
        let e = by_digest.entry(d).or_insert_with(|| (vec![], order_is_full(&b.ex.mat)));
        e.0.push(info.name);
        // turn a singular-matrix finding into a concrete witness on the real code
        if let Err((kind, _, w)) = &e.1 {
            if kind == "singular" {
                if let Some(k) = w.get("kernel_state").and_then(|k| k.as_str()) {
                    let ks = BitVec::from_bytes(n, &crate::evidence::unhex(k));
                    if let (Ok(y), Ok(z)) = (crate::linear::image(*ty, LinOp::Step, &ks), crate::linear::image(*ty, LinOp::Step, &BitVec::zero(n))) {
                        if y == z {
                            lin::report_collision(ctx, &format!("C07:{}:collision", info.name), *ty, LinOp::Step, &BitVec::zero(n), &ks, &y);
                        }
                    }
                }
            }
        }
        let teeth = lin::perturbation_teeth(*ty, &b.ex);
        ctx.add("perturbed_matrix_disagreements", teeth);
        if teeth == 0 {
            ctx.machinery("conformance replay did not notice a perturbed matrix");
        }
    }
    ctx.set("distinct_engines", by_digest.len() as u64);
    for (d, (names, r)) in &by_digest {
        match r {
            Ok(products) => {
                ctx.add("matrix_products", *products);
                ctx.add("model_facts_decided", 1);
                ctx.sample(json!({"engine_digest": format!("{:016x}", d), "types": names, "verdict": "ord(T) = 2^n - 1"}));
            }
            Err((kind, what, w)) => {
                if kind == "machinery" {
                    ctx.machinery(what);
                } else {
                    for nm in names {
                        ctx.violation(&format!("C07:{}:{}", nm, kind), &format!("{}: {}", nm, what), json!({"kind":"order","type":nm,"witness":w}));
                    }
                }
            }
        }
    }
    ctx.add("transitions", ctx.get("conformance_replays") + ctx.get("basis_executions"));
    ctx.set_exhaustive(true);
    Outcome {
        level: "model_checking",
        keys: EvidenceKeys {
            states: "states",
            transitions: "transitions",
            traces: "conformance_replays",
            evaluations: "conformance_replays",
            distinct: "conformance_replays",
            rule: "the n x n GF(2) step matrix is extracted from the implementation on every basis state (+ the zero state); ord(T) = 2^n - 1 is decided by T^(2^n) = T, rank n and T^((2^n-1)/p) != I for every prime p | 2^n - 1; the model is bound to the code by replaying its predictions on all weight-2 states, walking zeros, all-ones, byte probes, dense chains (and all weight-3 states where stated)".into(),
        },
    }
}
