//! C06 — jump() / long_jump() equal 2^(n/2) / 2^(3n/4) single steps from every state.

use super::common::*;
use super::lin;
use super::Outcome;
use crate::alphabet;
use crate::evidence::{hex, Ctx, EvidenceKeys, Tier};
use crate::linear::{self, LinOp};
use crate::ops::guarded;
use crate::subject::{GenType, Registry};
use rayon::prelude::*;
use refmodels::gf2::Mat;
use refmodels::gf2::BitVec;
use serde_json::json;

fn commute_check(ty: &dyn GenType, s: &BitVec) -> Result<u64, String> {
    commute_check_with(ty, s, false)
}

/// jump∘step == step∘jump ; long_jump∘step == step∘long_jump ; jump∘long_jump == long_jump∘jump, decided on
/// the next 8 native outputs of the two objects (whether `==` agrees is C10's matter). With `loose` the
/// start object is whatever `from_seed` builds from the bytes (no confirmation through the snapshot): the
/// relations are between operations on one and the same start object, so they do not depend on which state
/// that object holds - this is what remains decidable when the snapshot is not the plain state.
pub fn commute_check_with(ty: &dyn GenType, s: &BitVec, loose: bool) -> Result<u64, String> {
    let wb = ty.info().word_bits;
    let run = |ops: &[LinOp]| -> Result<Box<dyn crate::subject::Gen>, String> {
        let mut g = if loose { guarded(|| ty.from_seed(&s.to_bytes())).map_err(|o| format!("from_seed panicked: {:?}", o))? } else { linear::make_state(ty, s)? };
        for &o in ops {
            linear::apply_op(&mut g, o, wb)?;
        }
        Ok(g)
    };
    let pairs: [([LinOp; 2], [LinOp; 2], &str); 3] = [
        ([LinOp::Jump, LinOp::Step], [LinOp::Step, LinOp::Jump], "jump/step"),
        ([LinOp::LongJump, LinOp::Step], [LinOp::Step, LinOp::LongJump], "long_jump/step"),
        ([LinOp::Jump, LinOp::LongJump], [LinOp::LongJump, LinOp::Jump], "jump/long_jump"),
    ];
    for (a, b, name) in pairs.iter() {
        let mut ga = run(a)?;
        let mut gb = run(b)?;
        let oa = guarded(|| (0..8).map(|_| native(&mut ga, wb)).collect::<Vec<u64>>()).map_err(|o| format!("stepping after {:?} panicked: {:?}", a.iter().map(|o| o.name()).collect::<Vec<_>>(), o))?;
        let ob = guarded(|| (0..8).map(|_| native(&mut gb, wb)).collect::<Vec<u64>>()).map_err(|o| format!("stepping after {:?} panicked: {:?}", b.iter().map(|o| o.name()).collect::<Vec<_>>(), o))?;
        if oa != ob {
            return Err(format!("{} do not commute: the next outputs are {:x?} after {} and {:x?} after {}", name, &oa[..3], a.iter().map(|o| o.name()).collect::<Vec<_>>().join(" then "), &ob[..3], b.iter().map(|o| o.name()).collect::<Vec<_>>().join(" then ")));
        }
    }
    Ok(3)
}

pub fn run(reg: &dyn Registry, ctx: &Ctx) -> Outcome {
    let thorough = ctx.tier == Tier::Thorough;
    let types: Vec<&'static dyn GenType> = reg.types().into_iter().filter(|t| t.info().has_jump).collect();
    ctx.assume("linearity of step/jump/long_jump beyond the replayed weights (<=2; <=3 for n<=256 quick and all n thorough)");
    for ty in &types {
        let info = ty.info();
        let n = info.linear_bits.unwrap();
        let len = n / 8;
        let w3 = thorough || n <= 128;
        let chain = if thorough { 2048 } else { 256 };
        let t = lin::extract_and_bind(*ty, LinOp::Step, ctx, w3, chain);
        let j = lin::extract_and_bind(*ty, LinOp::Jump, ctx, w3, chain);
        let l = lin::extract_and_bind(*ty, LinOp::LongJump, ctx, w3, chain);
        let (t, j, l) = match (t, j, l) {
            (Ok(t), Ok(j), Ok(l)) => (t, j, l),
            (a, b, c) => {
                // what remains decidable without state injection: the linearity-free relations between the
                // operations, on objects built by from_seed, decided on outputs
                let mut states: Vec<BitVec> = alphabet::w1(len).iter().map(|s| bits(s)).collect();
                states.extend(alphabet::wz(len).iter().map(|s| bits(s)));
                states.push(bits(&alphabet::ones(len)));
                states.extend((0..32u64).map(|k| bits(&alphabet::bg_bytes(ctx.seed ^ 0x06F0, k, len))));
                let res: Vec<(Result<u64, String>, &BitVec)> = states.par_iter().map(|s| (guarded(|| commute_check_with(*ty, s, true)).unwrap_or_else(|o| Err(format!("{:?}", o))), s)).collect();
                for (r, s) in res {
                    match r {
                        Ok(k) => ctx.add("commutation_checks_without_injection", k),
                        Err(e) if e.contains("do not commute") => ctx.violation(&format!("C06:{}:commute", info.name), &format!("{}: from_seed({}): {}", info.name, hex(&s.to_bytes()), e), json!({"kind":"commute-loose","type":info.name,"state":hex(&s.to_bytes())})),
                        Err(_) => {}
                    }
                }
                let step_panics = a.as_ref().err().map_or(false, |e| e.contains("panicked"));
                let e = [a.err(), b.err(), c.err()].into_iter().flatten().collect::<Vec<_>>().join("; ");
                if e.contains("panicked") && !step_panics {
                    // a jump that panics where stepping does not does not leave the generator 2^(n/2) steps
                    // ahead (if stepping itself panics on that state, "2^(n/2) steps ahead" is not defined there:
                    // undecided, the stepping fault is C01's)
                    ctx.violation(&format!("C06:{}:extract", info.name), &format!("{}: cannot extract step/jump matrices: {}", info.name, e), json!({"kind":"note"}));
                } else {
                    ctx.machinery(&format!("{}: cannot extract step/jump matrices (undecided): {}", info.name, e));
                }
                continue;
            }
        };
        ctx.add("states", 3 * (n as u64 + 1));
        let bound = t.mismatch_count == 0 && j.mismatch_count == 0 && l.mismatch_count == 0;

        // decide on the model, for all 2^n states
        let tj = t.ex.mat.pow2k(n / 2);
        let tl = t.ex.mat.pow2k(3 * n / 4);
        ctx.add("model_facts_decided", 2);
        ctx.add("matrix_squarings", (n / 2 + 3 * n / 4) as u64);
        let mut model_ok = true;
        for (name, op, got, want) in [("jump", LinOp::Jump, &j.ex, &tj), ("long_jump", LinOp::LongJump, &l.ex, &tl)] {
            if !got.c.is_zero() {
                model_ok = false;
                ctx.violation(&format!("C06:{}:{}-constant", info.name, name), &format!("{}: {}() moves the all-zero state", info.name, name), json!({"kind":"note"}));
            }
            if &got.mat != want {
                model_ok = false;
                let i = (0..n).find(|&i| got.mat.col[i] != want.col[i]).unwrap();
                let st = alphabet::with_bits(len, &[i]);
                let exp = want.col[i].to_bytes();
                ctx.violation(
                    &format!("C06:{}:{}-matrix", info.name, name),
                    &format!("{}: {}() is not T^(2^{}) of the extracted step matrix; e.g. from state {} it reaches {} instead of {}", info.name, name, if op == LinOp::Jump { n / 2 } else { 3 * n / 4 }, hex(&st), hex(&got.mat.col[i].to_bytes()), hex(&exp)),
                    json!({"kind":"jump-witness","type":info.name,"op":name,"state":hex(&st),"expected_state":hex(&exp)}),
                );
            }
        }
        if !bound {
            ctx.note(&format!("{}_not_bound", info.name), json!(true));
        }
        // states on which jump()/long_jump() are not the linear map extracted from them: first try the
        // assumption-free relations on exactly those states; if the step model itself is bound, a state
        // whose jump differs from T^(2^k) applied to it is a concrete counterexample
        let mut witnessed = false;
        for (name, op, b, want) in [("jump", LinOp::Jump, &j, &tj), ("long_jump", LinOp::LongJump, &l, &tl)] {
            for m in b.mismatches.iter().take(6) {
                let st = &m.state;
                match guarded(|| commute_check(*ty, st)).unwrap_or_else(|o| Err(format!("{:?}", o))) {
                    Err(e) => {
                        witnessed = true;
                        ctx.violation(&format!("C06:{}:commute", info.name), &format!("{}: from state {}: {}", info.name, hex(&st.to_bytes()), e), json!({"kind":"commute","type":info.name,"state":hex(&st.to_bytes())}));
                    }
                    Ok(_) => {}
                }
                if t.mismatch_count == 0 {
                    let exp = want.apply(st);
                    if m.got.as_ref() != Some(&exp) {
                        witnessed = true;
                        ctx.violation(
                            &format!("C06:{}:{}-state", info.name, name),
                            &format!("{}: {}() from state {} reaches {} instead of the state 2^{} steps ahead, {} (the step matrix is bound to the code by the replay)", info.name, name, hex(&st.to_bytes()), m.got.as_ref().map(|g| hex(&g.to_bytes())).unwrap_or_else(|| m.error.clone().unwrap_or_default()), if op == LinOp::Jump { n / 2 } else { 3 * n / 4 }, hex(&exp.to_bytes())),
                            json!({"kind":"jump-witness","type":info.name,"op":name,"state":hex(&st.to_bytes()),"expected_state":hex(&exp.to_bytes())}),
                        );
                    }
                }
            }
        }

        // outputs after a jump equal those of a generator built from the predicted state
        if model_ok {
            for b in 0..8u64 {
                let s = bits(&alphabet::bg_bytes(ctx.seed, 0x06A0 + b, len));
                for (op, m) in [(LinOp::Jump, &tj), (LinOp::LongJump, &tl)] {
                    let pred = m.apply(&s);
                    let r = (|| -> Result<bool, String> {
                        let mut g = linear::make_state(*ty, &s)?;
                        linear::apply_op(&mut g, op, info.word_bits)?;
                        let mut e = linear::make_state(*ty, &pred)?;
                        let same = (0..64).all(|_| native(&mut g, info.word_bits) == native(&mut e, info.word_bits));
                        Ok(same && g.eq_dyn(e.as_ref()) == Some(true))
                    })();
                    ctx.add("transitions", 64);
                    if r != Ok(true) {
                        ctx.violation(&format!("C06:{}:outputs-after-{}", info.name, op.name()), &format!("{}: outputs after {}() differ from the generator built from the predicted state ({:?})", info.name, op.name(), r), json!({"kind":"jump-witness","type":info.name,"op":op.name(),"state":hex(&s.to_bytes()),"expected_state":hex(&pred.to_bytes())}));
                    }
                }
            }
        }

        // states directed at the *inside* of a jump: the accumulator of a jump loop after the first m bits
        // of the jump polynomial is q_m(T) s (q_m = the polynomial's prefix; the polynomial itself is
        // recovered from T as x^(2^k) mod charpoly). States are solved so that this partial sum has a
        // special word pattern (a zero word, equal words, ...) at every word boundary m of the polynomial,
        // and the jump from there is compared with T^(2^k) s.
        if model_ok && bound {
            let w = info.word_bits;
            for (op, k, want) in [(LinOp::Jump, n / 2, &tj), (LinOp::LongJump, 3 * n / 4, &tl)] {
                let Some(poly) = linear::jump_polynomial(&t.ex.mat, want) else {
                    ctx.note(&format!("{}_{}_polynomial", info.name, op.name()), json!("not recovered"));
                    continue;
                };
                let starts: Vec<(usize, BitVec)> = (1..(n / w))
                    .into_par_iter()
                    .flat_map(|q| {
                        let m = q * w;
                        let am = linear::prefix_polynomial_matrix(&t.ex.mat, &poly, m);
                        linear::special_images(n, w, ctx.seed ^ (m as u64) << 8)
                            .into_par_iter()
                            .filter_map(|img| am.solve(&img).filter(|s0| !s0.is_zero()).map(|s0| (m, s0)))
                            .collect::<Vec<_>>()
                    })
                    .collect();
                ctx.add("partial_accumulator_directed_states", starts.len() as u64);
                let res: Vec<(usize, &BitVec, Result<bool, String>)> = starts
                    .par_iter()
                    .map(|(m, s)| {
                        let pred = want.apply(s);
                        let r = (|| -> Result<bool, String> {
                            let mut g = linear::make_state(*ty, s)?;
                            linear::apply_op(&mut g, op, info.word_bits)?;
                            let mut e = linear::make_state(*ty, &pred)?;
                            let same = (0..4).all(|_| native(&mut g, info.word_bits) == native(&mut e, info.word_bits));
                            Ok(same && g.eq_dyn(e.as_ref()) == Some(true))
                        })();
                        (*m, s, r)
                    })
                    .collect();
                ctx.add("transitions", 4 * starts.len() as u64);
                for (m, s, r) in res {
                    if r != Ok(true) {
                        let pred = want.apply(s);
                        ctx.violation(
                            &format!("C06:{}:{}-partial-sum", info.name, op.name()),
                            &format!("{}: {}() from state {} (whose partial polynomial sum after {} bits has a special word pattern) does not reach the state 2^{} steps ahead, {} ({:?})", info.name, op.name(), hex(&s.to_bytes()), m, k, hex(&pred.to_bytes()), r),
                            json!({"kind":"jump-witness","type":info.name,"op":op.name(),"state":hex(&s.to_bytes()),"expected_state":hex(&pred.to_bytes())}),
                        );
                        break;
                    }
                }
            }
        }

        // states whose jump image agrees with the state itself in one word, in all words but one, or is
        // the state's complement in a word: (J xor I) s = pattern, solved on the model
        if model_ok && bound {
            let w = info.word_bits;
            for (op, kk, want) in [(LinOp::Jump, n / 2, &tj), (LinOp::LongJump, 3 * n / 4, &tl)] {
                let ji = want.xor(&Mat::identity(n));
                let starts: Vec<BitVec> = linear::special_images(n, w, ctx.seed ^ 0x06E1).into_par_iter().filter_map(|img| ji.solve(&img).filter(|s0| !s0.is_zero())).collect();
                ctx.add("jump_fixed_word_states", starts.len() as u64);
                let bad = starts
                    .par_iter()
                    .filter_map(|s| {
                        let pred = want.apply(s);
                        let r = (|| -> Result<bool, String> {
                            let mut g = linear::make_state(*ty, s)?;
                            linear::apply_op(&mut g, op, info.word_bits)?;
                            let mut e = linear::make_state(*ty, &pred)?;
                            let same = (0..4).all(|_| native(&mut g, info.word_bits) == native(&mut e, info.word_bits));
                            Ok(same && g.eq_dyn(e.as_ref()) == Some(true))
                        })();
                        if r == Ok(true) {
                            None
                        } else {
                            Some((s.clone(), r))
                        }
                    })
                    .min_by_key(|x| x.0.to_bytes());
                ctx.add("transitions", 4 * starts.len() as u64);
                if let Some((s, r)) = bad {
                    let pred = want.apply(&s);
                    ctx.violation(
                        &format!("C06:{}:{}-fixed-word", info.name, op.name()),
                        &format!("{}: {}() from state {} (whose image agrees with / differs from it in a special word pattern) does not reach the state 2^{} steps ahead, {} ({:?})", info.name, op.name(), hex(&s.to_bytes()), kk, hex(&pred.to_bytes()), r),
                        json!({"kind":"jump-witness","type":info.name,"op":op.name(),"state":hex(&s.to_bytes()),"expected_state":hex(&pred.to_bytes())}),
                    );
                }
            }
        }

        // states directed at the *running state* inside a jump: the loop steps the generator n times, so
        // after i steps it holds T^i s; states are chosen (s = T^-i target, by repeated application of the
        // inverse step matrix) so that this running state has a zero word / a single non-zero word / all
        // words equal at every i = 1..n-1
        if model_ok && bound {
            let w = info.word_bits;
            let k = n / w;
            // inverse of the step matrix, column by column
            let tinv: Option<Mat> = {
                let cols: Vec<Option<BitVec>> = (0..n).into_par_iter().map(|i| t.ex.mat.solve(&BitVec::unit(n, i))).collect();
                if cols.iter().all(|c| c.is_some()) {
                    Some(Mat { rows: n, cols: n, col: cols.into_iter().map(|c| c.unwrap()).collect() })
                } else {
                    None
                }
            };
            if let Some(tinv) = tinv {
                let dense = bits(&alphabet::bg_bytes(ctx.seed, 0x06D0, len));
                let mut targets: Vec<BitVec> = Vec::new();
                for word in 0..k {
                    let mut zero_word = dense.clone();
                    let mut only_word = BitVec::zero(n);
                    for b in 0..w {
                        zero_word.set(word * w + b, false);
                        only_word.set(word * w + b, dense.get(word * w + b));
                    }
                    targets.push(zero_word);
                    targets.push(only_word);
                }
                let mut equal = BitVec::zero(n);
                for word in 0..k {
                    for b in 0..w {
                        equal.set(word * w + b, dense.get(b));
                    }
                }
                targets.push(equal);
                let starts: Vec<(usize, BitVec)> = targets
                    .par_iter()
                    .flat_map(|tg| {
                        let mut v = Vec::with_capacity(n);
                        let mut s = tg.clone();
                        for i in 1..n {
                            s = tinv.apply(&s);
                            v.push((i, s.clone()));
                        }
                        v
                    })
                    .collect();
                ctx.add("running_state_directed_states", starts.len() as u64);
                for (op, kk, want) in [(LinOp::Jump, n / 2, &tj), (LinOp::LongJump, 3 * n / 4, &tl)] {
                    let bad: Option<(usize, BitVec, Result<bool, String>)> = starts
                        .par_iter()
                        .filter_map(|(i, s)| {
                            let pred = want.apply(s);
                            let r = (|| -> Result<bool, String> {
                                let mut g = linear::make_state(*ty, s)?;
                                linear::apply_op(&mut g, op, info.word_bits)?;
                                let e = linear::make_state(*ty, &pred)?;
                                Ok(g.eq_dyn(e.as_ref()) == Some(true))
                            })();
                            if r == Ok(true) {
                                None
                            } else {
                                Some((*i, s.clone(), r))
                            }
                        })
                        .min_by_key(|x| x.0);
                    ctx.add("transitions", starts.len() as u64);
                    if let Some((i, s, r)) = bad {
                        let pred = want.apply(&s);
                        ctx.violation(
                            &format!("C06:{}:{}-running-state", info.name, op.name()),
                            &format!("{}: {}() from state {} (whose image after {} steps has a special word pattern) does not reach the state 2^{} steps ahead, {} ({:?})", info.name, op.name(), hex(&s.to_bytes()), i, kk, hex(&pred.to_bytes()), r),
                            json!({"kind":"jump-witness","type":info.name,"op":op.name(),"state":hex(&s.to_bytes()),"expected_state":hex(&pred.to_bytes())}),
                        );
                    }
                }
            }
        }

        // linearity-free necessary relations on the real code
        let mut states: Vec<BitVec> = alphabet::w1(len).iter().map(|s| bits(s)).collect();
        states.extend(alphabet::wz(len).iter().map(|s| bits(s)));
        states.push(bits(&alphabet::ones(len)));
        states.extend(linear::chain_states(*ty, ctx.seed ^ 6, if thorough { 256 } else { 32 }));
        let pairs = alphabet::w2_pairs(n);
        let cap = if thorough { pairs.len() } else { pairs.len().min(20_000) };
        if cap < pairs.len() {
            ctx.note("commutation_w2_cap_quick", json!(cap));
        }
        // spread the capped pairs over the whole index range
        let stride = (pairs.len() / cap).max(1);
        for (i, j) in pairs.iter().step_by(stride).take(cap) {
            let mut s = BitVec::zero(n);
            s.set(*i, true);
            s.set(*j, true);
            states.push(s);
        }
        let res: Vec<(Result<u64, String>, &BitVec)> = states.par_iter().map(|s| (guarded(|| commute_check(*ty, s)).unwrap_or_else(|o| Err(format!("{:?}", o))), s)).collect();
        for (r, s) in res {
            match r {
                Ok(k) => ctx.add("commutation_checks", k),
                Err(e) => ctx.violation(&format!("C06:{}:commute", info.name), &format!("{}: from state {}: {}", info.name, hex(&s.to_bytes()), e), json!({"kind":"commute","type":info.name,"state":hex(&s.to_bytes())})),
            }
        }
        if !bound && model_ok && !witnessed {
            // non-linear but the relations above found nothing and the matrices agree: undecided
            ctx.machinery(&format!("{}: step/jump not bound to the extracted linear model ({} replay mismatches) and no direct witness found", info.name, t.mismatch_count + j.mismatch_count + l.mismatch_count));
        }
        if info.name == types[0].info().name {
            ctx.sample(json!({"type": info.name, "fact": format!("jump == T^(2^{})", n/2), "jump_matrix_digest": format!("{:016x}", j.ex.mat.digest()), "power_digest": format!("{:016x}", tj.digest())}));
        }
        let teeth = lin::perturbation_teeth(*ty, &j.ex);
        ctx.add("perturbed_matrix_disagreements", teeth);
        if teeth == 0 {
            ctx.machinery("conformance replay did not notice a perturbed jump matrix");
        }
    }
    ctx.add("transitions", ctx.get("conformance_replays") + ctx.get("commutation_checks"));
    ctx.set_exhaustive(true);
    Outcome {
        level: "model_checking",
        keys: EvidenceKeys {
            states: "states",
            transitions: "transitions",
            traces: "conformance_replays",
            evaluations: "conformance_replays",
            distinct: "conformance_replays",
            rule: "states = basis states (+ zero) on which step/jump/long_jump matrices are extracted from the code; the identities J = T^(2^(n/2)), L = T^(2^(3n/4)) are decided on the model for all 2^n states; traces = model predictions replayed on the implementation (all weight-2 states, walking zeros, all-ones, byte probes, dense chains, weight-3 where stated), all distinct by construction".into(),
        },
    }
}
