//! C02 — Hc128Rng keystream equals HC-128 (Wu) for every key and IV.

use super::common::*;
use super::Outcome;
use crate::alphabet;
use crate::evidence::{hex, Ctx, EvidenceKeys, Tier};
use crate::ops::guarded;
use crate::subject::{GenType, Registry};
use rayon::prelude::*;
use refmodels::hc128::Hc128;
use serde_json::json;

pub struct Cov {
    pub steps: Vec<bool>,
    pub h_lo: Vec<bool>,
    pub h_hi: Vec<bool>,
}

/// Compare `nwords` words of Hc128Rng::next_u32 with the specification model.
pub fn compare_rng(ty: &dyn GenType, seed: &[u8], nwords: usize, cov: Option<&mut Cov>) -> Result<u64, (String, serde_json::Value)> {
    let mk = |what: String, pos: usize| (what, json!({"kind":"stream","type":"Hc128Rng","seed":hex(seed),"position":pos,"words":nwords}));
    let mut g = from_seed_guarded(ty, seed).map_err(|e| mk(e, 0))?;
    let mut m = Hc128::from_seed_bytes(seed);
    for i in 0..nwords {
        let e = m.next_word();
        let r = guarded(|| g.next_u32()).map_err(|o| mk(format!("next_u32 panicked at word {}: {:?}", i, o), i))?;
        if r != e {
            return Err(mk(format!("keystream word {} is {:#010x}, HC-128 specification gives {:#010x}", i, r, e), i));
        }
    }
    if let Some(c) = cov {
        for i in 0..1024 {
            c.steps[i] |= m.cov_steps[i];
        }
        for i in 0..512 {
            c.h_lo[i] |= m.cov_h_lo[i];
            c.h_hi[i] |= m.cov_h_hi[i];
        }
    }
    Ok(nwords as u64)
}

/// Compare `nblocks` 16-word blocks of Hc128Core::generate with the model.
pub fn compare_core(core: &dyn GenType, seed: &[u8], nblocks: usize) -> Result<u64, (String, serde_json::Value)> {
    let mk = |what: String, pos: usize| (what, json!({"kind":"stream","type":"Hc128Core","seed":hex(seed),"position":pos,"words":nblocks*16}));
    let mut g = from_seed_guarded(core, seed).map_err(|e| mk(e, 0))?;
    let mut m = Hc128::from_seed_bytes(seed);
    for b in 0..nblocks {
        let mut buf = [0u8; 64];
        guarded(|| g.fill_bytes(&mut buf)).map_err(|o| mk(format!("generate panicked at block {}: {:?}", b, o), b * 16))?;
        for i in 0..16 {
            let e = m.next_word();
            let r = u32::from_le_bytes([buf[4 * i], buf[4 * i + 1], buf[4 * i + 2], buf[4 * i + 3]]);
            if r != e {
                return Err(mk(format!("Hc128Core::generate block {} word {} is {:#010x}, specification gives {:#010x}", b, i, r, e), b * 16 + i));
            }
        }
    }
    Ok(nblocks as u64 * 16)
}

pub fn run(reg: &dyn Registry, ctx: &Ctx) -> Outcome {
    let ty = reg.get("Hc128Rng").expect("Hc128Rng");
    let core = reg.core_types().into_iter().find(|c| c.info().name == "Hc128Core").expect("Hc128Core");
    let thorough = ctx.tier == Tier::Thorough;
    ctx.assume("HC-128 model written from Wu's specification (one word per step, spec indices), validated against the paper's three test vectors and a deep vector at start-up");
    let len = 32;
    let mut seeds = vec![alphabet::zero(len)];
    seeds.extend(seed_alphabet(len, true));
    let nchain = if thorough { 4000 } else { 1000 };
    seeds.extend(chain_seeds(ty, ctx.seed, nchain));
    // every seed: more than two full table cycles (2 x 1024 steps) + a few blocks
    let base_words = 2200;
    sample_seed(ctx, "stream", "Hc128Rng", &seeds[700]);
    let res: Vec<_> = seeds
        .par_iter()
        .map(|s| {
            let mut c = Cov { steps: vec![false; 1024], h_lo: vec![false; 512], h_hi: vec![false; 512] };
            let r = compare_rng(ty, s, base_words, Some(&mut c));
            let r2 = compare_core(core, s, 8);
            (r, r2, c)
        })
        .collect();
    let mut cov = Cov { steps: vec![false; 1024], h_lo: vec![false; 512], h_hi: vec![false; 512] };
    ctx.add("seeds", seeds.len() as u64);
    for (r, r2, c) in res {
        for i in 0..1024 {
            cov.steps[i] |= c.steps[i];
        }
        for i in 0..512 {
            cov.h_lo[i] |= c.h_lo[i];
            cov.h_hi[i] |= c.h_hi[i];
        }
        match r {
            Ok(n) => ctx.add("words_compared", n),
            Err((what, replay)) => ctx.violation("C02:stream", &format!("Hc128Rng: {}", what), replay),
        }
        match r2 {
            Ok(n) => ctx.add("core_words_compared", n),
            Err((what, replay)) => ctx.violation("C02:core", &what, replay),
        }
    }
    // every triple of key/IV bits, first 4 blocks
    {
        let n = 256;
        let res: Vec<_> = (0..n)
            .into_par_iter()
            .map(|i| {
                let mut cnt = 0u64;
                let mut first = None;
                for j in i + 1..n {
                    for k in j + 1..n {
                        let s = alphabet::with_bits(len, &[i, j, k]);
                        match compare_rng(ty, &s, 64, None) {
                            Ok(w) => cnt += w,
                            Err(e) => {
                                if first.is_none() {
                                    first = Some(e)
                                }
                            }
                        }
                    }
                }
                (cnt, first)
            })
            .collect();
        for (cnt, first) in res {
            ctx.add("words_compared", cnt);
            ctx.add("w3_seeds", cnt / 64);
            if let Some((what, replay)) = first {
                ctx.violation("C02:stream", &format!("Hc128Rng: {}", what), replay);
            }
        }
    }
    // long runs: many wraps of the 1024-step cycle
    let long_words = if thorough { 1 << 24 } else { 1 << 21 };
    let mut long_seeds = vec![alphabet::zero(len), alphabet::ones(len)];
    long_seeds.extend(alphabet::w1(len).into_iter().step_by(if thorough { 4 } else { 16 }));
    long_seeds.extend(chain_seeds(ty, ctx.seed ^ 0x10, 32));
    let res: Vec<_> = long_seeds.par_iter().map(|s| compare_rng(ty, s, long_words, None)).collect();
    ctx.add("long_seeds", long_seeds.len() as u64);
    for r in res {
        match r {
            Ok(n) => ctx.add("words_compared", n),
            Err((what, replay)) => ctx.violation("C02:stream-long", &format!("Hc128Rng: {}", what), replay),
        }
    }
    // deep runs (thorough): 14 dense seeds to 2^28 words, 2 seeds past 2^32 words (the block counter
    // passes every power of two up to 2^32)
    if thorough {
        let mut jobs: Vec<(Vec<u8>, usize)> = chain_seeds(ty, ctx.seed ^ 0x20, 14).into_iter().map(|s| (s, 1usize << 28)).collect();
        jobs.push((alphabet::bg_bytes(ctx.seed, 0x0202, len), (1usize << 32) + (1 << 20)));
        jobs.push((alphabet::zero(len), (1usize << 32) + (1 << 20)));
        let res: Vec<_> = jobs.par_iter().map(|(s, w)| compare_rng(ty, s, *w, None)).collect();
        ctx.add("deep_seeds", jobs.len() as u64);
        for r in res {
            match r {
                Ok(n) => ctx.add("words_compared", n),
                Err((what, replay)) => ctx.violation("C02:stream-deep", &format!("Hc128Rng: {}", what), replay),
            }
        }
    }
    // rare reachable events found on the reference model (two equal successive words, a zero word, four
    // words with equal low bytes, ...): lock-step through each of them
    {
        let (evs, words) = crate::rare::events_for(crate::rare::Kind::Hc128, ctx.seed, thorough);
        ctx.set("rare_event_search_words", words);
        ctx.set("rare_events_visited", evs.len() as u64);
        let res: Vec<_> = evs.par_iter().map(|e| (compare_rng(ty, &e.seed, e.word_index as usize + 80, None), e)).collect();
        for (r, e) in res {
            match r {
                Ok(n) => ctx.add("words_compared", n),
                Err((what, replay)) => ctx.violation("C02:stream-event", &format!("Hc128Rng: at a stream position with {} ({}): {}", e.what, crate::rare::describe(e), what), replay),
            }
        }
        if let Some(e) = evs.first() {
            ctx.sample(crate::rare::describe(e));
        }
    }
    let steps_cov = cov.steps.iter().filter(|&&b| b).count() as u64;
    ctx.set("distinct_phase_step_indices", steps_cov);
    ctx.set("h1_table_indices_hit", cov.h_lo.iter().filter(|&&b| b).count() as u64);
    ctx.set("h2_table_indices_hit", cov.h_hi.iter().filter(|&&b| b).count() as u64);
    if steps_cov != 1024 {
        ctx.machinery("not all 1024 (phase, j) step indices were exercised");
    }
    ctx.set("states", ctx.get("seeds") + ctx.get("long_seeds") + ctx.get("w3_seeds"));
    ctx.set("transitions", ctx.get("words_compared") + ctx.get("core_words_compared"));
    ctx.set_exhaustive(true);
    Outcome {
        level: "model_checking",
        keys: EvidenceKeys {
            states: "states",
            transitions: "transitions",
            traces: "states",
            evaluations: "states",
            distinct: "seeds",
            rule: "seeds = Z, O, every single bit and every pair of bits of key/IV (W1, W2), walking zeros, byte probes, dense chained seeds (all distinct by construction); every seed is compared with the specification model for 2200 keystream words (> 2 table cycles) through next_u32 and for 8 blocks through Hc128Core::generate; a subset runs 2^21 (quick) / 2^24 (thorough) words; every triple of seed bits (W3, 2.7 M seeds) is compared for the first 4 blocks".into(),
        },
    }
}
