//! C05 — next_u32 / next_u64 / fill_bytes are projections of one forward-only stream.

use super::makers::*;
use super::Outcome;
use crate::evidence::{Ctx, EvidenceKeys};
use crate::histories::{self, Maker, Stats};
use crate::jitter_env;
use crate::ops::Op;
use crate::stream::{Pos, Stream};
use crate::subject::{Family, Registry, TypeInfo};
use rayon::prelude::*;
use serde_json::json;

/// Start positions: native words consumed before the exploration begins (+ pending half).
pub fn start_prefixes(info: &TypeInfo) -> Vec<(usize, bool)> {
    start_prefixes_ext(info, false)
}

/// `deep` adds, for the non-buffered generators, start positions around call counts 2^8 and 2^16.
pub fn start_prefixes_ext(info: &TypeInfo, deep: bool) -> Vec<(usize, bool)> {
    let mut v: Vec<(usize, bool)> = match info.block_words {
        Some(b) => vec![0, 1, b / 2, b - 2, b - 1, b, b + 1].into_iter().map(|w| (w, false)).collect(),
        // non-buffered generators: fresh, a few calls in, and around call counts 2^8 and 2^16 (per-object
        // counters)
        None if info.family == Family::Jitter || !deep => vec![(0, false), (1, false), (3, false)],
        None => vec![(0, false), (1, false), (3, false), (254, false), (255, false), (256, false), (65534, false), (65535, false), (65536, false)],
    };
    if matches!(info.family, Family::Isaac64 | Family::Jitter) {
        let with_half: Vec<(usize, bool)> = v.iter().map(|&(w, _)| (w, true)).collect();
        v.extend(with_half);
    }
    v
}

pub fn prefix_ops(info: &TypeInfo, words: usize, half: bool) -> Vec<Op> {
    let native = if info.word_bits == 32 { Op::U32 } else { Op::U64 };
    let mut v = vec![native; words];
    if half {
        v.push(Op::U32);
    }
    v
}

pub fn explore_maker(mk: &dyn Maker, depth: usize, ctx: &Ctx, prop: &str, alphabet: &[Op], stream_words: usize) -> Stats {
    let starts = start_prefixes_ext(mk.info(), true);
    explore_maker_from(mk, &starts, depth, ctx, prop, alphabet, stream_words)
}

pub fn explore_maker_from(mk: &dyn Maker, starts: &[(usize, bool)], depth: usize, ctx: &Ctx, prop: &str, alphabet: &[Op], stream_words: usize) -> Stats {
    let info = mk.info();
    let native = histories::native_stream(mk, stream_words);
    let own = if info.u32_proj == 'm' { Some(histories::own_u32_stream(mk, stream_words)) } else { None };
    let stream = Stream { info, native: &native, own_u32: own.as_deref() };
    let future = info.block_words.unwrap_or(2) + 2;
    let mut stats = Stats::default();
    for &(w, half) in starts {
        let prefix = prefix_ops(info, w, half);
        let start = Pos { words: (w + half as usize) as u64, half };
        if own.is_some() && start.words as usize + future + 4 > stream_words {
            continue;
        }
        let mut out = Vec::new();
        histories::explore(mk, &stream, &prefix, start, alphabet, depth, future, &mut stats, &mut out);
        for v in out {
            ctx.violation(&format!("{}:{}", prop, v.key), &v.what, v.replay);
        }
    }
    stats
}

pub fn run(reg: &dyn Registry, ctx: &Ctx) -> Outcome {
    let depth = ctx.tier.pick(4, 6);
    ctx.assume("the word values come from an implementation twin driven with native-width calls only; the bookkeeping (words consumed per call, projections) is the model, written from the property statement");
    let types = reg.types();
    let jobs: Vec<(usize, usize)> = (0..types.len()).flat_map(|t| (0..3).map(move |s| (t, s))).collect();
    let results: Vec<Stats> = jobs
        .par_iter()
        .map(|&(t, s)| {
            let ty = types[t];
            let seed = standard_seeds(ty, ctx.seed)[s].clone();
            let info = ty.info();
            let mk = SeedMaker { ty, seed: seed.clone() };
            let alphabet = histories::output_alphabet(info);
            let maxw = alphabet.iter().map(|o| match o {
                Op::Fill(n) | Op::FillAt(n, _) => (*n + 3) / (info.word_bits / 8),
                _ => 2,
            }).max().unwrap();
            let words = info.block_words.unwrap_or(3) + 2 + depth * (maxw + 1) + info.block_words.unwrap_or(2) + 16;
            if s == 0 && t % 7 == 0 {
                ctx.sample(json!({"type": info.name, "start": mk.describe(), "alphabet": alphabet.iter().map(|o| o.short()).collect::<Vec<_>>(), "depth": depth}));
            }
            explore_maker(&mk, depth, ctx, "C05", &alphabet, words)
        })
        .collect();
    let mut total = Stats::default();
    let add = |total: &mut Stats, s: &Stats| {
        total.states += s.states;
        total.transitions += s.transitions;
        total.merges_checked += s.merges_checked;
        total.unmerged_paths += s.unmerged_paths;
        total.straddles += s.straddles;
        total.tails += s.tails;
        total.half_pending_transitions += s.half_pending_transitions;
        total.distinct_observations += s.distinct_observations;
        total.tolerated_alternatives += s.tolerated_alternatives;
        total.depth_completed = total.depth_completed.max(s.depth_completed);
    };
    for s in &results {
        add(&mut total, s);
    }
    // every buffer index of the block generators as a start position (with and without a pending half
    // for ISAAC-64), every call shape from there and every pair of calls (depth 2)
    {
        let all_idx: Vec<Stats> = types
            .par_iter()
            .filter(|t| t.info().block_words.is_some())
            .map(|ty| {
                let info = ty.info();
                let b = info.block_words.unwrap();
                let mut starts: Vec<(usize, bool)> = (0..=b + 1).map(|w| (w, false)).collect();
                if info.family == Family::Isaac64 {
                    starts.extend((0..=b).map(|w| (w, true)));
                }
                let mk = SeedMaker { ty: *ty, seed: standard_seeds(*ty, ctx.seed)[2].clone() };
                let alphabet: Vec<Op> = histories::output_alphabet(info).into_iter().filter(|o| !matches!(o, Op::Fill(n) | Op::FillAt(n, _) if *n >= 8192)).collect();
                let maxw = alphabet.iter().map(|o| match o { Op::Fill(n) | Op::FillAt(n, _) => (*n + 3) / (info.word_bits / 8), _ => 2 }).max().unwrap();
                let words = b + 4 + 2 * (maxw + 1) + b + 16;
                explore_maker_from(&mk, &starts, 2, ctx, "C05", &alphabet, words)
            })
            .collect();
        for s in &all_idx {
            add(&mut total, s);
        }
        ctx.set("every_buffer_index_explorations", all_idx.len() as u64);
    }
    // value-directed states for the non-native projections of the xoshiro family: carry-boundary
    // operands of the scrambler (2^j - 1, 2^j, 2^w - 2^j, ... on both operands; multiplication-boundary
    // operands for the single-operand scramblers); every call shape once from each
    {
        use refmodels::xoshiro::Kind;
        let vd: Vec<Stats> = types
            .par_iter()
            .filter(|t| t.info().family == Family::Xoshiro)
            .map(|ty| {
                let info = ty.info();
                let Some(kind) = Kind::from_name(info.name) else { return Stats::default() };
                let w = info.word_bits;
                let wb = w / 8;
                let (a, b) = super::c01::scrambler_operands(kind);
                let cw = crate::alphabet::carry_words(w);
                let bg = crate::alphabet::bg_bytes(ctx.seed, 0x05CA + kind as u64, info.seed_len);
                let mut seeds: Vec<Vec<u8>> = Vec::new();
                match b {
                    Some(b) => {
                        for &x in &cw {
                            for &y in &cw {
                                let mut s = bg.clone();
                                s[a * wb..(a + 1) * wb].copy_from_slice(&x.to_le_bytes()[..wb]);
                                s[b * wb..(b + 1) * wb].copy_from_slice(&y.to_le_bytes()[..wb]);
                                seeds.push(s);
                            }
                        }
                    }
                    None => {
                        let mut xs = cw.clone();
                        xs.extend(crate::alphabet::mult_boundary_words(w, 5, ctx.seed).into_iter().step_by(5));
                        for x in xs {
                            let mut s = bg.clone();
                            s[a * wb..(a + 1) * wb].copy_from_slice(&x.to_le_bytes()[..wb]);
                            seeds.push(s);
                        }
                    }
                }
                let alphabet = vec![Op::U32, Op::U64, Op::Fill(3), Op::Fill(5)];
                let mut stats = Stats::default();
                for seed in seeds {
                    if seed.iter().all(|&x| x == 0) {
                        continue;
                    }
                    let mk = SeedMaker { ty: *ty, seed };
                    let native = histories::native_stream(&mk, 8);
                    let own = if info.u32_proj == 'm' { Some(histories::own_u32_stream(&mk, 8)) } else { None };
                    let stream = Stream { info, native: &native, own_u32: own.as_deref() };
                    let mut out = Vec::new();
                    histories::explore(&mk, &stream, &[], Pos::start(), &alphabet, 1, 2, &mut stats, &mut out);
                    for v in out {
                        ctx.violation(&format!("C05:{}", v.key), &format!("{} [start: {}]", v.what, mk.describe()), v.replay);
                    }
                }
                stats
            })
            .collect();
        for s in &vd {
            add(&mut total, s);
        }
        ctx.set("value_directed_projection_starts", vd.iter().map(|s| s.states).sum());
    }
    // sparse states of the small linear generators (state = seed, n <= 128 bits): every one-bit and
    // two-bit state, every non-native call shape once (a non-native call fused into one step of its own)
    {
        let sparse: Vec<Stats> = types
            .par_iter()
            .filter(|t| matches!(t.info().linear_bits, Some(n) if n <= 128))
            .map(|ty| {
                let info = ty.info();
                let n = info.linear_bits.unwrap();
                let mut seeds: Vec<Vec<u8>> = crate::alphabet::w1(n / 8);
                seeds.extend(crate::alphabet::w2_pairs(n).into_iter().map(|(i, j)| crate::alphabet::with_bits(n / 8, &[i, j])));
                let alphabet: Vec<Op> = if info.word_bits == 32 { vec![Op::U64, Op::Fill(8), Op::Fill(5)] } else { vec![Op::U32, Op::Fill(4), Op::Fill(12)] };
                let mut stats = Stats::default();
                for seed in seeds {
                    let mk = SeedMaker { ty: *ty, seed };
                    let native = histories::native_stream(&mk, 10);
                    let stream = Stream { info, native: &native, own_u32: None };
                    let mut out = Vec::new();
                    histories::explore(&mk, &stream, &[], Pos::start(), &alphabet, 1, 2, &mut stats, &mut out);
                    for v in out {
                        ctx.violation(&format!("C05:{}", v.key), &format!("{} [start: {}]", v.what, mk.describe()), v.replay);
                    }
                }
                stats
            })
            .collect();
        for s in &sparse {
            add(&mut total, s);
        }
        ctx.set("sparse_state_starts", sparse.iter().map(|s| s.states).sum());
    }
    // very large requests (64 KiB + 3, 1 MiB + 5 into a misaligned destination) from a few buffer
    // positions, followed by the usual look-ahead
    {
        let huge: Vec<Stats> = types
            .par_iter()
            .map(|ty| {
                let info = ty.info();
                let b = info.block_words.unwrap_or(2);
                let mut starts: Vec<(usize, bool)> = vec![(0, false), (1, false), (b / 2, false), (b - 1, false)];
                if info.family == Family::Isaac64 {
                    starts.push((b - 1, true));
                }
                starts.dedup();
                let mk = SeedMaker { ty: *ty, seed: standard_seeds(*ty, ctx.seed)[1].clone() };
                let alphabet = vec![Op::Fill(65539), Op::FillAt((1 << 20) + 5, 3)];
                let words = ((1 << 20) + 5) / (info.word_bits / 8) + 2 * b + 64;
                explore_maker_from(&mk, &starts, 1, ctx, "C05", &alphabet, words)
            })
            .collect();
        for s in &huge {
            add(&mut total, s);
        }
        ctx.set("huge_fill_explorations", huge.len() as u64);
    }
    // deep stream positions: the same exploration started 1000 (and, thorough, 65536) blocks in
    {
        let thorough = ctx.tier == crate::evidence::Tier::Thorough;
        let deep: Vec<Stats> = types
            .par_iter()
            .filter(|t| t.info().block_words.is_some())
            .flat_map(|ty| {
                let info = ty.info();
                let bb = info.block_words.unwrap() * info.word_bits / 8;
                (if thorough { vec![1000usize, 65536] } else { vec![1000usize] })
                    .iter()
                    .map(|&blocks| {
                        let mk = DeepMaker { ty: *ty, seed: standard_seeds(*ty, ctx.seed)[1].clone(), skip_bytes: blocks * bb };
                        let alphabet = histories::output_alphabet(info);
                        let maxw = alphabet.iter().map(|o| match o { Op::Fill(n) | Op::FillAt(n, _) => (*n + 3) / (info.word_bits / 8), _ => 2 }).max().unwrap();
                        let d = 2; // every rebuild replays the skip
                        let words = info.block_words.unwrap() + 2 + d * (maxw + 1) + info.block_words.unwrap() + 16;
                        explore_maker(&mk, d, ctx, "C05", &alphabet, words)
                    })
                    .collect::<Vec<_>>()
            })
            .collect();
        for s in &deep {
            add(&mut total, s);
        }
        ctx.set("deep_start_explorations", deep.len() as u64);
    }
    // rare reachable events (found on the reference model): explorations (depth 2) started 1 and 0 words before
    // the word that completes the pattern, so that every call shape meets the special word
    {
        let thorough = ctx.tier == crate::evidence::Tier::Thorough;
        let mut jobs: Vec<SkipMaker> = Vec::new();
        for (ty, evs) in rare_events(reg, ctx.seed, thorough) {
            // two events per pattern (every rebuild replays the skip)
            let mut seen: std::collections::HashMap<&'static str, usize> = std::collections::HashMap::new();
            for e in evs {
                let c = seen.entry(e.what).or_insert(0);
                *c += 1;
                if *c > 2 {
                    continue;
                }
                for back in [1u64, 0] {
                    if e.word_index >= back {
                        jobs.push(SkipMaker { ty, seed: e.seed.clone(), skip_words: e.word_index - back });
                    }
                }
            }
        }
        let res: Vec<Stats> = jobs
            .par_iter()
            .map(|mk| {
                let info = mk.info();
                let alphabet = vec![Op::U32, Op::U64, Op::Fill(1), Op::Fill(3), Op::Fill(4), Op::Fill(5), Op::Fill(8), Op::Fill(9)];
                let native = histories::native_stream(mk, 40 + info.block_words.unwrap_or(2));
                let stream = Stream { info, native: &native, own_u32: None };
                let mut stats = Stats::default();
                let mut out = Vec::new();
                histories::explore(mk, &stream, &[], Pos::start(), &alphabet, 2, 6, &mut stats, &mut out);
                for v in out {
                    ctx.violation(&format!("C05:{}", v.key), &format!("{} [start: {}]", v.what, mk.describe()), v.replay);
                }
                stats
            })
            .collect();
        ctx.set("rare_event_explorations", res.len() as u64);
        for s in &res {
            add(&mut total, s);
        }
    }
    // JitterRng with scripted non-stuck timers, rounds 1, 2, 3
    for rounds in [1u8, 2, 3] {
        for salt in 0..2u64 {
            let words = 4 + depth * 3 + 8;
            let readings = jitter_env::benign_readings(ctx.seed ^ (salt << 8) ^ rounds as u64, rounds, words, 8);
            let mk = JitterMaker { reg, readings, rounds, init_pool: None };
            let alphabet = histories::output_alphabet(mk.info());
            let s = explore_maker(&mk, depth, ctx, "C05", &alphabet, words);
            add(&mut total, &s);
        }
    }
    // large round counts (what test_timer returns for a poor timer: 128; the top of the u8 range)
    for rounds in [127u8, 128, 129, 255] {
        let d = 2;
        let words = 4 + d * 3 + 8;
        let readings = jitter_env::benign_readings(ctx.seed ^ 0x05E0 ^ rounds as u64, rounds, words, 8);
        let mk = JitterMaker { reg, readings, rounds, init_pool: None };
        let alphabet = vec![Op::U32, Op::U64, Op::Fill(3), Op::Fill(4), Op::Fill(9)];
        let s = explore_maker(&mk, d, ctx, "C05", &alphabet, words);
        add(&mut total, &s);
    }
    // value-directed start states: the pool is chosen (hook + linear solve) so that the first collected
    // word has a special value: zero, a zero half, all ones, ...
    for rounds in [1u8, 2] {
        let d = depth.min(3);
        let words = 4 + d * 3 + 8;
        let readings = jitter_env::benign_readings(ctx.seed ^ 0x05CC ^ rounds as u64, rounds, words, 8);
        let mut pools: Vec<u64> = jitter_env::SPECIAL_WORDS.iter().filter_map(|&t| jitter_env::solve_pool_for_first_output(reg, &readings, rounds, t)).collect();
        pools.extend(jitter_env::two_word_relations().iter().filter_map(|(_, eqs)| jitter_env::solve_pool_for_relation(reg, &readings, rounds, eqs)));
        for p in pools {
            {
                let mk = JitterMaker { reg, readings: readings.clone(), rounds, init_pool: Some(p) };
                let alphabet = vec![Op::U32, Op::U64, Op::Fill(3), Op::Fill(4), Op::Fill(8), Op::Fill(9)];
                let s = explore_maker(&mk, d, ctx, "C05", &alphabet, words);
                add(&mut total, &s);
                ctx.add("jitter_value_directed_explorations", 1);
            }
        }
    }
    // JitterRng on timers with long runs of stuck measurements inside the second word (the native
    // twin retries on the same readings, so the word stream is still well defined)
    for k in [1usize, 9, 33, 70, 130, 260, 1030] {
        for rounds in [1u8, 2] {
            let per = jitter_env::readings_per_word(rounds);
            let d = depth.min(3);
            let words = 4 + d * 3 + 8;
            let base = jitter_env::raw_readings(ctx.seed ^ 0x05AA ^ k as u64, per * words + 3 * k + 64);
            let readings = jitter_env::with_stuck_run(&base, per + 5, k, crate::jitter_env::Dev::Repeat3);
            let mk = JitterMaker { reg, readings, rounds, init_pool: None };
            let alphabet = vec![Op::U32, Op::U64, Op::Fill(3), Op::Fill(8), Op::Fill(9), Op::Fill(12)];
            let s = explore_maker(&mk, d, ctx, "C05", &alphabet, words);
            add(&mut total, &s);
            ctx.add("jitter_stuck_run_explorations", 1);
        }
    }
    ctx.set("states", total.states);
    ctx.set("transitions", total.transitions);
    ctx.set("merges_checked", total.merges_checked);
    ctx.set("unmerged_paths_info", total.unmerged_paths);
    ctx.set("refill_straddles", total.straddles);
    ctx.set("tail_transitions", total.tails);
    ctx.set("half_pending_transitions", total.half_pending_transitions);
    ctx.set("distinct_observations", total.distinct_observations);
    ctx.set("depth_completed", total.depth_completed);
    ctx.set("tolerated_alternatives", total.tolerated_alternatives);
    for (name, v) in [("merges_checked", total.merges_checked), ("refill_straddles", total.straddles), ("tail_transitions", total.tails), ("half_pending_transitions", total.half_pending_transitions)] {
        if v == 0 {
            ctx.machinery(&format!("anti-vacuity: counter {} is zero", name));
        }
    }
    ctx.set_exhaustive(true);
    Outcome {
        level: "model_checking",
        keys: EvidenceKeys {
            states: "states",
            transitions: "transitions",
            traces: "transitions",
            evaluations: "transitions",
            distinct: "distinct_observations",
            rule: format!("explicit-state BFS over all histories of next_u32/next_u64/fill_bytes(n) up to depth {} from 3 seeds x every start offset (fresh, mid-block, last words of a block, with and without a pending half word; plus depth 2 from every buffer index of the block generators) for 20 seedable types and JitterRng (rounds 1..3); states = distinct (words consumed, half pending) keys per start, merged only after a state-equality check; every transition is executed on the real code and compared with the stated projection of the native twin's stream, followed by block+2 words of the future; distinct = distinct observations returned", depth),
        },
    }
}
