pub mod c01;
pub mod c02;
pub mod c03;
pub mod c04;
pub mod c05;
pub mod makers;
pub mod c06;
pub mod c07;
pub mod c08;
pub mod c09;
pub mod c10;
pub mod c11;
pub mod c12;
pub mod c13;
pub mod c14;
pub mod c15;
pub mod c16;
pub mod c17;
pub mod c19;
pub mod c18aux;
pub mod statespace;
pub mod lin;
pub mod common;

use crate::evidence::{Ctx, EvidenceKeys};
use crate::subject::Registry;

pub struct Outcome {
    pub level: &'static str,
    pub keys: EvidenceKeys,
}

pub fn run(id: &str, reg: &dyn Registry, ctx: &Ctx) -> Option<Outcome> {
    match id {
        "C01" => Some(c01::run(reg, ctx)),
        "C02" => Some(c02::run(reg, ctx)),
        "C03" => Some(c03::run(reg, ctx)),
        "C04" => Some(c04::run(reg, ctx)),
        "C05" => Some(c05::run(reg, ctx)),
        "C06" => Some(c06::run(reg, ctx)),
        "C07" => Some(c07::run(reg, ctx)),
        "C08" => Some(c08::run(reg, ctx)),
        "C09" => Some(c09::run(reg, ctx)),
        "C10" => Some(c10::run(reg, ctx)),
        "C11" => Some(c11::run(reg, ctx)),
        "C12" => Some(c12::run(reg, ctx)),
        "C13" => Some(c13::run(reg, ctx)),
        "C14" => Some(c14::run(reg, ctx)),
        "C15" => Some(c15::run(reg, ctx)),
        "C16" => Some(c16::run(reg, ctx)),
        "C17" => Some(c17::run(reg, ctx)),
        "C19" => Some(c19::run(reg, ctx)),
        _ => None,
    }
}

/// C19 solo child entry point (filled in by c19).
pub fn solo_main(reg: &dyn Registry, args: &[String]) -> i32 {
    c19::solo_main(reg, args)
}

pub fn replay_lockstep(reg: &dyn Registry, r: &serde_json::Value) -> i32 {
    use crate::evidence::unhex;
    let Some(tname) = r.get("type").and_then(|t| t.as_str()) else { return 2 };
    let Some(ty) = reg.get(tname) else { return 2 };
    let seed = unhex(r.get("seed").and_then(|s| s.as_str()).unwrap_or(""));
    let steps = r.get("steps").and_then(|s| s.as_u64()).unwrap_or(1) as usize;
    let res = if let Some(model) = c01::RefModel::for_type(tname) {
        c01::lockstep_model(ty, model, &seed, steps).map_err(|e| e.0)
    } else {
        println!("no lock-step reference for this type");
        return 2;
    };
    match res {
        Ok(n) => {
            println!("lock-step of {} steps agrees with the reference", n);
            0
        }
        Err(e) => {
            println!("replay reproduces the violation: {}", e);
            1
        }
    }
}
