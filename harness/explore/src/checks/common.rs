//! Helpers shared by the checks.

use crate::alphabet;
use crate::evidence::{hex, Ctx};
use crate::ops::guarded;
use crate::subject::{Gen, GenType};
use refmodels::gf2::BitVec;
use serde_json::json;

/// The structured seed alphabet for a seed of `len` bytes: O, W1, W2, WZ, BYTE (non-zero seeds).
pub fn seed_alphabet(len: usize, with_w2: bool) -> Vec<Vec<u8>> {
    let n = len * 8;
    let mut v = vec![alphabet::ones(len)];
    v.extend(alphabet::w1(len));
    v.extend(alphabet::wz(len));
    v.extend(alphabet::byte_probes(len));
    if with_w2 {
        for (i, j) in alphabet::w2_pairs(n) {
            v.push(alphabet::with_bits(len, &[i, j]));
        }
    }
    // the sub-alphabets overlap (e.g. byte probe 0x01 is a weight-1 seed): keep each seed once
    let mut seen = std::collections::HashSet::new();
    v.retain(|s| seen.insert(s.clone()));
    v
}

/// Dense chained seeds: reseed a generator from its own output (`from_rng(&mut self)`).
pub fn chain_seeds(ty: &dyn GenType, seed: u64, count: usize) -> Vec<Vec<u8>> {
    let len = ty.info().seed_len;
    let mut out = Vec::with_capacity(count);
    let mut cur = alphabet::bg_bytes(seed, 0x5EED, len);
    for _ in 0..count {
        out.push(cur.clone());
        // next seed: output bytes of the generator seeded with the current one
        let mut g = ty.from_seed(&cur);
        let mut b = vec![0u8; len];
        g.fill_bytes(&mut b);
        cur = b;
    }
    out
}

pub fn native(g: &mut Box<dyn Gen>, word_bits: usize) -> u64 {
    if word_bits == 32 {
        g.next_u32() as u64
    } else {
        g.next_u64()
    }
}

pub fn from_seed_guarded(ty: &dyn GenType, seed: &[u8]) -> Result<Box<dyn Gen>, String> {
    guarded(|| ty.from_seed(seed)).map_err(|o| format!("from_seed panicked: {:?}", o))
}

pub fn bits(bytes: &[u8]) -> BitVec {
    BitVec::from_bytes(bytes.len() * 8, bytes)
}

pub fn sample_seed(ctx: &Ctx, what: &str, ty: &str, seed: &[u8]) {
    ctx.sample(json!({"case": what, "type": ty, "seed": hex(seed)}));
}

/// Seeds/blocks built from documented constants: the zero-seed replacements and their fragments.
pub fn documented_constant_seeds(ty: &dyn GenType) -> Vec<Vec<u8>> {
    let len = ty.info().seed_len;
    let mut out = Vec::new();
    // XorShiftRng's preset word repeated, in every word position and everywhere
    let word = 0x0BAD_5EEDu32.to_le_bytes();
    let mut all = Vec::new();
    while all.len() < len {
        all.extend_from_slice(&word);
    }
    all.truncate(len);
    out.push(all.clone());
    for pos in (0..len).step_by(4) {
        let mut s = vec![0u8; len];
        s[pos..pos + 4].copy_from_slice(&word);
        out.push(s);
        let mut s = all.clone();
        s[pos..pos + 4].copy_from_slice(&[0, 0, 0, 0]);
        if s.iter().any(|&b| b != 0) {
            out.push(s);
        }
    }
    // the SplitMix64(0) stream (the xoshiro family's replacement for the zero seed)
    out.push(refmodels::seeding::splitmix_expand(0, len));
    out.push(refmodels::seeding::pcg32_expand(0, len));
    out
}
