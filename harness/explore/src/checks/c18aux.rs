//! Value-directed seeds for the C18 corpus and for C14: states whose image under jump()/long_jump()
//! or under one or two steps is "special" (a zero word, equal words, words summing to zero ...),
//! and the special states themselves. The matrices are powers of the *reference* step matrix, so
//! no code under test is involved in choosing them.

use super::c01::{ref_matrix, RefModel};
use crate::linear;
use crate::subject::{GenType, Registry};
use refmodels::gf2::BigU;

/// (type name, op name, seed bytes) triples; op is "jump", "long_jump" or "step"
pub fn jump_special_seeds(reg: &dyn Registry, seed: u64) -> Vec<(String, &'static str, Vec<u8>)> {
    let mut out = Vec::new();
    for ty in reg.types().into_iter().filter(|t| t.info().linear_bits.is_some()) {
        out.extend(for_type(ty, seed));
    }
    out
}

pub fn for_type(ty: &dyn GenType, seed: u64) -> Vec<(String, &'static str, Vec<u8>)> {
    let mut out = Vec::new();
    let info = ty.info();
    let Some(n) = info.linear_bits else { return out };
    let Some(model) = RefModel::for_type(info.name) else { return out };
    let t = ref_matrix(model);
    if info.has_jump {
        for (name, k) in [("jump", n / 2), ("long_jump", 3 * n / 4)] {
            let m = t.pow2k(k);
            for img in linear::special_images(n, info.word_bits, seed) {
                if let Some(s) = m.solve(&img) {
                    if !s.is_zero() {
                        out.push((info.name.to_string(), name, s.to_bytes()));
                    }
                }
            }
        }
    }
    // states that are special, or become special after one / two steps
    for k in [0u64, 1, 2] {
        let m = t.pow_big(&BigU::from_u64(k));
        for img in linear::special_images(n, info.word_bits, seed ^ (0x57E9 + k)) {
            if let Some(s) = m.solve(&img) {
                if !s.is_zero() {
                    out.push((info.name.to_string(), "step", s.to_bytes()));
                }
            }
        }
    }
    out
}
