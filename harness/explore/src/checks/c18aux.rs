//! Value-directed seeds for the C18 corpus and for C14: states whose image under jump()/long_jump()
//! is "special" (a zero word, equal words, words summing to zero ...). The jump matrices are computed
//! as powers of the step matrix extracted from the implementation, so no jump is executed here.

use crate::linear::{self, Extracted, LinOp};
use crate::subject::{GenType, Registry};

/// (type name, op name, seed bytes) triples
pub fn jump_special_seeds(reg: &dyn Registry, seed: u64) -> Vec<(String, &'static str, Vec<u8>)> {
    let mut out = Vec::new();
    for ty in reg.types().into_iter().filter(|t| t.info().has_jump) {
        out.extend(for_type(ty, seed));
    }
    out
}

pub fn for_type(ty: &dyn GenType, seed: u64) -> Vec<(String, &'static str, Vec<u8>)> {
    let mut out = Vec::new();
    let info = ty.info();
    let Some(n) = info.linear_bits else { return out };
    let Ok(t) = linear::extract(ty, LinOp::Step) else { return out };
    for (name, k) in [("jump", n / 2), ("long_jump", 3 * n / 4)] {
        let m = t.mat.pow2k(k);
        let ex = Extracted { op: LinOp::Step, mat: m, c: refmodels::gf2::BitVec::zero(n), executions: 0, images_validated: 0 };
        for s in linear::preimages_of_special(&ex, info.word_bits, seed) {
            if !s.is_zero() {
                out.push((info.name.to_string(), name, s.to_bytes()));
            }
        }
    }
    out
}
