//! Shared E3 driver for C04/C06/C07: extract, bind (conformance replay), diagnose non-linearity
//! and search for assumption-free witnesses on the real code.

use super::common::*;
use crate::alphabet;
use crate::evidence::{hex, Ctx};
use crate::linear::{self, Extracted, LinOp, Mismatch};
use crate::subject::GenType;
use refmodels::gf2::BitVec;
use serde_json::json;
use std::collections::HashMap;

pub struct Bound {
    pub ex: Extracted,
    pub replays: u64,
    pub mismatch_count: u64,
    pub mismatches: Vec<Mismatch>,
}

/// Extract the affine model of `op` and replay its predictions on: all weight-2 states, walking
/// zeros, all-ones, chained dense states, and (if `w3`) all weight-3 states.
pub fn extract_and_bind(ty: &dyn GenType, op: LinOp, ctx: &Ctx, w3: bool, chain_per_base: usize) -> Result<Bound, String> {
    let ex = linear::extract(ty, op)?;
    ctx.add("basis_executions", ex.executions);
    let n = ex.mat.cols;
    let len = n / 8;
    let mut replays = 0u64;
    let mut bad = 0u64;
    let mut kept = Vec::new();
    let pairs = alphabet::w2_pairs(n);
    let (c, b, k) = linear::conform(ty, &ex, pairs.len(), &|i| {
        let (a, b) = pairs[i];
        let mut s = BitVec::zero(n);
        s.set(a, true);
        s.set(b, true);
        s
    });
    replays += c;
    bad += b;
    kept.extend(k);
    let mut others = alphabet::wz(len);
    others.push(alphabet::ones(len));
    others.extend(alphabet::byte_probes(len));
    let (c, b, k) = linear::conform(ty, &ex, others.len(), &|i| bits(&others[i]));
    replays += c;
    bad += b;
    kept.extend(k);
    let ch = linear::chain_states(ty, ctx.seed, chain_per_base);
    let (c, b, k) = linear::conform(ty, &ex, ch.len(), &|i| ch[i].clone());
    replays += c;
    bad += b;
    kept.extend(k);
    // model-guided states: those whose image under the extracted model is "special" (a zero word, equal
    // words, words summing to zero, ...): what a guard keyed on the *result* would single out
    let pre = linear::preimages_of_special(&ex, ty.info().word_bits, ctx.seed);
    let (c, b, k) = linear::conform(ty, &ex, pre.len(), &|i| pre[i].clone());
    replays += c;
    bad += b;
    kept.extend(k);
    ctx.add("special_image_preimages", c);
    // and the special values themselves as states
    let sp = linear::special_images(n, ty.info().word_bits, ctx.seed ^ 1);
    let (c, b, k) = linear::conform(ty, &ex, sp.len(), &|i| sp[i].clone());
    replays += c;
    bad += b;
    kept.extend(k);
    if w3 {
        let (c, b, k) = linear::conform_w3(ty, &ex);
        replays += c;
        bad += b;
        kept.extend(k);
        ctx.add("w3_states", c);
    }
    ctx.add("conformance_replays", replays);
    ctx.add("conformance_mismatches", bad);
    Ok(Bound { ex, replays, mismatch_count: bad, mismatches: kept })
}

/// Anti-vacuity: replay a deliberately perturbed copy of the extracted matrix on the weight-2
/// states and count the disagreements (must be > 0, else the conformance replay has no teeth).
pub fn perturbation_teeth(ty: &dyn GenType, ex: &Extracted) -> u64 {
    let n = ex.mat.cols;
    let mut p = Extracted { op: ex.op, mat: ex.mat.clone(), c: ex.c.clone(), executions: 0, images_validated: 0 };
    // flip one entry of column n/2
    let cur = p.mat.col[n / 2].get(n / 3);
    p.mat.col[n / 2].set(n / 3, !cur);
    let pairs: Vec<(usize, usize)> = (0..n).filter(|&j| j != n / 2).map(|j| (n / 2, j)).collect();
    let (_, bad, _) = linear::conform(ty, &p, pairs.len(), &|i| {
        let (a, b) = pairs[i];
        let mut s = BitVec::zero(n);
        s.set(a, true);
        s.set(b, true);
        s
    });
    bad
}

/// The affine model extracted around a dense base point b: col_i = f(b ^ e_i) ^ f(b).
pub fn extract_dense(ty: &dyn GenType, op: LinOp, seed: u64) -> Result<Extracted, String> {
    let n = ty.info().linear_bits.ok_or("not linear")?;
    let base = bits(&alphabet::bg_bytes(seed, 0xDE45E, n / 8));
    let fb = linear::image(ty, op, &base)?;
    let mut col = Vec::with_capacity(n);
    for i in 0..n {
        let mut s = base.clone();
        s.set(i, !base.get(i));
        let mut y = linear::image(ty, op, &s)?;
        y.xor_assign(&fb);
        col.push(y);
    }
    let mat = refmodels::gf2::Mat { rows: n, cols: n, col };
    // c = f(b) ^ L b
    let mut c = mat.apply(&base);
    c.xor_assign(&fb);
    Ok(Extracted { op, mat, c, executions: n as u64 + 1, images_validated: 0 })
}

/// Assumption-free witnesses that `op` is not injective on the real code:
/// (1) two distinct enumerated states with equal images; (2) for each state on which the code
/// disagrees with the dense-base model, the model preimage of the observed image (a different
/// state that the code maps to the same image). Returns (state a, state b, common image).
pub fn find_collision(ty: &dyn GenType, op: LinOp, seed: u64, suspects: &[BitVec]) -> Option<(BitVec, BitVec, BitVec)> {
    let n = ty.info().linear_bits?;
    let len = n / 8;
    // (1) direct: enumerate zero, W1, W2 (capped), WZ and the suspects
    let mut seen: HashMap<Vec<u8>, BitVec> = HashMap::new();
    let mut states: Vec<BitVec> = vec![BitVec::zero(n)];
    states.extend(alphabet::w1(len).iter().map(|s| bits(s)));
    states.extend(alphabet::wz(len).iter().map(|s| bits(s)));
    states.extend(suspects.iter().cloned());
    for (i, j) in alphabet::w2_pairs(n).into_iter().take(200_000) {
        let mut s = BitVec::zero(n);
        s.set(i, true);
        s.set(j, true);
        states.push(s);
    }
    for s in &states {
        if let Ok(y) = linear::image(ty, op, s) {
            let k = y.to_bytes();
            if let Some(prev) = seen.get(&k) {
                if prev != s {
                    return Some((prev.clone(), s.clone(), y));
                }
            } else {
                seen.insert(k, s.clone());
            }
        }
    }
    // (2) via the dense-base model
    if let Ok(dm) = extract_dense(ty, op, seed) {
        for s in suspects.iter().chain(states.iter().take(2000)) {
            let Ok(y) = linear::image(ty, op, s) else { continue };
            if dm.predict(s) == y {
                continue;
            }
            let mut rhs = y.clone();
            rhs.xor_assign(&dm.c);
            if let Some(x) = dm.mat.solve(&rhs) {
                if &x != s {
                    if let Ok(yx) = linear::image(ty, op, &x) {
                        if yx == y {
                            return Some((s.clone(), x, y));
                        }
                    }
                }
            }
        }
    }
    None
}

pub fn report_collision(ctx: &Ctx, key: &str, ty: &dyn GenType, op: LinOp, a: &BitVec, b: &BitVec, y: &BitVec) {
    ctx.violation(
        key,
        &format!("{}: {} maps the two distinct states {} and {} to the same state {} (not a bijection)", ty.info().name, op.name(), hex(&a.to_bytes()), hex(&b.to_bytes()), hex(&y.to_bytes())),
        json!({"kind":"collision","type":ty.info().name,"op":op.name(),"state_a":hex(&a.to_bytes()),"state_b":hex(&b.to_bytes()),"image":hex(&y.to_bytes())}),
    );
}
