//! C09 — all seeding routes agree: seed_from_u64, from_rng, try_from_rng (incl. failing sources).

use super::c08::expansion;
use super::Outcome;
use crate::alphabet;
use crate::evidence::{hex, Ctx, EvidenceKeys, Tier};
use crate::ops::guarded;
use crate::subject::{Family, FallibleSource, FaultMode, Gen, GenType, Registry, ScriptSource, SourceError, SweepJob};
use rayon::prelude::*;
use refmodels::isaac::{Isaac, Isaac64};
use serde_json::json;

/// Is the freshly built ISAAC generator `g` the one the reference model describes? Decided without
/// assuming where the core sits in the serde image: the reference core image must occur in the image
/// (whatever other fields the generator serialises around it); failing that, a copy restored from the
/// image must produce the reference stream for two blocks.
fn isaac_is(ty: &dyn GenType, g: &dyn Gen, ref_core_image: &[u8], mut ref_stream: impl FnMut() -> u64, is64: bool) -> bool {
    let Some(img) = g.ser() else { return false };
    if img.len() >= ref_core_image.len() && img.windows(ref_core_image.len()).any(|w| w == ref_core_image) {
        return true;
    }
    if ty.info().family == Family::Core {
        // a bare core whose image has another layout: decided on behaviour - a copy restored from the image
        // must generate the reference stream for two blocks
        return match ty.de(&img) {
            Some(Ok(mut copy)) => {
                let item = if is64 { 8 } else { 4 };
                let mut buf = vec![0u8; 512 * item];
                copy.fill_bytes(&mut buf);
                buf.chunks(item).all(|c| {
                    let mut w = [0u8; 8];
                    w[..item].copy_from_slice(c);
                    u64::from_le_bytes(w) == ref_stream()
                })
            }
            _ => false,
        };
    }
    match ty.de(&img) {
        Some(Ok(mut copy)) => (0..520).all(|_| {
            let e = ref_stream();
            let v = if is64 { copy.next_u64() } else { copy.next_u32() as u64 };
            v == e
        }),
        _ => false,
    }
}

/// Does `g` equal the generator the documented route builds from `bytes` (one seed's worth)?
fn equals_from_bytes(ty: &dyn GenType, g: &dyn Gen, bytes: &[u8]) -> bool {
    match fam(ty) {
        Family::Isaac => {
            let mut m = Isaac::from_full_bytes(bytes);
            let img = m.core_image();
            isaac_is(ty, g, &img, || m.rand() as u64, false)
        }
        Family::Isaac64 => {
            let mut m = Isaac64::from_full_bytes(bytes);
            let img = m.core_image();
            isaac_is(ty, g, &img, || m.rand(), true)
        }
        _ => g.eq_dyn(ty.from_seed(bytes).as_ref()) == Some(true),
    }
}

/// the family whose documented seeding rules apply (a bare block core follows its generator's)
fn fam(ty: &dyn GenType) -> Family {
    match ty.info().name {
        "IsaacCore" => Family::Isaac,
        "Isaac64Core" => Family::Isaac64,
        "Hc128Core" => Family::Hc128,
        _ => ty.info().family,
    }
}

fn source_len(ty: &dyn GenType) -> usize {
    match fam(ty) {
        Family::Isaac => 1024,
        Family::Isaac64 => 2048,
        _ => ty.info().seed_len,
    }
}

pub fn run(reg: &dyn Registry, ctx: &Ctx) -> Outcome {
    let thorough = ctx.tier == Tier::Thorough;
    let mut types = reg.types();
    // the block cores are public seedable types of their own (used with rand_core's BlockRng)
    types.extend(reg.core_types());
    ctx.assume("documented expansions: SplitMix64 stream (xoshiro family), rand_core 0.9 PCG32 expansion (XorShiftRng, Hc128Rng), key words + one init pass (ISAAC); ISAAC generators are compared by the serde image of their freshly built core, before any block is generated");
    let _: Vec<()> = types
        .par_iter()
        .map(|ty| {
            let info = ty.info();
            let key = |k: &str| format!("C09:{}:{}", info.name, k);
            let rep = |ctor: serde_json::Value| json!({"kind":"ctor","type":info.name,"ctor":ctor});
            let family = fam(*ty);
            let is_isaac = matches!(family, Family::Isaac | Family::Isaac64);

            // (a) seed_from_u64(x) == from_seed(documented expansion of x)
            let mut xs = alphabet::u64_alphabet();
            xs.extend(0..if thorough { 1 << 18 } else { 65536 });
            let dense = alphabet::bg_bytes(ctx.seed, 0x0901, 8 * if thorough { 20000 } else { 2000 });
            xs.extend(dense.chunks(8).map(|c| u64::from_le_bytes(c.try_into().unwrap())));
            for x in xs {
                ctx.add("u64_arguments", 1);
                let g = match guarded(|| ty.seed_from_u64(x)) {
                    Ok(g) => g,
                    Err(o) => {
                        ctx.violation(&key("panic"), &format!("{}: seed_from_u64({:#x}) panicked: {:?}", info.name, x, o), rep(json!({"seed_from_u64": x})));
                        continue;
                    }
                };
                let ok = match family {
                    Family::Isaac => {
                        let mut m = Isaac::from_u64(x);
                        let img = m.core_image();
                        isaac_is(*ty, g.as_ref(), &img, || m.rand() as u64, false)
                    }
                    Family::Isaac64 => {
                        let mut m = Isaac64::from_u64(x);
                        let img = m.core_image();
                        isaac_is(*ty, g.as_ref(), &img, || m.rand(), true)
                    }
                    _ => g.eq_dyn(ty.from_seed(&expansion(*ty, x)).as_ref()) == Some(true),
                };
                if !ok {
                    ctx.violation(&key("seed_from_u64"), &format!("{}: seed_from_u64({:#x}) is not from_seed of the documented expansion", info.name, x), rep(json!({"seed_from_u64": x})));
                }
            }

            // complete sub-cubes of the u64 argument (types with ==)
            if info.has_eq {
                let bitsn: u32 = if family == Family::Hc128 { if thorough { 22 } else { 16 } } else if thorough { 30 } else { 22 };
                for (base_tag, shift) in [(0x0911u64, 0u32), (0x0912, 64 - bitsn), (0x0913, 16)] {
                    let mut b = [0u8; 8];
                    b.copy_from_slice(&alphabet::bg_bytes(ctx.seed, base_tag, 8));
                    let r = ty.sweep(&SweepJob::U64Cube { base: u64::from_le_bytes(b), shift, bits: bitsn, check_expansion: true });
                    ctx.add("cube_elements", r.elements);
                    if let Some(f) = r.failure {
                        let mut xb = [0u8; 8];
                        xb.copy_from_slice(&r.failing_input.unwrap_or(vec![0; 8]));
                        ctx.violation(&key("seed_from_u64-cube"), &format!("{}: seed_from_u64({:#x}): {}", info.name, u64::from_le_bytes(xb), f), rep(json!({"seed_from_u64": u64::from_le_bytes(xb)})));
                    }
                }
            }

            // (b) from_rng / (c) try_from_rng over byte scripts
            let n = source_len(*ty);
            let mut scripts: Vec<Vec<u8>> = Vec::new();
            let step = if is_isaac && !thorough { 1 } else { 1 };
            for pos in (0..n).step_by(step) {
                for val in [0x01u8, 0x80] {
                    let mut s = vec![0u8; n];
                    s[pos] = val;
                    scripts.push(s);
                }
            }
            scripts.push((0..n).map(|i| (i % 251 + 1) as u8).collect());
            scripts.push(vec![0xff; n]);
            scripts.push(alphabet::bg_bytes(ctx.seed, 0x0902, n));
            if !is_isaac && info.linear_bits.is_some() {
                scripts.extend(crate::linear::special_images(n * 8, info.word_bits, ctx.seed ^ 0x09).into_iter().map(|v| v.to_bytes()));
            }
            if !is_isaac {
                // blocks made of documented constants (e.g. XorShiftRng's zero-seed preset) are ordinary seeds
                scripts.extend(super::common::documented_constant_seeds(*ty).into_iter().filter(|s| s.iter().any(|&b| b != 0)));
            }
            let follow = alphabet::bg_bytes(ctx.seed, 0x0903, 64);
            for s in &scripts {
                let mut full = s.clone();
                full.extend_from_slice(&follow);
                ctx.add("source_scripts", 1);
                let rp = rep(json!({"from_rng": {"script": hex(&s[..s.len().min(64)]), "script_len": s.len()}}));
                // from_rng
                let mut src = ScriptSource::new(full.clone());
                let g = match guarded(|| ty.from_rng(&mut src)) {
                    Ok(g) => g,
                    Err(o) => {
                        ctx.violation(&key("panic"), &format!("{}: from_rng panicked: {:?}", info.name, o), rp);
                        continue;
                    }
                };
                if src.pos != n || src.calls != vec![('f', n)] {
                    ctx.violation(&key("from_rng-consumption"), &format!("{}: from_rng consumed {} bytes in calls {:?} instead of exactly one fill_bytes of {} bytes", info.name, src.pos, src.calls, n), rp.clone());
                }
                if !equals_from_bytes(*ty, g.as_ref(), s) {
                    ctx.violation(&key("from_rng-result"), &format!("{}: from_rng did not build the generator of the bytes the source delivered (script {}..)", info.name, hex(&s[..s.len().min(24)])), rp.clone());
                }
                // try_from_rng, source never fails
                let mut fs = FallibleSource::new(full.clone(), None, FaultMode::Untouched, 99);
                match guarded(|| ty.try_from_rng(&mut fs)) {
                    Ok(Ok(t)) => {
                        let same = if is_isaac { t.ser() == g.ser() } else { t.eq_dyn(g.as_ref()) == Some(true) };
                        if !same || !equals_from_bytes(*ty, t.as_ref(), s) {
                            ctx.violation(&key("try_from_rng-result"), &format!("{}: try_from_rng over a non-failing source differs from from_rng on the same bytes", info.name), rp.clone());
                        }
                        if fs.inner.pos != n {
                            ctx.violation(&key("try_from_rng-consumption"), &format!("{}: try_from_rng consumed {} bytes instead of {}", info.name, fs.inner.pos, n), rp.clone());
                        }
                    }
                    Ok(Err(e)) => ctx.violation(&key("try_from_rng-spurious-error"), &format!("{}: try_from_rng returned {:?} although the source never failed", info.name, e), rp.clone()),
                    Err(o) => ctx.violation(&key("panic"), &format!("{}: try_from_rng panicked: {:?}", info.name, o), rp.clone()),
                }
            }

            // (b2) leading all-zero blocks: XorShiftRng redraws (and only then), everybody else builds from
            // exactly the one block delivered
            if !is_isaac {
                for z in alphabet::zero_block_counts(if thorough { 1 << 18 } else { 65536 }).into_iter().filter(|&z| z >= 1) {
                    for blk in [alphabet::with_bits(n, &[0]), alphabet::with_bits(n, &[8 * n - 1]), alphabet::bg_bytes(ctx.seed, 0x0905, n)] {
                        let mut script = vec![0u8; z * n];
                        script.extend_from_slice(&blk);
                        script.extend_from_slice(&follow);
                        ctx.add("source_scripts", 1);
                        let rp = rep(json!({"from_rng": {"zero_blocks": z, "then": hex(&blk)}}));
                        let mut src = ScriptSource::new(script.clone());
                        let g = match guarded(|| ty.from_rng(&mut src)) {
                            Ok(g) => g,
                            Err(o) => {
                                ctx.violation(&key("panic"), &format!("{}: from_rng panicked: {:?}", info.name, o), rp);
                                continue;
                            }
                        };
                        let (want_bytes, want_pos) = if family == Family::XorShift { (blk.clone(), (z + 1) * n) } else { (vec![0u8; n], n) };
                        if src.pos != want_pos {
                            ctx.violation(&key("from_rng-consumption"), &format!("{}: from_rng over {} leading all-zero blocks left the source advanced by {} bytes instead of {}", info.name, z, src.pos, want_pos), rp.clone());
                        }
                        if !equals_from_bytes(*ty, g.as_ref(), &want_bytes) {
                            ctx.violation(&key("from_rng-result"), &format!("{}: from_rng over {} leading all-zero blocks did not build the documented generator", info.name, z), rp.clone());
                        }
                    }
                }
            }

            // fault enumeration: z leading all-zero blocks, failure at call f in each mode
            let last = alphabet::bg_bytes(ctx.seed, 0x0904, n);
            let zs: Vec<usize> = if family == Family::XorShift { vec![0, 1, 2, 3, 4, 15, 16, 17, 255, 256, 257, 1023, 1024, 1025] } else { vec![0, 1] };
            for z in zs {
                let mut script = vec![0u8; z * n];
                script.extend_from_slice(&last);
                script.extend_from_slice(&follow);
                // number of source calls the documented procedure makes
                let calls_made = if family == Family::XorShift { z + 1 } else { 1 };
                let fs: Vec<usize> = if calls_made <= 6 { (0..=calls_made + 1).collect() } else { vec![0, 1, calls_made / 2, calls_made - 2, calls_made - 1, calls_made, calls_made + 1] };
                for f in fs {
                    for mode in [FaultMode::Untouched, FaultMode::Partial, FaultMode::Full] {
                        let code = 1000 + (f as u32) * 10 + mode as u32;
                        let mut fs = FallibleSource::new(script.clone(), Some(f), mode, code);
                        ctx.add("fault_executions", 1);
                        let r = guarded(|| ty.try_from_rng(&mut fs));
                        let rp = rep(json!({"try_from_rng": {"zero_blocks": z, "fail_at_call": f, "mode": format!("{:?}", mode), "script_len": script.len()}}));
                        let must_fail = f < calls_made;
                        match (r, must_fail) {
                            (Ok(Err(e)), true) => {
                                if e != SourceError(code) {
                                    ctx.violation(&key("fault-wrong-error"), &format!("{}: try_from_rng returned {:?} instead of the source's error {:?}", info.name, e, SourceError(code)), rp);
                                }
                            }
                            (Ok(Ok(_)), true) => ctx.violation(
                                &key("fault-swallowed"),
                                &format!("{}: the source failed at call {} ({:?}, {} leading zero blocks) but try_from_rng returned a generator", info.name, f, mode, z),
                                rp,
                            ),
                            (Ok(Ok(g)), false) => {
                                // failure scheduled after the last call the procedure makes: must not matter
                                let expect_bytes: Vec<u8> = if family == Family::XorShift || z == 0 { last.clone() } else { vec![0u8; n] };
                                if !equals_from_bytes(*ty, g.as_ref(), &expect_bytes) {
                                    ctx.violation(&key("fault-late-result"), &format!("{}: try_from_rng with a failure scheduled at unused call {} built a different generator", info.name, f), rp);
                                }
                            }
                            (Ok(Err(e)), false) => ctx.violation(&key("fault-extra-call"), &format!("{}: try_from_rng made more source calls than documented (failed with {:?} at call {})", info.name, e, f), rp),
                            (Err(o), _) => ctx.violation(&key("panic"), &format!("{}: try_from_rng panicked: {:?}", info.name, o), rp),
                        }
                    }
                }
            }
            if info.name == "XorShiftRng" {
                ctx.sample(json!({"type": info.name, "fault_space": "zero blocks 0..=4 x failing call 0..=z+2 x {Untouched, Partial, Full}", "scripts": scripts.len()}));
            }
        })
        .collect();
    // one generator of the crates seeded from another (from_rng(&mut parent)), then both used: the child
    // must be the generator of exactly the bytes a twin of the parent delivers through fill_bytes, and
    // the parent must continue exactly like that twin
    {
        let all = reg.types();
        let pairs: Vec<(usize, usize)> = (0..all.len()).flat_map(|c| (0..all.len()).map(move |p| (c, p))).collect();
        let _: Vec<()> = pairs
            .par_iter()
            .map(|&(ci, pi)| {
                let (cty, pty) = (all[ci], all[pi]);
                let n = source_len(cty);
                for (tag, pre) in [(0u64, 0usize), (1, 3)] {
                    let pseed = alphabet::bg_bytes(ctx.seed, 0x09F0 + tag + ((pi as u64) << 8), pty.info().seed_len);
                    let mut parent = pty.from_seed(&pseed);
                    let mut twin = pty.from_seed(&pseed);
                    for _ in 0..pre {
                        parent.next_u32();
                        twin.next_u32();
                    }
                    let mut bytes = vec![0u8; n];
                    twin.fill_bytes(&mut bytes);
                    ctx.add("generator_as_source", 1);
                    let rp = json!({"kind":"note","child":cty.info().name,"parent":pty.info().name,"parent_seed":hex(&pseed),"parent_u32_calls_before":pre});
                    let child = match guarded(|| cty.from_rng_of(parent.as_mut())) {
                        Ok(c) => c,
                        Err(o) => {
                            ctx.violation(&format!("C09:{}:panic", cty.info().name), &format!("{}: from_rng(&mut {}) panicked: {:?}", cty.info().name, pty.info().name, o), rp);
                            continue;
                        }
                    };
                    if bytes.iter().any(|&b| b != 0) && !equals_from_bytes(cty, child.as_ref(), &bytes) {
                        ctx.violation(&format!("C09:{}:from_rng-result", cty.info().name), &format!("{}: from_rng(&mut {}) did not build the generator of the {} bytes the parent delivers", cty.info().name, pty.info().name, n), rp.clone());
                    }
                    let after: Vec<u64> = (0..4).map(|_| parent.next_u64()).collect();
                    let want: Vec<u64> = (0..4).map(|_| twin.next_u64()).collect();
                    if after != want && bytes.iter().any(|&b| b != 0) {
                        ctx.violation(&format!("C09:{}:from_rng-consumption", cty.info().name), &format!("{}: after from_rng(&mut {}) the parent continues with {:x?}, a twin that delivered one seed's worth ({} bytes) through fill_bytes continues with {:x?}", cty.info().name, pty.info().name, after, n, want), rp);
                    }
                }
            })
            .collect();
    }
    ctx.set("evaluations", ctx.get("u64_arguments") + ctx.get("source_scripts") + ctx.get("fault_executions") + ctx.get("cube_elements") + ctx.get("generator_as_source"));
    ctx.set_exhaustive(true);
    Outcome {
        level: "fault_enumeration",
        keys: EvidenceKeys {
            states: "evaluations",
            transitions: "evaluations",
            traces: "fault_executions",
            evaluations: "evaluations",
            distinct: "evaluations",
            rule: "20 seedable types x (u64 alphabet + 0..4096 (65536) + dense arguments) for seed_from_u64; x every single-byte probe position of the source block (2 values), ramp, ones, dense for from_rng and try_from_rng; x every (leading zero blocks, first failing call, fault mode in {untouched, partial write, full write}) for a failing TryRngCore source; all cases are distinct by construction".into(),
        },
    }
}
