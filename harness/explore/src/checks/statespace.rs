//! State sets for C10/C11/C17: every history up to a depth over an alphabet, from several seeds
//! and start offsets. No merging here: each history is its own state.

use super::c05::{prefix_ops, start_prefixes};
use crate::histories::{rebuild, Maker};
use crate::ops::Op;
use crate::subject::{Family, Gen, TypeInfo};

pub fn all_histories(alphabet: &[Op], depth: usize) -> Vec<Vec<Op>> {
    let mut out: Vec<Vec<Op>> = vec![vec![]];
    let mut layer: Vec<Vec<Op>> = vec![vec![]];
    for _ in 0..depth {
        let mut next = Vec::new();
        for h in &layer {
            for op in alphabet {
                let mut n = h.clone();
                n.push(op.clone());
                next.push(n);
            }
        }
        out.extend(next.iter().cloned());
        layer = next;
    }
    out
}

/// A compact alphabet for state-set construction and continuations.
pub fn compact_alphabet(info: &TypeInfo) -> Vec<Op> {
    if info.family == Family::Core {
        return vec![Op::U32];
    }
    let mut v = vec![Op::U32, Op::U64, Op::Fill(3), Op::Fill(9)];
    if info.block_words.is_some() {
        v.push(Op::FillAt(8197, 1)); // bulk request (fast paths for large fills), not a multiple of the word size, destination not word-aligned
    }
    match info.family {
        Family::Hc128 => v.push(Op::Fill(61)),
        Family::Isaac => v.push(Op::Fill(1021)),
        Family::Isaac64 => v.push(Op::Fill(2043)),
        _ => {}
    }
    if info.has_jump {
        v.push(Op::Jump);
        v.push(Op::LongJump);
    }
    v
}

pub struct StateRef {
    pub maker: usize,
    pub history: Vec<Op>,
}

/// All (maker, prefix + history) states.
pub fn build_states(makers: &[Box<dyn Maker + '_>], depth: usize) -> Vec<StateRef> {
    let mut out = Vec::new();
    for (mi, mk) in makers.iter().enumerate() {
        let info = mk.info();
        let alphabet = compact_alphabet(info);
        let hs = all_histories(&alphabet, depth);
        let starts: Vec<(usize, bool)> = if info.family == Family::Core { vec![(0, false), (1, false), (2, false)] } else { start_prefixes(info) };
        for (w, half) in starts {
            let prefix = prefix_ops(info, w, half);
            for h in &hs {
                let mut full = prefix.clone();
                full.extend(h.iter().cloned());
                out.push(StateRef { maker: mi, history: full });
            }
        }
        // block generators: every buffer index (with and without a pending half for ISAAC-64), alone and
        // followed by each single operation — first maker only
        if let (Some(b), true) = (info.block_words, mi == 0 || makers[mi - 1].info().name != info.name) {
            if info.family != Family::Core {
                let mut starts: Vec<(usize, bool)> = (0..=b + 1).map(|w| (w, false)).collect();
                if info.family == Family::Isaac64 {
                    starts.extend((0..=b).map(|w| (w, true)));
                }
                let singles = all_histories(&alphabet, depth.min(1));
                for (w, half) in starts {
                    let prefix = prefix_ops(info, w, half);
                    for h in &singles {
                        let mut full = prefix.clone();
                        full.extend(h.iter().cloned());
                        out.push(StateRef { maker: mi, history: full });
                    }
                }
            }
        }
    }
    out
}

pub fn materialise(makers: &[Box<dyn Maker + '_>], s: &StateRef) -> Box<dyn Gen> {
    rebuild(makers[s.maker].as_ref(), &s.history)
}
