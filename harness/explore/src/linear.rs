//! E3: extract the GF(2)-affine model of an operation from the implementation, replay model
//! predictions against the implementation (conformance), and helpers to turn model-level facts
//! into concrete witnesses on the real code.

use crate::ops::guarded;
use crate::subject::{Gen, GenType};
use rayon::prelude::*;
use refmodels::gf2::{BitVec, Mat};
use std::sync::Mutex;

#[derive(Clone, Copy, Debug, PartialEq, Eq)]
pub enum LinOp {
    Step,
    Jump,
    LongJump,
}

impl LinOp {
    pub fn name(self) -> &'static str {
        match self {
            LinOp::Step => "step",
            LinOp::Jump => "jump",
            LinOp::LongJump => "long_jump",
        }
    }
}

pub fn state_of(g: &dyn Gen) -> Result<BitVec, String> {
    let img = g.ser().ok_or("type is not serialisable: no state image")?;
    Ok(BitVec::from_bytes(img.len() * 8, &img))
}

/// Build a generator *in the given state*. C06/C07/C01-engine quantify over states, not seeds, so
/// the state is injected verbatim: through `from_seed` when that yields exactly this state image
/// (the ordinary case for non-zero states), else through deserialisation of the image (the all-zero
/// state, which `from_seed` remaps by design - and any state for which a seeding defect, which is
/// C01/C08's business, does not use the seed verbatim). Fails if neither route produces the state.
pub fn make_state(ty: &dyn GenType, s: &BitVec) -> Result<Box<dyn Gen>, String> {
    let bytes = s.to_bytes();
    if !s.is_zero() {
        if let Ok(g) = guarded(|| ty.from_seed(&bytes)) {
            if g.ser().as_deref() == Some(&bytes[..]) {
                return Ok(g);
            }
        }
    }
    match guarded(|| ty.de(&bytes)) {
        Ok(Some(Ok(g))) => {
            if g.ser().as_deref() == Some(&bytes[..]) {
                Ok(g)
            } else {
                Err("cannot inject the state: neither from_seed nor deserialisation reproduces the image".into())
            }
        }
        Ok(Some(Err(e))) => Err(format!("cannot deserialise the state image: {}", e)),
        Ok(None) => Err("no serde".into()),
        Err(o) => Err(format!("deserialisation panicked: {:?}", o)),
    }
}

pub fn apply_op(g: &mut Box<dyn Gen>, op: LinOp, word_bits: usize) -> Result<(), String> {
    guarded(|| match op {
        LinOp::Step => {
            if word_bits == 32 {
                g.next_u32();
            } else {
                g.next_u64();
            }
        }
        LinOp::Jump => g.jump(),
        LinOp::LongJump => g.long_jump(),
    })
    .map_err(|o| format!("{} panicked: {:?}", op.name(), o))
}

/// f(s): state after `op` from state s, observed on the implementation.
pub fn image(ty: &dyn GenType, op: LinOp, s: &BitVec) -> Result<BitVec, String> {
    let mut g = make_state(ty, s)?;
    apply_op(&mut g, op, ty.info().word_bits)?;
    state_of(g.as_ref())
}

pub struct Extracted {
    pub op: LinOp,
    /// linear part (columns = f(e_i) ^ f(0))
    pub mat: Mat,
    /// affine constant f(0), measured
    pub c: BitVec,
    /// basis executions performed
    pub executions: u64,
    /// number of basis images validated by `from_seed(image) == generator`
    pub images_validated: u64,
}

pub fn extract(ty: &dyn GenType, op: LinOp) -> Result<Extracted, String> {
    let n = ty.info().linear_bits.ok_or("not a linear generator")?;
    let c = image(ty, op, &BitVec::zero(n))?;
    let cols: Result<Vec<BitVec>, String> = (0..n)
        .into_par_iter()
        .map(|i| {
            let e = BitVec::unit(n, i);
            // validate the image mechanism on this state: the injected state reads back as itself
            let g = make_state(ty, &e)?;
            if state_of(g.as_ref())? != e {
                return Err(format!("state image of basis state {} does not read back", i));
            }
            let mut y = image(ty, op, &e)?;
            y.xor_assign(&c);
            Ok(y)
        })
        .collect();
    let col = cols?;
    Ok(Extracted { op, mat: Mat { rows: n, cols: n, col }, c, executions: n as u64 + 1, images_validated: n as u64 })
}

impl Extracted {
    pub fn predict(&self, s: &BitVec) -> BitVec {
        let mut y = self.mat.apply(s);
        y.xor_assign(&self.c);
        y
    }
}

#[derive(Clone, Debug)]
pub struct Mismatch {
    pub state: BitVec,
    pub got: Option<BitVec>,
    pub predicted: BitVec,
    pub error: Option<String>,
}

/// Replay model predictions on the implementation for `count` states produced by `f`.
/// Returns (states replayed, mismatches (capped at 8 kept, all counted)).
pub fn conform(ty: &dyn GenType, ex: &Extracted, count: usize, f: &(dyn Fn(usize) -> BitVec + Sync)) -> (u64, u64, Vec<Mismatch>) {
    let kept: Mutex<Vec<Mismatch>> = Mutex::new(Vec::new());
    let bad: u64 = (0..count)
        .into_par_iter()
        .map(|i| {
            let s = f(i);
            let p = ex.predict(&s);
            match image(ty, ex.op, &s) {
                Ok(y) if y == p => 0u64,
                Ok(y) => {
                    let mut k = kept.lock().unwrap();
                    if k.len() < 8 {
                        k.push(Mismatch { state: s, got: Some(y), predicted: p, error: None });
                    }
                    1
                }
                Err(e) => {
                    let mut k = kept.lock().unwrap();
                    if k.len() < 8 {
                        k.push(Mismatch { state: s, got: None, predicted: p, error: Some(e) });
                    }
                    1
                }
            }
        })
        .sum();
    (count as u64, bad, kept.into_inner().unwrap())
}

/// All weight-3 states, parallel over the first index. Returns (replayed, mismatching, kept).
pub fn conform_w3(ty: &dyn GenType, ex: &Extracted) -> (u64, u64, Vec<Mismatch>) {
    let n = ex.mat.cols;
    let kept: Mutex<Vec<Mismatch>> = Mutex::new(Vec::new());
    let (cnt, bad): (u64, u64) = (0..n)
        .into_par_iter()
        .map(|i| {
            let mut cnt = 0u64;
            let mut bad = 0u64;
            for j in i + 1..n {
                for k in j + 1..n {
                    let mut s = BitVec::zero(n);
                    s.set(i, true);
                    s.set(j, true);
                    s.set(k, true);
                    let mut p = ex.mat.col[i].clone();
                    p.xor_assign(&ex.mat.col[j]);
                    p.xor_assign(&ex.mat.col[k]);
                    p.xor_assign(&ex.c);
                    cnt += 1;
                    match image(ty, ex.op, &s) {
                        Ok(y) if y == p => {}
                        r => {
                            bad += 1;
                            let mut kk = kept.lock().unwrap();
                            if kk.len() < 8 {
                                let (got, error) = match r {
                                    Ok(y) => (Some(y), None),
                                    Err(e) => (None, Some(e)),
                                };
                                kk.push(Mismatch { state: s, got, predicted: p, error });
                            }
                        }
                    }
                }
            }
            (cnt, bad)
        })
        .reduce(|| (0, 0), |a, b| (a.0 + b.0, a.1 + b.1));
    (cnt, bad, kept.into_inner().unwrap())
}

/// Dense chained states: from 8 base seeds, the states visited by stepping.
pub fn chain_states(ty: &dyn GenType, seed: u64, per_base: usize) -> Vec<BitVec> {
    let n = ty.info().linear_bits.unwrap();
    let mut out = Vec::new();
    for b in 0..8u64 {
        let bytes = crate::alphabet::bg_bytes(seed, 0xC4A1 + b, n / 8);
        let mut g = ty.from_seed(&bytes);
        for _ in 0..per_base {
            if let Ok(s) = state_of(g.as_ref()) {
                out.push(s);
            }
            if ty.info().word_bits == 32 {
                g.next_u32();
            } else {
                g.next_u64();
            }
        }
    }
    out
}

pub fn bits_json(b: &BitVec) -> serde_json::Value {
    serde_json::json!(crate::evidence::hex(&b.to_bytes()))
}

/// "Special image" alphabet for a state of `n` bits in words of `w` bits: images that a guard or
/// fast path keyed on result values would single out - a zero word (each position), an all-ones
/// word, two equal words, all words equal, words whose wrapping sum is zero, a zero word with the
/// rest summing to zero, a single non-zero word. The other words are dense background values.
pub fn special_images(n: usize, w: usize, seed: u64) -> Vec<BitVec> {
    let k = n / w;
    let mask: u64 = if w == 64 { u64::MAX } else { (1u64 << w) - 1 };
    let bg = |tag: u64| -> Vec<u64> {
        let b = crate::alphabet::bg_bytes(seed, 0x5BEC + tag, 8 * k);
        (0..k).map(|i| u64::from_le_bytes(b[8 * i..8 * i + 8].try_into().unwrap()) & mask | 1).collect()
    };
    let pack = |words: &[u64]| -> BitVec {
        let mut v = BitVec::zero(n);
        for (i, &x) in words.iter().enumerate() {
            for b in 0..w {
                if (x >> b) & 1 == 1 {
                    v.set(i * w + b, true);
                }
            }
        }
        v
    };
    let fix_sum = |words: &mut Vec<u64>, free: usize| {
        // make the wrapping sum of all words zero by adjusting word `free`
        let s: u64 = words.iter().enumerate().filter(|(i, _)| *i != free).fold(0u64, |a, (_, &x)| a.wrapping_add(x)) & mask;
        words[free] = s.wrapping_neg() & mask;
    };
    let mut out = Vec::new();
    let mut tag = 0u64;
    let mut next = || {
        tag += 1;
        bg(tag)
    };
    for i in 0..k {
        let mut t = next();
        t[i] = 0;
        out.push(pack(&t));
        let mut t = next();
        t[i] = mask;
        out.push(pack(&t));
        // a single non-zero word
        let mut t = vec![0u64; k];
        t[i] = next()[i];
        out.push(pack(&t));
        // word i zero and the rest summing to zero
        if k >= 3 {
            let mut t = next();
            t[i] = 0;
            let free = (i + 1) % k;
            fix_sum(&mut t, free);
            out.push(pack(&t));
        }
        for j in i + 1..k {
            let mut t = next();
            t[j] = t[i];
            out.push(pack(&t));
            // two words zero
            let mut t = next();
            t[i] = 0;
            t[j] = 0;
            out.push(pack(&t));
        }
    }
    let t = next();
    out.push(pack(&vec![t[0]; k]));
    for free in 0..k {
        let mut t = next();
        fix_sum(&mut t, free);
        out.push(pack(&t));
        // xor of all words zero
        let mut t = next();
        let x: u64 = t.iter().enumerate().filter(|(i, _)| *i != free).fold(0u64, |a, (_, &v)| a ^ v);
        t[free] = x & mask;
        out.push(pack(&t));
    }
    out.retain(|v| !v.is_zero());
    out
}

/// States whose image under the extracted (invertible) model is one of the special images.
pub fn preimages_of_special(ex: &Extracted, w: usize, seed: u64) -> Vec<BitVec> {
    let n = ex.mat.cols;
    special_images(n, w, seed)
        .into_iter()
        .filter_map(|t| {
            let mut rhs = t.clone();
            rhs.xor_assign(&ex.c);
            ex.mat.solve(&rhs)
        })
        .collect()
}

// ------------------------------------------------------------------------------------------------
// jump polynomial and its prefixes
// ------------------------------------------------------------------------------------------------

/// Coefficients p_0..p_{n-1} with sum p_i T^i = tk (= T^(2^k)): the jump polynomial x^(2^k) mod charpoly(T),
/// obtained by solving [e, Te, T^2 e, ...] p = T^(2^k) e for a cyclic vector e (None if e is not cyclic,
/// i.e. T does not have a primitive characteristic polynomial).
pub fn jump_polynomial(t: &Mat, tk: &Mat) -> Option<BitVec> {
    let n = t.cols;
    let e = BitVec::unit(n, 0);
    let mut cols = Vec::with_capacity(n);
    let mut v = e.clone();
    for _ in 0..n {
        cols.push(v.clone());
        v = t.apply(&v);
    }
    let vm = Mat { rows: n, cols: n, col: cols };
    let rhs = tk.apply(&e);
    let p = vm.solve(&rhs)?;
    // check on a second vector
    let f = BitVec::unit(n, n / 2 + 1);
    let mut acc = BitVec::zero(n);
    let mut w = f.clone();
    for i in 0..n {
        if p.get(i) {
            acc.xor_assign(&w);
        }
        w = t.apply(&w);
    }
    if acc != tk.apply(&f) {
        return None;
    }
    Some(p)
}

/// A·T for a (sparse) T: column j of the product is the xor of the columns of A selected by column j of T.
fn mul_right_sparse(a: &Mat, t: &Mat) -> Mat {
    let n = t.cols;
    let mut out = Vec::with_capacity(n);
    for j in 0..n {
        let mut c = BitVec::zero(a.rows);
        for (wi, &word) in t.col[j].w.iter().enumerate() {
            let mut x = word;
            while x != 0 {
                let b = x.trailing_zeros() as usize;
                x &= x - 1;
                let r = wi * 64 + b;
                if r < a.cols {
                    c.xor_assign(&a.col[r]);
                }
            }
        }
        out.push(c);
    }
    Mat { rows: a.rows, cols: n, col: out }
}

/// q_m(T) = sum over i < m with p_i set of T^i (the accumulator of a jump loop after m polynomial bits).
pub fn prefix_polynomial_matrix(t: &Mat, p: &BitVec, m: usize) -> Mat {
    let n = t.cols;
    let mut a = Mat::zero(n, n);
    for i in (0..m).rev() {
        a = mul_right_sparse(&a, t);
        if p.get(i) {
            for d in 0..n {
                let cur = a.col[d].get(d);
                a.col[d].set(d, !cur);
            }
        }
    }
    a
}
