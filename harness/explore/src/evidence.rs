//! Run context: counters, samples, violations, known findings, evidence file, exit codes.

use serde_json::{json, Map, Value};
use std::collections::BTreeMap;
use std::sync::Mutex;
use std::time::Instant;

#[derive(Clone, Copy, Debug, PartialEq, Eq)]
pub enum Tier {
    Quick,
    Thorough,
}

impl Tier {
    pub fn name(self) -> &'static str {
        match self {
            Tier::Quick => "quick",
            Tier::Thorough => "thorough",
        }
    }
    pub fn pick<T>(self, quick: T, thorough: T) -> T {
        match self {
            Tier::Quick => quick,
            Tier::Thorough => thorough,
        }
    }
}

/// Output root (evidence/, replays/, known_findings.json): /verif unless VERIF_OUT is set (used only
/// while developing the harness against a scratch copy).
pub fn verif_root() -> String {
    std::env::var("VERIF_OUT").unwrap_or_else(|_| "/verif".to_string())
}

#[derive(Clone, Debug)]
pub struct Violation {
    pub key: String,
    pub what: String,
    pub replay: Value,
}

pub struct Ctx {
    pub id: String,
    pub tier: Tier,
    pub seed: u64,
    start: Instant,
    inner: Mutex<Inner>,
}

#[derive(Default)]
struct Inner {
    counters: BTreeMap<String, u64>,
    notes: BTreeMap<String, Value>,
    samples: Vec<Value>,
    violations: Vec<Violation>,
    violation_keys: BTreeMap<String, u64>,
    machinery: Vec<String>,
    assumptions: Vec<String>,
    exhaustive: Option<bool>,
    caps: Vec<String>,
}

#[derive(Clone, Debug)]
pub struct KnownFinding {
    pub property: String,
    pub key: String,
    pub status: String,
    pub what: String,
}

pub fn load_known_findings() -> Vec<KnownFinding> {
    let p = format!("{}/known_findings.json", verif_root());
    let Ok(s) = std::fs::read_to_string(&p) else { return vec![] };
    let Ok(v) = serde_json::from_str::<Value>(&s) else {
        eprintln!("machinery: cannot parse {}", p);
        std::process::exit(2);
    };
    let mut out = vec![];
    if let Some(a) = v.get("findings").and_then(|x| x.as_array()) {
        for e in a {
            out.push(KnownFinding {
                property: e.get("property").and_then(|x| x.as_str()).unwrap_or("").to_string(),
                key: e.get("key").and_then(|x| x.as_str()).unwrap_or("").to_string(),
                status: e.get("status").and_then(|x| x.as_str()).unwrap_or("").to_string(),
                what: e.get("what").and_then(|x| x.as_str()).unwrap_or("").to_string(),
            });
        }
    }
    out
}

fn key_matches(pattern: &str, key: &str) -> bool {
    if let Some(prefix) = pattern.strip_suffix('*') {
        key.starts_with(prefix)
    } else {
        pattern == key
    }
}

impl Ctx {
    pub fn new(id: &str, tier: Tier, seed: u64) -> Ctx {
        Ctx { id: id.to_string(), tier, seed, start: Instant::now(), inner: Mutex::new(Inner::default()) }
    }
    pub fn add(&self, counter: &str, n: u64) {
        let mut g = self.inner.lock().unwrap();
        *g.counters.entry(counter.to_string()).or_insert(0) += n;
    }
    pub fn set(&self, counter: &str, n: u64) {
        self.inner.lock().unwrap().counters.insert(counter.to_string(), n);
    }
    pub fn get(&self, counter: &str) -> u64 {
        *self.inner.lock().unwrap().counters.get(counter).unwrap_or(&0)
    }
    pub fn note(&self, key: &str, v: Value) {
        self.inner.lock().unwrap().notes.insert(key.to_string(), v);
    }
    pub fn sample(&self, v: Value) {
        let mut g = self.inner.lock().unwrap();
        if g.samples.len() < 24 {
            g.samples.push(v);
        }
    }
    pub fn assume(&self, s: &str) {
        let mut g = self.inner.lock().unwrap();
        if !g.assumptions.iter().any(|a| a == s) {
            g.assumptions.push(s.to_string());
        }
    }
    pub fn cap_hit(&self, s: &str) {
        let mut g = self.inner.lock().unwrap();
        g.caps.push(s.to_string());
        g.exhaustive = Some(false);
    }
    pub fn set_exhaustive(&self, b: bool) {
        let mut g = self.inner.lock().unwrap();
        if g.exhaustive != Some(false) {
            g.exhaustive = Some(b);
        }
    }
    /// Machinery failure: reported, exit 2, never a verdict.
    pub fn machinery(&self, msg: &str) {
        eprintln!("MACHINERY-FAILURE property={} {}", self.id, msg);
        self.inner.lock().unwrap().machinery.push(msg.to_string());
    }
    pub fn has_machinery_failure(&self) -> bool {
        !self.inner.lock().unwrap().machinery.is_empty()
    }
    /// Record a violation. `key` identifies the failing input/call site/history shape and is what
    /// known_findings.json entries are matched against. Only the first few per key are kept.
    pub fn violation(&self, key: &str, what: &str, replay: Value) {
        let mut g = self.inner.lock().unwrap();
        let n = g.violation_keys.entry(key.to_string()).or_insert(0);
        *n += 1;
        if *n <= 2 && g.violations.len() < 40 {
            g.violations.push(Violation { key: key.to_string(), what: what.to_string(), replay });
        }
    }
    /// (key, description) of the recorded violations (used by replayers that run a check's own step function)
    pub fn violations_list(&self) -> Vec<(String, String)> {
        self.inner.lock().unwrap().violations.iter().map(|v| (v.key.clone(), v.what.clone())).collect()
    }
    pub fn violation_count(&self) -> u64 {
        self.inner.lock().unwrap().violation_keys.values().sum()
    }
    pub fn wall_s(&self) -> f64 {
        self.start.elapsed().as_secs_f64()
    }

    /// Write evidence, print VIOLATION / KNOWN-FINDING lines, return the exit code.
    /// `states`, `transitions`, `traces` are the names of the counters to report under the
    /// model_checking keys; `evaluations` / `distinct` likewise; `rule` describes enumeration.
    pub fn finish(self, level: &str, keys: EvidenceKeys) -> i32 {
        let known = load_known_findings();
        let wall = self.wall_s();
        let g = self.inner.into_inner().unwrap();
        let mut cov = Map::new();
        let c = |k: &str| *g.counters.get(k).unwrap_or(&0);
        cov.insert("states".into(), json!(c(keys.states)));
        cov.insert("transitions".into(), json!(c(keys.transitions)));
        cov.insert("traces_validated_against_impl".into(), json!(c(keys.traces)));
        cov.insert("evaluations".into(), json!(c(keys.evaluations)));
        cov.insert("distinct_nontrivial".into(), json!(c(keys.distinct)));
        cov.insert("rule".into(), json!(keys.rule));
        cov.insert("exhaustive".into(), json!(g.exhaustive.unwrap_or(false)));
        if !g.caps.is_empty() {
            cov.insert("caps_hit".into(), json!(g.caps));
        }
        let mut samples = g.samples.clone();
        if samples.is_empty() {
            samples.push(json!("no sample recorded"));
        }
        cov.insert("samples".into(), Value::Array(samples));
        let mut counters = Map::new();
        for (k, v) in &g.counters {
            counters.insert(k.clone(), json!(v));
        }
        cov.insert("counters".into(), Value::Object(counters));
        for (k, v) in &g.notes {
            cov.insert(k.clone(), v.clone());
        }

        // classify violations
        let mut unlisted = 0u64;
        let mut lines = vec![];
        let mut known_lines: BTreeMap<String, String> = BTreeMap::new();
        let mut listed_keys = 0u64;
        let _ = std::fs::create_dir_all(format!("{}/replays", verif_root()));
        let mut idx = 0;
        for (key, count) in &g.violation_keys {
            let kf = known.iter().find(|k| k.property == self.id && k.status == "known" && key_matches(&k.key, key));
            if let Some(k) = kf {
                listed_keys += count;
                known_lines.insert(k.key.clone(), format!("KNOWN-FINDING: property={} {}", self.id, k.what));
            } else {
                unlisted += count;
            }
        }
        for v in &g.violations {
            let listed = known.iter().any(|k| k.property == self.id && k.status == "known" && key_matches(&k.key, &v.key));
            if listed {
                continue;
            }
            idx += 1;
            if idx > 10 {
                break;
            }
            let path = format!("{}/replays/{}-{}.json", verif_root(), self.id, idx);
            let body = json!({"property": self.id, "key": v.key, "what": v.what, "replay": v.replay});
            let _ = std::fs::write(&path, serde_json::to_string_pretty(&body).unwrap());
            lines.push(format!("VIOLATION property={} replay={}", self.id, path));
            eprintln!("violation[{}] key={} :: {}", idx, v.key, v.what);
        }
        let machinery = !g.machinery.is_empty();
        let ev = json!({
            "property_id": self.id,
            "tier": self.tier.name(),
            "seed": self.seed,
            "level": level,
            "coverage": Value::Object(cov),
            "assumptions": g.assumptions,
            "wall_s": wall,
            "violations": unlisted,
            "known_finding_hits": listed_keys,
            "machinery_failures": g.machinery,
        });
        let _ = std::fs::create_dir_all(format!("{}/evidence", verif_root()));
        let path = format!("{}/evidence/{}.json", verif_root(), self.id);
        if let Err(e) = std::fs::write(&path, serde_json::to_string_pretty(&ev).unwrap()) {
            eprintln!("machinery: cannot write {}: {}", path, e);
            return 2;
        }
        for l in known_lines.values() {
            println!("{}", l);
        }
        for l in &lines {
            println!("{}", l);
        }
        println!(
            "{} {}: states={} transitions={} traces={} evaluations={} distinct={} violations={} known_hits={} wall={:.1}s",
            self.id,
            self.tier.name(),
            c(keys.states),
            c(keys.transitions),
            c(keys.traces),
            c(keys.evaluations),
            c(keys.distinct),
            unlisted,
            listed_keys,
            wall
        );
        if unlisted > 0 {
            1
        } else if machinery {
            2
        } else {
            0
        }
    }
}

pub struct EvidenceKeys {
    pub states: &'static str,
    pub transitions: &'static str,
    pub traces: &'static str,
    pub evaluations: &'static str,
    pub distinct: &'static str,
    pub rule: String,
}

pub fn hex(b: &[u8]) -> String {
    b.iter().map(|x| format!("{:02x}", x)).collect()
}
pub fn unhex(s: &str) -> Vec<u8> {
    (0..s.len() / 2).map(|i| u8::from_str_radix(&s[2 * i..2 * i + 2], 16).unwrap()).collect()
}
