//! Reference-guided search for rare but reachable events in the array-based generators: stream
//! positions where the *reference model* produces a word pattern that a value-keyed shortcut,
//! "health test" or sentinel would single out (two equal successive words, a zero / all-ones word, a
//! 64-bit word with a zero half, ...). The positions are then visited on the real code by the checks
//! (lock-step through the event, history exploration started right before it, clone / == / snapshot /
//! Debug at it). The search space is stated: `n_seeds` seeds x `words_per_seed` words, enumerated
//! completely.

use rayon::prelude::*;
use refmodels::hc128::Hc128;
use refmodels::isaac::{Isaac, Isaac64};

#[derive(Clone, Copy, Debug, PartialEq, Eq)]
pub enum Kind {
    Hc128,
    Isaac,
    Isaac64,
}

#[derive(Clone, Debug)]
pub struct Event {
    pub seed: Vec<u8>,
    /// index (0-based) of the word that completes the pattern
    pub word_index: u64,
    pub what: &'static str,
    pub value: u64,
}

pub fn seed_for(vseed: u64, kind: Kind, k: u64) -> Vec<u8> {
    crate::alphabet::bg_bytes(vseed, 0xA4E0_0000 + ((kind as u64) << 32) + k, 32)
}

/// Enumerate `n_seeds` x `words_per_seed` reference words; keep at most `keep` events per pattern.
pub fn find_events(kind: Kind, vseed: u64, n_seeds: u64, words_per_seed: u64, keep: usize) -> (Vec<Event>, u64) {
    let per_seed: Vec<Vec<Event>> = (0..n_seeds)
        .into_par_iter()
        .map(|k| {
            let seed = seed_for(vseed, kind, k);
            let mut out = Vec::new();
            let mut push = |i: u64, what: &'static str, value: u64, out: &mut Vec<Event>| {
                if out.iter().filter(|e: &&Event| e.what == what).count() < 2 {
                    out.push(Event { seed: seed.clone(), word_index: i, what, value });
                }
            };
            match kind {
                Kind::Hc128 => {
                    let mut m = Hc128::from_seed_bytes(&seed);
                    let mut prev = m.next_word();
                    let mut run_low = 1u32;
                    for i in 1..words_per_seed {
                        let w = m.next_word();
                        if w == prev {
                            push(i, "two equal successive words", w as u64, &mut out);
                        }
                        if w == 0 {
                            push(i, "zero word", 0, &mut out);
                        } else if w == u32::MAX {
                            push(i, "all-ones word", w as u64, &mut out);
                        }
                        if m.last_increment == 0 {
                            push(i, "step whose table increment is zero", w as u64, &mut out);
                        }
                        if m.last_index_word >> 8 == 0 {
                            push(i, "step whose h-index word has its upper 24 bits zero", w as u64, &mut out);
                        }
                        if (w & 0xff) == (prev & 0xff) {
                            run_low += 1;
                            if run_low == 4 {
                                push(i, "four successive words with equal low bytes", w as u64, &mut out);
                            }
                        } else {
                            run_low = 1;
                        }
                        prev = w;
                    }
                }
                Kind::Isaac => {
                    let mut m = Isaac::from_seed_bytes(&seed);
                    let mut prev = m.rand();
                    for i in 1..words_per_seed {
                        let w = m.rand();
                        if w == prev {
                            push(i, "two equal successive words", w as u64, &mut out);
                        }
                        if w == 0 {
                            push(i, "zero word", 0, &mut out);
                        } else if w == u32::MAX {
                            push(i, "all-ones word", w as u64, &mut out);
                        }
                        prev = w;
                        if !m.internal.is_empty() {
                            // coincidences inside the block that word i has just caused to be generated;
                            // the whole block is handed out by word i + 255
                            for (_step, what, value) in m.internal.drain(..) {
                                push(i + 255, what, value as u64, &mut out);
                            }
                        }
                    }
                }
                Kind::Isaac64 => {
                    let mut m = Isaac64::from_seed_bytes(&seed);
                    for i in 0..words_per_seed {
                        let w = m.rand();
                        if w >> 32 == 0 {
                            push(i, "word with a zero upper half", w, &mut out);
                        }
                        if w as u32 == 0 {
                            push(i, "word with a zero lower half", w, &mut out);
                        }
                        if (w >> 32) as u32 == w as u32 {
                            push(i, "word with equal halves", w, &mut out);
                        }
                        if (w >> 32) as u32 == u32::MAX {
                            push(i, "word with an all-ones upper half", w, &mut out);
                        }
                        if !m.internal.is_empty() {
                            for (_step, what, value) in m.internal.drain(..) {
                                push(i + 255, what, value, &mut out);
                            }
                        }
                    }
                }
            }
            out
        })
        .collect();
    let mut all: Vec<Event> = Vec::new();
    for v in per_seed {
        for e in v {
            if all.iter().filter(|x| x.what == e.what).count() < keep {
                all.push(e);
            }
        }
    }
    (all, n_seeds * words_per_seed)
}

/// Events for a tier, cached on disk (they depend only on the reference model, the seed of the run and
/// the search size - not on the code under test).
pub fn events_for(kind: Kind, vseed: u64, thorough: bool) -> (Vec<Event>, u64) {
    let n_seeds: u64 = if thorough { 1 << 16 } else { 1 << 14 };
    let words_per_seed: u64 = 1 << 20;
    let dir = std::env::var("VERIF_CACHE").unwrap_or_else(|_| "/verif/harness/target".to_string());
    let path = format!("{}/rare4-{:?}-{}-{}.json", dir, kind, vseed, n_seeds);
    if let Ok(t) = std::fs::read_to_string(&path) {
        if let Ok(v) = serde_json::from_str::<serde_json::Value>(&t) {
            if let Some(a) = v.get("events").and_then(|e| e.as_array()) {
                let evs: Vec<Event> = a
                    .iter()
                    .filter_map(|e| {
                        Some(Event {
                            seed: crate::evidence::unhex(e.get("seed")?.as_str()?),
                            word_index: e.get("word_index")?.as_u64()?,
                            what: intern(e.get("what")?.as_str()?),
                            value: e.get("value")?.as_u64()?,
                        })
                    })
                    .collect();
                return (evs, n_seeds * words_per_seed);
            }
        }
    }
    let (evs, words) = find_events(kind, vseed, n_seeds, words_per_seed, 4);
    let j = serde_json::json!({"kind": format!("{:?}", kind), "words_enumerated": words, "events": evs.iter().map(|e| serde_json::json!({"seed": crate::evidence::hex(&e.seed), "word_index": e.word_index, "what": e.what, "value": e.value})).collect::<Vec<_>>()});
    let _ = std::fs::create_dir_all(&dir);
    let _ = std::fs::write(&path, serde_json::to_string(&j).unwrap());
    (evs, words)
}

fn intern(s: &str) -> &'static str {
    for k in [
        "two equal successive words",
        "zero word",
        "all-ones word",
        "four successive words with equal low bytes",
        "step whose table increment is zero",
        "step whose h-index word has its upper 24 bits zero",
        "word with a zero upper half",
        "word with a zero lower half",
        "word with equal halves",
        "word with an all-ones upper half",
        "step whose second looked-up word equals the old word of the slot being rewritten, in another slot",
        "step whose first looked-up word equals the old word of the slot being rewritten, in another slot",
        "step that rewrites its slot with the same word",
        "step whose two looked-up words are equal in different slots",
        "step with a zero looked-up word",
        "step with a zero accumulator or a zero new table word",
        "step whose second looked-up word shares a 32-bit half with the old word of the slot being rewritten, in another slot",
        "step whose first looked-up word shares a 32-bit half with the old word of the slot being rewritten, in another slot",
        "step that rewrites its slot with a word sharing a 32-bit half with the old one",
        "step with a looked-up word that has a zero 32-bit half",
    ] {
        if k == s {
            return k;
        }
    }
    "event"
}

pub fn describe(e: &Event) -> serde_json::Value {
    serde_json::json!({"seed": crate::evidence::hex(&e.seed), "word_index": e.word_index, "event": e.what, "value": format!("{:#x}", e.value)})
}
