//! Operation alphabet, observations, and guarded application of an operation to a generator.

use crate::subject::{Gen, Horizon, TimerResult};
use serde_json::{json, Value};
use std::panic::{catch_unwind, AssertUnwindSafe};

#[derive(Clone, Debug, PartialEq, Eq, Hash, PartialOrd, Ord)]
pub enum Op {
    U32,
    U64,
    Fill(usize),
    /// fill_bytes(n) into a destination that starts `off` bytes after an 8-byte boundary
    FillAt(usize, usize),
    Jump,
    LongJump,
    /// jitter
    TimerStats(bool),
    SetRounds(u8),
    TestTimer,
}

impl Op {
    /// the operation as the stream bookkeeping sees it (alignment of the destination is not part of it)
    pub fn norm(&self) -> Op {
        match self {
            Op::FillAt(n, _) => Op::Fill(*n),
            o => o.clone(),
        }
    }
    pub fn to_json(&self) -> Value {
        match self {
            Op::U32 => json!("next_u32"),
            Op::U64 => json!("next_u64"),
            Op::Fill(n) => json!({"fill_bytes": n}),
            Op::FillAt(n, off) => json!({"fill_bytes": n, "misalign": off}),
            Op::Jump => json!("jump"),
            Op::LongJump => json!("long_jump"),
            Op::TimerStats(v) => json!({"timer_stats": v}),
            Op::SetRounds(r) => json!({"set_rounds": r}),
            Op::TestTimer => json!("test_timer"),
        }
    }
    pub fn from_json(v: &Value) -> Option<Op> {
        if let Some(s) = v.as_str() {
            return match s {
                "next_u32" => Some(Op::U32),
                "next_u64" => Some(Op::U64),
                "jump" => Some(Op::Jump),
                "long_jump" => Some(Op::LongJump),
                "test_timer" => Some(Op::TestTimer),
                _ => None,
            };
        }
        let o = v.as_object()?;
        if let Some(n) = o.get("fill_bytes") {
            if let Some(off) = o.get("misalign") {
                return Some(Op::FillAt(n.as_u64()? as usize, off.as_u64()? as usize));
            }
            return Some(Op::Fill(n.as_u64()? as usize));
        }
        if let Some(n) = o.get("timer_stats") {
            return Some(Op::TimerStats(n.as_bool()?));
        }
        if let Some(n) = o.get("set_rounds") {
            return Some(Op::SetRounds(n.as_u64()? as u8));
        }
        None
    }
    /// inverse of `short` for the output operations
    pub fn from_short(t: &str) -> Option<Op> {
        match t {
            "u32" => return Some(Op::U32),
            "u64" => return Some(Op::U64),
            "jump" => return Some(Op::Jump),
            "ljump" => return Some(Op::LongJump),
            "test_timer" => return Some(Op::TestTimer),
            _ => {}
        }
        if let Some(rest) = t.strip_prefix("fill") {
            if let Some((n, off)) = rest.split_once('@') {
                return Some(Op::FillAt(n.parse().ok()?, off.parse().ok()?));
            }
            return Some(Op::Fill(rest.parse().ok()?));
        }
        if let Some(r) = t.strip_prefix("rounds") {
            return Some(Op::SetRounds(r.parse().ok()?));
        }
        if let Some(r) = t.strip_prefix("stats") {
            return Some(Op::TimerStats(r == "1"));
        }
        None
    }
    pub fn short(&self) -> String {
        match self {
            Op::U32 => "u32".into(),
            Op::U64 => "u64".into(),
            Op::Fill(n) => format!("fill{}", n),
            Op::FillAt(n, off) => format!("fill{}@{}", n, off),
            Op::Jump => "jump".into(),
            Op::LongJump => "ljump".into(),
            Op::TimerStats(v) => format!("stats{}", *v as u8),
            Op::SetRounds(r) => format!("rounds{}", r),
            Op::TestTimer => "test_timer".into(),
        }
    }
}

pub fn ops_json(ops: &[Op]) -> Value {
    Value::Array(ops.iter().map(|o| o.to_json()).collect())
}
pub fn ops_short(ops: &[Op]) -> String {
    // run-length compressed: "255*u64,u32"
    let mut parts: Vec<String> = Vec::new();
    let mut i = 0;
    while i < ops.len() {
        let mut j = i;
        while j < ops.len() && ops[j] == ops[i] {
            j += 1;
        }
        if j - i > 2 {
            parts.push(format!("{}*{}", j - i, ops[i].short()));
        } else {
            for _ in i..j {
                parts.push(ops[i].short());
            }
        }
        i = j;
    }
    parts.join(",")
}

#[derive(Clone, Debug, PartialEq, Eq, Hash)]
pub enum Obs {
    U32(u32),
    U64(u64),
    Bytes(Vec<u8>),
    Unit,
    I64(i64),
    Timer(TimerResult),
    /// the subject panicked (message)
    Panic(String),
    /// the scripted timer ran out: the call did not return within the horizon
    Horizon,
}

impl std::hash::Hash for TimerResult {
    fn hash<H: std::hash::Hasher>(&self, state: &mut H) {
        format!("{:?}", self).hash(state)
    }
}

impl Obs {
    pub fn to_json(&self) -> Value {
        match self {
            Obs::U32(v) => json!(format!("u32:{:#010x}", v)),
            Obs::U64(v) => json!(format!("u64:{:#018x}", v)),
            Obs::Bytes(b) => json!(format!("bytes:{}", crate::evidence::hex(b))),
            Obs::Unit => json!("()"),
            Obs::I64(v) => json!(format!("i64:{}", v)),
            Obs::Timer(t) => json!(format!("{:?}", t)),
            Obs::Panic(m) => json!(format!("PANIC:{}", m)),
            Obs::Horizon => json!("DID-NOT-RETURN"),
        }
    }
    pub fn is_panic(&self) -> bool {
        matches!(self, Obs::Panic(_))
    }
}

/// Install a panic hook that stays quiet for panics raised inside guarded subject calls.
pub fn install_quiet_panic_hook() {
    let default = std::panic::take_hook();
    std::panic::set_hook(Box::new(move |info| {
        if GUARD.with(|g| g.get()) > 0 {
            return;
        }
        default(info);
    }));
}

thread_local! {
    static GUARD: std::cell::Cell<u32> = const { std::cell::Cell::new(0) };
}

/// Run `f` under catch_unwind; map a panic to Obs::Panic / Obs::Horizon.
pub fn guarded<T>(f: impl FnOnce() -> T) -> Result<T, Obs> {
    GUARD.with(|g| g.set(g.get() + 1));
    let r = catch_unwind(AssertUnwindSafe(f));
    GUARD.with(|g| g.set(g.get() - 1));
    match r {
        Ok(v) => Ok(v),
        Err(p) => {
            if p.downcast_ref::<Horizon>().is_some() {
                Err(Obs::Horizon)
            } else if let Some(s) = p.downcast_ref::<&str>() {
                Err(Obs::Panic(s.to_string()))
            } else if let Some(s) = p.downcast_ref::<String>() {
                Err(Obs::Panic(s.clone()))
            } else {
                Err(Obs::Panic("<non-string panic payload>".into()))
            }
        }
    }
}

/// Apply one operation; a subject panic becomes an observation.
pub fn apply(g: &mut Box<dyn Gen>, op: &Op) -> Obs {
    let r = guarded(|| match op {
        Op::U32 => Obs::U32(g.next_u32()),
        Op::U64 => Obs::U64(g.next_u64()),
        Op::Fill(n) => {
            let mut b = vec![0xEEu8; *n];
            g.fill_bytes(&mut b);
            Obs::Bytes(b)
        }
        Op::FillAt(n, off) => {
            // an 8-byte aligned backing store; the destination starts `off` bytes into it
            let mut backing = vec![0xEEEE_EEEE_EEEE_EEEEu64; (*n + *off) / 8 + 2];
            let bytes: &mut [u8] = unsafe { std::slice::from_raw_parts_mut(backing.as_mut_ptr() as *mut u8, backing.len() * 8) };
            g.fill_bytes(&mut bytes[*off..*off + *n]);
            let out = bytes[*off..*off + *n].to_vec();
            // nothing outside the destination may be written
            if bytes[..*off].iter().any(|&b| b != 0xEE) || bytes[*off + *n..].iter().any(|&b| b != 0xEE) {
                panic!("fill_bytes wrote outside its destination");
            }
            Obs::Bytes(out)
        }
        Op::Jump => {
            g.jump();
            Obs::Unit
        }
        Op::LongJump => {
            g.long_jump();
            Obs::Unit
        }
        Op::TimerStats(v) => Obs::I64(g.jitter().expect("jitter op on non-jitter").timer_stats(*v)),
        Op::SetRounds(r) => {
            g.jitter().expect("jitter op on non-jitter").set_rounds(*r);
            Obs::Unit
        }
        Op::TestTimer => Obs::Timer(g.jitter().expect("jitter op on non-jitter").test_timer()),
    });
    match r {
        Ok(o) => o,
        Err(o) => o,
    }
}

/// Replay a history on a generator, returning all observations.
pub fn run_history(g: &mut Box<dyn Gen>, ops: &[Op]) -> Vec<Obs> {
    ops.iter().map(|o| apply(g, o)).collect()
}

/// Fingerprint: the next `k` native-width outputs of a clone-free replay target (consumes `g`).
pub fn fingerprint(g: &mut Box<dyn Gen>, word_bits: usize, k: usize) -> Vec<u64> {
    (0..k)
        .map(|_| match if word_bits == 32 { apply(g, &Op::U32) } else { apply(g, &Op::U64) } {
            Obs::U32(v) => v as u64,
            Obs::U64(v) => v,
            Obs::Panic(_) => 0xDEAD_DEAD_DEAD_DEAD,
            _ => 0xDEAD_0000_0000_0000,
        })
        .collect()
}
