//! The seam between the engines/checks (this crate, never rebuilt by an edit under /repo) and the
//! generator types of the crates under test (implemented in the thin `subjects` crate).

use rand_core::{RngCore, TryRngCore};
use std::any::Any;
use std::sync::atomic::{AtomicUsize, Ordering};
use std::sync::Arc;

#[derive(Clone, Copy, Debug, PartialEq, Eq, Hash)]
pub enum Family {
    /// rand_xoshiro (including SplitMix64): `fill_bytes_via_next`
    Xoshiro,
    XorShift,
    /// BlockRng over u32 items, 16-word blocks
    Hc128,
    /// BlockRng over u32 items, 256-word blocks
    Isaac,
    /// BlockRng64 over u64 items, 256-word blocks
    Isaac64,
    Jitter,
    /// a bare BlockRngCore driven through an adapter (C10 / C17 only)
    Core,
}

#[derive(Clone, Debug)]
pub struct TypeInfo {
    pub name: &'static str,
    pub krate: &'static str,
    pub family: Family,
    pub seed_len: usize,
    /// native output width in bits
    pub word_bits: usize,
    /// Some(n) for the 15 GF(2)-linear generators (14 of rand_xoshiro + XorShiftRng)
    pub linear_bits: Option<usize>,
    pub has_jump: bool,
    pub has_eq: bool,
    pub has_serde: bool,
    /// words per block for buffered generators
    pub block_words: Option<usize>,
    /// how next_u32 projects a 64-bit native word: 'h' upper half, 'l' lower half, 'm' own mix,
    /// 'b' both halves in turn (low then high); '-' for 32-bit generators
    pub u32_proj: char,
    /// Debug promises to hide state (C17)
    pub hides_state: bool,
}

/// One generator instance, type-erased.
pub trait Gen: Send {
    fn next_u32(&mut self) -> u32;
    fn next_u64(&mut self) -> u64;
    fn fill_bytes(&mut self, dest: &mut [u8]);
    fn jump(&mut self);
    fn long_jump(&mut self);
    fn clone_box(&self) -> Box<dyn Gen>;
    /// A duplicate made by plain copy (`let d = *g;`) if - and only if - the generator type is `Copy`
    fn bitwise_copy_box(&self) -> Option<Box<dyn Gen>> {
        None
    }
    /// `Clone::clone_from`: overwrite `self` with a clone of `src` (same concrete type)
    fn clone_from_dyn(&mut self, src: &dyn Gen);
    /// None when the type has no PartialEq
    fn eq_dyn(&self, other: &dyn Gen) -> Option<bool>;
    fn debug(&self, alternate: bool) -> String;
    /// bincode image (None when the type is not serialisable)
    fn ser(&self) -> Option<Vec<u8>>;
    /// the same snapshot in a human-readable, self-describing format (serde_json)
    fn ser_json(&self) -> Option<Vec<u8>> {
        None
    }
    /// `Deserialize::deserialize_in_place` of a bincode snapshot into this generator
    fn de_in_place(&mut self, _bytes: &[u8]) -> Option<Result<(), String>> {
        None
    }
    fn as_any(&self) -> &dyn Any;
    /// JitterRng-only operations
    fn jitter(&mut self) -> Option<&mut dyn JitterOps> {
        None
    }
}

#[derive(Clone, Debug, PartialEq, Eq)]
pub enum TimerResult {
    Ok(u8),
    NoTimer,
    CoarseTimer,
    NotMonotonic,
    TinyVariations,
    TooManyStuck,
    Other(String),
}

pub trait JitterOps {
    fn timer_stats(&mut self, var_rounds: bool) -> i64;
    fn set_rounds(&mut self, rounds: u8);
    fn test_timer(&mut self) -> TimerResult;
    fn pool(&self) -> u64;
    fn set_pool(&mut self, v: u64);
    fn stir(&mut self);
    fn half_pending(&self) -> bool;
    /// readings consumed so far from this generator's own timer cursor
    fn timer_consumed(&self) -> usize;
    /// Display text of the error returned by the last test_timer call (None if it returned Ok)
    fn last_timer_error_display(&self) -> Option<String> {
        None
    }
}

/// A generator type.
pub trait GenType: Sync + Send {
    fn info(&self) -> &TypeInfo;
    fn from_seed(&self, seed: &[u8]) -> Box<dyn Gen>;
    fn seed_from_u64(&self, x: u64) -> Box<dyn Gen>;
    fn from_rng(&self, src: &mut ScriptSource) -> Box<dyn Gen>;
    fn try_from_rng(&self, src: &mut FallibleSource) -> Result<Box<dyn Gen>, SourceError>;
    /// reseed a generator from its own output (`G::from_rng(&mut g)`): dense CHAIN seeds
    fn from_rng_of(&self, parent: &mut dyn Gen) -> Box<dyn Gen>;
    /// bincode deserialisation; None when not serialisable
    fn de(&self, bytes: &[u8]) -> Option<Result<Box<dyn Gen>, String>>;
    fn de_json(&self, _bytes: &[u8]) -> Option<Result<Box<dyn Gen>, String>> {
        None
    }
    /// `Default::default()` if - and only if - the generator type implements `Default`
    fn default_ctor(&self) -> Option<Box<dyn Gen>> {
        None
    }
    /// two snapshots read one after the other from one byte stream
    fn de_two(&self, _bytes: &[u8]) -> Option<Result<(Box<dyn Gen>, Box<dyn Gen>), String>> {
        None
    }
    /// Monomorphised exhaustive sweeps (2^k elements); returns the number of elements enumerated
    /// and the first counterexample, if any.
    fn sweep(&self, job: &SweepJob) -> SweepResult;
}

/// Exhaustive sub-cube sweeps run inside the `subjects` crate (monomorphised hot loops).
#[derive(Clone, Debug)]
pub enum SweepJob {
    /// For every assignment v of the `lanes` (bit offset within the seed read as one little-endian
    /// bit string, width; widths sum to `bits` <= 32) on top of `background` (seed bytes):
    /// `from_seed(seed)`, one native step (or `next_u32` when `use_u32`), compared with the
    /// reference output and — `check_state` — the successor state via
    /// `g == from_seed(reference successor)`.
    StepCube { background: Vec<u8>, lanes: Vec<(usize, usize)>, use_u32: bool, check_state: bool },
    /// For every x = base with the 32-bit lane at `shift` replaced by v (v < 2^bits):
    /// `seed_from_u64(x)` equals `from_seed(reference expansion of x)` and is not the zero state.
    /// `check_expansion` = false restricts the check to "not the all-zero state" (C08).
    U64Cube { base: u64, shift: u32, bits: u32, check_expansion: bool },
}

#[derive(Clone, Debug, Default)]
pub struct SweepResult {
    pub elements: u64,
    pub failure: Option<String>,
    /// the input that failed (seed bytes or u64 LE)
    pub failing_input: Option<Vec<u8>>,
}

pub trait Registry: Sync + Send {
    /// the 20 seedable generator types
    fn types(&self) -> Vec<&'static dyn GenType>;
    fn get(&self, name: &str) -> Option<&'static dyn GenType> {
        self.types().into_iter().find(|t| t.info().name == name)
    }
    /// bare cores behind an adapter: Hc128Core, IsaacCore, Isaac64Core
    fn core_types(&self) -> Vec<&'static dyn GenType>;
    /// the block cores of alignment 4 again, placed at an address that is 4 mod 8
    fn core_types_placed_at_4(&self) -> Vec<&'static dyn GenType> {
        Vec::new()
    }
    /// JitterRng::new_with_timer over a scripted timer
    fn jitter(&self, script: Arc<TimerScript>) -> Box<dyn Gen>;
    /// like `jitter`, but `clone()` of the generator gets an independent cursor over the same
    /// readings (an identical scripted timer) instead of sharing the call counter
    fn jitter_forking(&self, script: Arc<TimerScript>) -> Box<dyn Gen>;
    /// A JitterRng whose timer is a zero-sized `fn` item (one distinct item type per slot, 3 slots)
    /// reading from a process-wide script slot.
    fn jitter_zst(&self, slot: usize, script: Arc<TimerScript>) -> Box<dyn Gen>;
    fn jitter_info(&self) -> &TypeInfo;
    /// IsaacArray<u32>/<u64> PartialEq probe: returns (pairs compared, first failure)
    fn isaac_array_probe(&self) -> (u64, Option<String>);
    /// number of `==` evaluations so far in which `!=` was not its negation
    fn eq_ne_inconsistencies(&self) -> u64;
    /// number of `==` / `!=` evaluations so far that panicked inside the crate
    fn eq_panics(&self) -> u64;
    /// (format calls made, first panic) of Debug-formatting the public seed wrapper type with many flag combinations
    fn seed_type_format_probe(&self) -> (u64, Option<String>);
    /// static inventory of possible hidden-state constructs per crate (informational)
    fn source_inventory(&self) -> Vec<(String, String, usize)>;
}

// ------------------------------------------------------------------------------------------------
// Scripted timer for JitterRng
// ------------------------------------------------------------------------------------------------

/// Private panic payload: the script ran out (the call "did not return" within the horizon).
#[derive(Debug)]
pub struct Horizon;

pub struct TimerScript {
    pub readings: Arc<Vec<u64>>,
    pub pos: AtomicUsize,
    /// user code that runs *inside* the timer read with the given index (a scheduling point inside one
    /// operation): each entry fires once
    pub hooks: std::sync::Mutex<Vec<(usize, Box<dyn FnOnce() + Send>)>>,
    pub has_hooks: std::sync::atomic::AtomicBool,
}

impl TimerScript {
    pub fn new(readings: Vec<u64>) -> Arc<TimerScript> {
        Arc::new(TimerScript { readings: Arc::new(readings), pos: AtomicUsize::new(0), hooks: std::sync::Mutex::new(Vec::new()), has_hooks: std::sync::atomic::AtomicBool::new(false) })
    }
    /// An independent cursor over the same readings, starting at this cursor's position.
    pub fn fork(&self) -> Arc<TimerScript> {
        Arc::new(TimerScript { readings: self.readings.clone(), pos: AtomicUsize::new(self.consumed()), hooks: std::sync::Mutex::new(Vec::new()), has_hooks: std::sync::atomic::AtomicBool::new(false) })
    }
    /// Run `f` inside the timer read number `index` (0-based).
    pub fn hook_at(&self, index: usize, f: Box<dyn FnOnce() + Send>) {
        self.hooks.lock().unwrap().push((index, f));
        self.has_hooks.store(true, Ordering::Relaxed);
    }
    pub fn read(&self) -> u64 {
        let i = self.pos.fetch_add(1, Ordering::Relaxed);
        if i >= self.readings.len() {
            // keep pos at len so that `consumed` stays meaningful
            self.pos.store(self.readings.len(), Ordering::Relaxed);
            std::panic::panic_any(Horizon);
        }
        if self.has_hooks.load(Ordering::Relaxed) {
            let f = {
                let mut h = self.hooks.lock().unwrap();
                h.iter().position(|(k, _)| *k == i).map(|p| h.remove(p).1)
            };
            if let Some(f) = f {
                f();
            }
        }
        self.readings[i]
    }
    pub fn consumed(&self) -> usize {
        self.pos.load(Ordering::Relaxed)
    }
}

// ------------------------------------------------------------------------------------------------
// Scripted seeding sources
// ------------------------------------------------------------------------------------------------

/// An infallible source RNG that delivers a byte script and records how it was asked.
/// After the script it continues with a deterministic filler (0xA5 ^ index) so that a constructor
/// that reads too much is observable rather than panicking.
pub struct ScriptSource {
    pub script: Vec<u8>,
    pub pos: usize,
    pub calls: Vec<(char, usize)>,
}

impl ScriptSource {
    pub fn new(script: Vec<u8>) -> ScriptSource {
        ScriptSource { script, pos: 0, calls: Vec::new() }
    }
    fn byte(&mut self) -> u8 {
        let i = self.pos;
        self.pos += 1;
        if i < self.script.len() {
            self.script[i]
        } else {
            0xA5 ^ (i as u8)
        }
    }
    pub fn delivered(&self) -> Vec<u8> {
        let mut s = ScriptSource { script: self.script.clone(), pos: 0, calls: vec![] };
        (0..self.pos).map(|_| s.byte()).collect()
    }
}

impl RngCore for ScriptSource {
    fn next_u32(&mut self) -> u32 {
        self.calls.push(('w', 4));
        let b = [self.byte(), self.byte(), self.byte(), self.byte()];
        u32::from_le_bytes(b)
    }
    fn next_u64(&mut self) -> u64 {
        self.calls.push(('d', 8));
        let mut b = [0u8; 8];
        for x in b.iter_mut() {
            *x = self.byte();
        }
        u64::from_le_bytes(b)
    }
    fn fill_bytes(&mut self, dest: &mut [u8]) {
        self.calls.push(('f', dest.len()));
        for x in dest.iter_mut() {
            *x = self.byte();
        }
    }
}

#[derive(Clone, Debug, PartialEq, Eq)]
pub struct SourceError(pub u32);

impl std::fmt::Display for SourceError {
    fn fmt(&self, f: &mut std::fmt::Formatter) -> std::fmt::Result {
        write!(f, "SourceError({})", self.0)
    }
}
impl std::error::Error for SourceError {}

#[derive(Clone, Copy, Debug, PartialEq, Eq)]
pub enum FaultMode {
    /// fail without touching the destination
    Untouched,
    /// write half of the destination, then fail
    Partial,
    /// write the whole destination (script bytes are consumed), then fail
    Full,
}

/// A fallible source (TryRngCore only): call number `fail_at` (0-based) fails in `mode`, returning
/// `SourceError(code)`; all other calls deliver script bytes like `ScriptSource`.
pub struct FallibleSource {
    pub inner: ScriptSource,
    pub fail_at: Option<usize>,
    pub mode: FaultMode,
    pub code: u32,
    pub ncalls: usize,
}

impl FallibleSource {
    pub fn new(script: Vec<u8>, fail_at: Option<usize>, mode: FaultMode, code: u32) -> FallibleSource {
        FallibleSource { inner: ScriptSource::new(script), fail_at, mode, code, ncalls: 0 }
    }
    fn gate(&mut self, dest: &mut [u8]) -> Result<(), SourceError> {
        let n = self.ncalls;
        self.ncalls += 1;
        if Some(n) == self.fail_at {
            match self.mode {
                FaultMode::Untouched => {}
                FaultMode::Partial => {
                    let h = dest.len() / 2;
                    self.inner.fill_bytes(&mut dest[..h]);
                }
                FaultMode::Full => self.inner.fill_bytes(dest),
            }
            return Err(SourceError(self.code));
        }
        self.inner.fill_bytes(dest);
        Ok(())
    }
}

impl TryRngCore for FallibleSource {
    type Error = SourceError;
    fn try_next_u32(&mut self) -> Result<u32, SourceError> {
        let mut b = [0u8; 4];
        self.gate(&mut b)?;
        Ok(u32::from_le_bytes(b))
    }
    fn try_next_u64(&mut self) -> Result<u64, SourceError> {
        let mut b = [0u8; 8];
        self.gate(&mut b)?;
        Ok(u64::from_le_bytes(b))
    }
    fn try_fill_bytes(&mut self, dest: &mut [u8]) -> Result<(), SourceError> {
        self.gate(dest)
    }
}
