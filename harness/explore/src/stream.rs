//! Bookkeeping model for C05/C10/C11/C16/C17: which native words of the one forward-only stream
//! each call consumes, and the little-endian projection it returns. The words themselves always
//! come from an implementation twin driven with native-width calls only (`native[p]`).

use crate::ops::{Obs, Op};
use crate::subject::{Family, TypeInfo};

#[derive(Clone, Copy, Debug, PartialEq, Eq, Hash, PartialOrd, Ord)]
pub struct Pos {
    /// native words consumed so far
    pub words: u64,
    /// the upper half of word `words-1` is pending for the next next_u32 (Isaac64Rng, JitterRng)
    pub half: bool,
}

impl Pos {
    pub fn start() -> Pos {
        Pos { words: 0, half: false }
    }
}

/// How a 64-bit native word is projected by next_u32 for the non-buffered 64-bit generators.
fn project_u32(info: &TypeInfo, w: u64, own_mix: Option<u32>) -> u32 {
    match info.u32_proj {
        'h' => (w >> 32) as u32,
        'l' => w as u32,
        'm' => own_mix.expect("SplitMix64 needs the twin's next_u32"),
        _ => panic!("no u32 projection for {}", info.name),
    }
}

pub struct Stream<'a> {
    pub info: &'a TypeInfo,
    /// native words of the twin, from position 0
    pub native: &'a [u64],
    /// for u32_proj == 'm': next_u32 of a twin that made p native calls before (index p)
    pub own_u32: Option<&'a [u32]>,
}

impl<'a> Stream<'a> {
    pub fn max_words(&self) -> u64 {
        self.native.len() as u64
    }
    fn w(&self, p: u64) -> u64 {
        self.native[p as usize]
    }
    fn u64_from(&self, p: u64) -> (u64, u64) {
        // returns (value, words consumed)
        if self.info.word_bits == 32 {
            ((self.w(p + 1) << 32) | self.w(p), 2)
        } else {
            (self.w(p), 1)
        }
    }

    /// Words needed (upper bound) to evaluate `op` at `pos`.
    pub fn words_needed(&self, op: &Op) -> u64 {
        let op = &op.norm();
        match op {
            Op::U32 => 1,
            Op::U64 => {
                if self.info.word_bits == 32 {
                    2
                } else {
                    1
                }
            }
            Op::Fill(n) => {
                let wb = (self.info.word_bits / 8) as u64;
                match self.info.family {
                    Family::Hc128 | Family::Isaac | Family::Isaac64 => (*n as u64 + wb - 1) / wb,
                    _ => ((*n as u64 + 7) / 8) * (8 / wb),
                }
            }
            _ => 0,
        }
    }

    /// All acceptable (observation, successor position) pairs for `op` at `pos` under C05's
    /// statement. More than one alternative only in the corner the statement leaves open
    /// (JitterRng fill_bytes(1..=4) with a half pending).
    pub fn expect(&self, pos: Pos, op: &Op) -> Vec<(Obs, Pos)> {
        let op = &op.norm();
        let p = pos.words;
        let fam = self.info.family;
        match op {
            Op::U32 => match fam {
                Family::Isaac64 | Family::Jitter => {
                    if pos.half {
                        vec![(Obs::U32((self.w(p - 1) >> 32) as u32), Pos { words: p, half: false })]
                    } else {
                        vec![(Obs::U32(self.w(p) as u32), Pos { words: p + 1, half: true })]
                    }
                }
                _ => {
                    if self.info.word_bits == 32 {
                        vec![(Obs::U32(self.w(p) as u32), Pos { words: p + 1, half: false })]
                    } else {
                        let own = self.own_u32.map(|o| o[p as usize]);
                        vec![(Obs::U32(project_u32(self.info, self.w(p), own)), Pos { words: p + 1, half: false })]
                    }
                }
            },
            Op::U64 => {
                let (v, c) = self.u64_from(p);
                vec![(Obs::U64(v), Pos { words: p + c, half: false })]
            }
            Op::Fill(n) => {
                let n = *n;
                match fam {
                    Family::Hc128 | Family::Isaac | Family::Isaac64 => {
                        let wb = self.info.word_bits / 8;
                        let nw = (n + wb - 1) / wb;
                        let mut bytes = Vec::with_capacity(nw * wb);
                        for i in 0..nw as u64 {
                            let w = self.w(p + i);
                            bytes.extend_from_slice(&w.to_le_bytes()[..wb]);
                        }
                        bytes.truncate(n);
                        vec![(Obs::Bytes(bytes), Pos { words: p + nw as u64, half: false })]
                    }
                    _ => {
                        // fill_bytes_via_next: n/8 next_u64, then one next_u64 (tail 5..7) or one
                        // next_u32 (tail 1..4)
                        let mut bytes = Vec::with_capacity(n);
                        let mut q = p;
                        let mut half = pos.half;
                        for _ in 0..n / 8 {
                            let (v, c) = self.u64_from(q);
                            bytes.extend_from_slice(&v.to_le_bytes());
                            q += c;
                            half = false;
                        }
                        let tail = n % 8;
                        if tail > 4 {
                            let (v, c) = self.u64_from(q);
                            bytes.extend_from_slice(&v.to_le_bytes()[..tail]);
                            q += c;
                            vec![(Obs::Bytes(bytes), Pos { words: q, half: false })]
                        } else if tail > 0 {
                            // one next_u32
                            let here = Pos { words: q, half };
                            let alts = self.expect(here, &Op::U32);
                            let mut out = Vec::new();
                            for (o, np) in alts {
                                if let Obs::U32(v) = o {
                                    let mut b = bytes.clone();
                                    b.extend_from_slice(&v.to_le_bytes()[..tail]);
                                    out.push((Obs::Bytes(b), np));
                                }
                            }
                            if fam == Family::Jitter && half {
                                // the corner C05 leaves open (C16 pins it): a fresh word instead
                                // of the pending half
                                let v = self.w(q) as u32;
                                let mut b = bytes.clone();
                                b.extend_from_slice(&v.to_le_bytes()[..tail]);
                                out.push((Obs::Bytes(b), Pos { words: q + 1, half: true }));
                            }
                            out
                        } else {
                            // n multiple of 8 (incl. 0): JitterRng fill_bytes(0) makes no call at all
                            let half_after = if n == 0 && fam == Family::Jitter { pos.half } else { half };
                            vec![(Obs::Bytes(bytes), Pos { words: q, half: half_after })]
                        }
                    }
                }
            }
            _ => vec![],
        }
    }
}
