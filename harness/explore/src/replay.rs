//! Re-execute one recorded violation on the real code, without the explorer.
//! `./check <ID> --replay <file>`: exit 1 if the recorded disagreement reproduces, 0 if not.

use crate::checks::c12;
use crate::evidence::unhex;
use crate::ops::{apply, Obs, Op};
use crate::subject::{Gen, GenType, Registry, TimerScript};
use serde_json::Value;

pub fn replay_file(reg: &dyn Registry, id: &str, path: &str) -> i32 {
    let Ok(s) = std::fs::read_to_string(path) else {
        eprintln!("cannot read {}", path);
        return 2;
    };
    let Ok(v) = serde_json::from_str::<Value>(&s) else {
        println!("{}", s);
        return 0;
    };
    println!("replaying {} for {}:\n  {}", path, id, v.get("what").and_then(|x| x.as_str()).unwrap_or(""));
    let r = &v["replay"];
    match r.get("kind").and_then(|k| k.as_str()) {
        Some("lockstep") => crate::checks::replay_lockstep(reg, r),
        Some("history") => replay_history(reg, r),
        Some("stream") | Some("stream-u64") => replay_stream(reg, r),
        Some("snapshot") => replay_snapshot(reg, r),
        Some("clone") => replay_clone(reg, r),
        Some("eq-pair") => replay_eq_pair(reg, r),
        Some("debug") | Some("debug-pair") => replay_debug(reg, r),
        Some("jitter") => replay_jitter(reg, r),
        Some("schedule") => replay_schedule(reg, r),
        Some("jump-witness") | Some("collision") => replay_state_ops(reg, r),
        Some(k @ ("commute" | "commute-loose")) => {
            let Some(ty) = find_type(reg, r) else { return 2 };
            let b = unhex(r["state"].as_str().unwrap_or(""));
            let s = refmodels::gf2::BitVec::from_bytes(b.len() * 8, &b);
            let res = crate::ops::guarded(|| crate::checks::c06::commute_check_with(ty, &s, k == "commute-loose")).unwrap_or_else(|o| Err(format!("{:?}", o)));
            println!("  jump/step, long_jump/step, jump/long_jump in both orders from {}: {:?}", r["state"], res);
            finish(if k == "commute-loose" { matches!(&res, Err(e) if e.contains("do not commute")) } else { res.is_err() })
        }
        Some("ctor") => replay_ctor(reg, r),
        Some("jitter-test-timer") => replay_test_timer(reg, r),
        Some("overlap") => {
            let o = crate::checks::c19::overlap_run(reg, r["seed"].as_u64().unwrap_or(0), r["a_variant"].as_u64().unwrap_or(0) as usize, r["b_variant"].as_u64().unwrap_or(0) as usize, r["timer_read"].as_u64().unwrap_or(0) as usize, r["other_thread"].as_bool().unwrap_or(false));
            println!("  instance A: overlapped {:?}\n              one after the other {:?}", o.got_a, o.want_a);
            println!("  instance B ({}): overlapped {:?}\n              one after the other {:?}", o.b_desc, o.got_b, o.want_b);
            finish(!o.got_b.is_empty() && (o.got_a != o.want_a || o.got_b != o.want_b))
        }
        Some("jitter-c16") => crate::checks::c16::replay(reg, r),
        Some("clone-from") => replay_clone_from(reg, r),
        Some("image-neighbour") => replay_image_neighbour(reg, r),
        Some("edited-image") => replay_edited_image(reg, r),
        Some("long-run") => replay_long_run(reg, r),
        _ => {
            println!("no dedicated replayer for this record; its content is the reproduction recipe:\n{}", serde_json::to_string_pretty(r).unwrap());
            0
        }
    }
}

fn find_type(reg: &dyn Registry, r: &Value) -> Option<&'static dyn GenType> {
    let t = r.get("type").and_then(|t| t.as_str())?;
    reg.get(t).or_else(|| reg.core_types().into_iter().find(|c| c.info().name == t))
}

fn make(reg: &dyn Registry, r: &Value, ctor_key: &str) -> Option<Box<dyn Gen>> {
    let ty = find_type(reg, r)?;
    let c = r.get(ctor_key).or_else(|| r.get("maker")).or_else(|| r.get("ctor"))?;
    if let Some(h) = c.get("from_seed").and_then(|x| x.as_str()) {
        Some(ty.from_seed(&unhex(h)))
    } else if let Some(x) = c.get("seed_from_u64").and_then(|x| x.as_u64()) {
        Some(ty.seed_from_u64(x))
    } else {
        None
    }
}

fn ops_of(v: &Value) -> Vec<Op> {
    v.as_array().map(|a| a.iter().filter_map(Op::from_json).collect()).unwrap_or_default()
}

/// {"kind":"history","type":T,"ctor"|"maker":{"from_seed":hex}|{"seed_from_u64":x},"ops":[...],
///  "expected":[...]} or "expected_last"/"observed_last"
pub fn replay_history(reg: &dyn Registry, r: &Value) -> i32 {
    let Some(mut g) = make(reg, r, "ctor") else {
        println!("cannot rebuild the generator (JitterRng histories are replayed from the 'jitter' records):\n{}", serde_json::to_string_pretty(r).unwrap());
        return 0;
    };
    let ops = ops_of(&r["ops"]);
    let mut bad = false;
    let mut last = None;
    for (i, op) in ops.iter().enumerate() {
        let o = apply(&mut g, op);
        if i + 12 >= ops.len() {
            println!("  op {:4} {:12} -> {}", i, op.short(), o.to_json());
        }
        if o.is_panic() {
            bad = true;
        }
        last = Some(o);
    }
    if let (Some(exp), Some(last)) = (r.get("expected_last").and_then(|e| e.as_array()), last) {
        let lj = last.to_json();
        if !exp.iter().any(|e| *e == lj) {
            println!("  last observation {} is none of the stated projections {:?}", lj, exp);
            bad = true;
        }
    }
    finish(bad)
}

fn finish(bad: bool) -> i32 {
    if bad {
        println!("replay reproduces the violation");
        1
    } else {
        println!("replay shows no disagreement");
        0
    }
}

fn replay_stream(reg: &dyn Registry, r: &Value) -> i32 {
    let Some(ty) = find_type(reg, r) else { return 2 };
    let name = ty.info().name;
    let words = r.get("words").and_then(|w| w.as_u64()).unwrap_or(64) as usize;
    let res: Result<u64, (String, Value)> = if let Some(seed) = r.get("seed").and_then(|s| s.as_str()) {
        let seed = unhex(seed);
        match name {
            "Hc128Rng" => crate::checks::c02::compare_rng(ty, &seed, words, None),
            "Hc128Core" => crate::checks::c02::compare_core(ty, &seed, words / 16),
            "IsaacRng" | "Isaac64Rng" => {
                let is64 = name == "Isaac64Rng";
                let mut g = ty.from_seed(&seed);
                let mut m = if is64 { crate::checks::c03::Model::I64(refmodels::isaac::Isaac64::from_seed_bytes(&seed)) } else { crate::checks::c03::Model::I32(refmodels::isaac::Isaac::from_seed_bytes(&seed)) };
                crate::checks::c03::compare(&mut g, &mut m, is64, words, &|w, _| (w, Value::Null))
            }
            _ => Err(("no stream replayer for this type".into(), Value::Null)),
        }
    } else {
        let is64 = name == "Isaac64Rng";
        let mut g = ty.seed_from_u64(r.get("x").and_then(|x| x.as_u64()).unwrap_or(0));
        let mut m = if is64 { crate::checks::c03::Model::I64(refmodels::isaac::Isaac64::init(&[0u64; 256], 1)) } else { crate::checks::c03::Model::I32(refmodels::isaac::Isaac::init(&[0u32; 256], 1)) };
        crate::checks::c03::compare(&mut g, &mut m, is64, words, &|w, _| (w, Value::Null))
    };
    match res {
        Ok(n) => {
            println!("  {} words agree with the reference model", n);
            finish(false)
        }
        Err((w, _)) => {
            println!("  {}", w);
            finish(true)
        }
    }
}

fn replay_snapshot(reg: &dyn Registry, r: &Value) -> i32 {
    let Some(ty) = find_type(reg, r) else { return 2 };
    let Some(mut g) = make(reg, r, "maker") else { return 2 };
    for op in ops_of(&r["ops"]) {
        let _ = apply(&mut g, &op);
    }
    let Some(bytes) = g.ser() else { return 2 };
    let restored = match ty.de(&bytes) {
        Some(Ok(x)) => x,
        other => {
            println!("  deserialisation failed: {:?}", other.map(|r| r.err()));
            return finish(true);
        }
    };
    let mut restored = restored;
    let mut bad = ty.info().has_eq && restored.eq_dyn(g.as_ref()) != Some(true);
    if bad {
        println!("  restored generator does not compare equal");
    }
    let wb = ty.info().word_bits;
    for k in 0..600 {
        let (a, b) = if wb == 32 || k % 2 == 1 { (g.next_u32() as u64, restored.next_u32() as u64) } else { (g.next_u64(), restored.next_u64()) };
        if a != b {
            println!("  output {} after the snapshot: original {:#x}, restored {:#x}", k, a, b);
            bad = true;
            break;
        }
    }
    finish(bad)
}

fn replay_clone(reg: &dyn Registry, r: &Value) -> i32 {
    let Some(mut g) = make(reg, r, "maker") else { return 2 };
    for op in ops_of(&r["ops"]) {
        let _ = apply(&mut g, &op);
    }
    let mut c = g.clone_box();
    let mut bad = g.eq_dyn(c.as_ref()) == Some(false);
    let cont = ops_of(&r["continuation"]);
    let cont = if cont.is_empty() { vec![Op::U32, Op::U64, Op::Fill(9)] } else { cont };
    for op in &cont {
        let (a, b) = (apply(&mut g, op), apply(&mut c, op));
        println!("  {:8} original {}   clone {}", op.short(), a.to_json(), b.to_json());
        bad |= a != b;
    }
    finish(bad)
}

fn replay_eq_pair(reg: &dyn Registry, r: &Value) -> i32 {
    let (Some(mut a), Some(mut b)) = (make(reg, r, "maker_a"), make(reg, r, "maker_b")) else { return 2 };
    for op in ops_of(&r["ops_a"]) {
        let _ = apply(&mut a, &op);
    }
    for op in ops_of(&r["ops_b"]) {
        let _ = apply(&mut b, &op);
    }
    let eq = a.eq_dyn(b.as_ref());
    println!("  a == b: {:?}", eq);
    let mut differ = false;
    for op in ops_of(&r["continuation"]) {
        let (x, y) = (apply(&mut a, &op), apply(&mut b, &op));
        println!("  {:8} a {}   b {}", op.short(), x.to_json(), y.to_json());
        differ |= x != y;
    }
    finish(eq == Some(true) && differ)
}

fn replay_debug(reg: &dyn Registry, r: &Value) -> i32 {
    let Some(ty) = find_type(reg, r) else {
        println!("{}", serde_json::to_string_pretty(r).unwrap());
        return 0;
    };
    let seeds: Vec<String> = ["seed", "seed_a", "seed_b"].iter().filter_map(|k| r.get(*k).and_then(|s| s.as_str()).map(|s| s.to_string())).collect();
    let mut texts = Vec::new();
    for s in &seeds {
        let mut g = ty.from_seed(&unhex(s));
        for op in ops_of(&r["ops"]) {
            let _ = apply(&mut g, &op);
        }
        println!("  seed {}: {:?}", s, g.debug(false));
        texts.push((g.debug(false), g.debug(true)));
    }
    finish(texts.windows(2).any(|w| w[0] != w[1]) || seeds.len() == 1)
}

fn replay_jitter(reg: &dyn Registry, r: &Value) -> i32 {
    let readings: Vec<u64> = r["readings"].as_array().map(|a| a.iter().filter_map(|x| x.as_u64()).collect()).unwrap_or_default();
    let ops = ops_of(&r["ops"]);
    let pool = r["init_pool"].as_str().and_then(|s| s.parse::<u64>().ok());
    let a = c12::run_impl_pool(reg, &readings, &ops, pool);
    let b = c12::run_model_pool(&readings, &ops, pool);
    for i in 0..a.steps.len().max(b.steps.len()) {
        println!("  op {:2}: implementation {:?}   documented procedure {:?}", i, a.steps.get(i).map(|s| (s.0.to_json(), s.1)), b.steps.get(i).map(|s| (s.0.to_json(), s.1)));
    }
    let panicked = a.steps.iter().any(|s| matches!(s.0, Obs::Panic(_)));
    finish(a.steps != b.steps || panicked || (a.pool != b.pool && !matches!(a.steps.last(), Some((Obs::Horizon, _)))))
}

fn replay_schedule(reg: &dyn Registry, r: &Value) -> i32 {
    use crate::checks::c19::{construct, Inst};
    let insts: Vec<Inst> = r["instances"].as_array().map(|a| a.iter().filter_map(Inst::from_json).collect()).unwrap_or_default();
    let order: Vec<usize> = r["order"].as_array().map(|a| a.iter().filter_map(|x| x.as_u64()).map(|x| x as usize).collect()).unwrap_or_default();
    // single-threaded replay of the interleaving (the recorded thread assignment is printed for information)
    println!("  interleaving {:?} (threads {:?} in the recorded run)", order, r["threads"]);
    let mut gens: Vec<Option<Box<dyn Gen>>> = insts.iter().map(|_| None).collect();
    let mut cur = vec![0usize; insts.len()];
    let mut obs: Vec<Vec<String>> = insts.iter().map(|_| vec![]).collect();
    for &i in &order {
        if cur[i] == 0 {
            gens[i] = Some(construct(reg, &insts[i]));
        } else {
            let o = apply(gens[i].as_mut().unwrap(), &insts[i].ops[cur[i] - 1]);
            obs[i].push(o.to_json().to_string());
        }
        cur[i] += 1;
    }
    let k = r["instance"].as_u64().unwrap_or(0) as usize;
    let solo: Vec<String> = r["solo"].as_array().map(|a| a.iter().filter_map(|x| x.as_str()).map(|s| s.to_string()).collect()).unwrap_or_default();
    println!("  instance {} interleaved: {:?}\n  instance {} alone (recorded): {:?}", k, obs.get(k), k, solo);
    finish(obs.get(k) != Some(&solo))
}

fn replay_state_ops(reg: &dyn Registry, r: &Value) -> i32 {
    use crate::linear::{image, LinOp};
    use refmodels::gf2::BitVec;
    let Some(ty) = find_type(reg, r) else { return 2 };
    let op = match r.get("op").and_then(|o| o.as_str()) {
        Some("jump") => LinOp::Jump,
        Some("long_jump") => LinOp::LongJump,
        _ => LinOp::Step,
    };
    let st = |k: &str| r.get(k).and_then(|s| s.as_str()).map(|s| {
        let b = unhex(s);
        BitVec::from_bytes(b.len() * 8, &b)
    });
    if let (Some(a), Some(b)) = (st("state_a"), st("state_b")) {
        let (ya, yb) = (image(ty, op, &a), image(ty, op, &b));
        println!("  {}({}) = {:?}\n  {}({}) = {:?}", op.name(), r["state_a"], ya.as_ref().map(|y| crate::evidence::hex(&y.to_bytes())), op.name(), r["state_b"], yb.as_ref().map(|y| crate::evidence::hex(&y.to_bytes())));
        return finish(ya.is_ok() && ya == yb && a != b);
    }
    if let (Some(s), Some(e)) = (st("state"), st("expected_state")) {
        let y = image(ty, op, &s);
        println!("  {}({}) = {:?}, predicted {}", op.name(), r["state"], y.as_ref().map(|y| crate::evidence::hex(&y.to_bytes())), r["expected_state"]);
        return finish(y.as_ref().ok() != Some(&e));
    }
    println!("{}", serde_json::to_string_pretty(r).unwrap());
    0
}

/// {"kind":"ctor","type":T,"ctor":{"from_seed":hex}|{"seed_from_u64":x}|...}: construct and show the state
/// image and the first outputs (the recorded message says what was expected)
fn replay_ctor(reg: &dyn Registry, r: &Value) -> i32 {
    match make(reg, r, "ctor") {
        Some(mut g) => {
            println!("  state image: {:?}", g.ser().map(|i| crate::evidence::hex(&i[..i.len().min(64)])));
            let outs: Vec<String> = (0..4).map(|_| format!("{:#x}", g.next_u64())).collect();
            println!("  first outputs (next_u64): {:?}", outs);
            println!("constructor re-executed; compare with the recorded expectation above");
            0
        }
        None => {
            println!("{}", serde_json::to_string_pretty(r).unwrap());
            0
        }
    }
}

#[allow(dead_code)]
fn unused(_: &TimerScript) {}

/// {"kind":"jitter-test-timer","label":..,"before":0|1|2,"probe_differences":[400 x i64],"zero_time":[..],"zero_time2":[..]}
fn replay_test_timer(reg: &dyn Registry, r: &Value) -> i32 {
    let Some(c) = crate::checks::c13::case_from_json(r) else { return 2 };
    let o = crate::checks::c13::eval_case(reg, &c);
    println!("  test_timer on script {:?}: {}", c.label, o.verdict);
    if let Some((k, w)) = &o.violation {
        println!("  {} :: {}", k, w);
    }
    finish(o.violation.is_some())
}

/// {"kind":"clone-from","type":T,"maker":..,"ops":[..],"target_ops":[..]|null}: overwrite a fresh generator
/// (and one after target_ops) with the state after ops; it must equal it and continue like it
fn replay_clone_from(reg: &dyn Registry, r: &Value) -> i32 {
    let mut bad = false;
    for target_ops in [Vec::new(), ops_of(&r["target_ops"])] {
        let (Some(mut src), Some(mut reference), Some(mut target)) = (make(reg, r, "maker"), make(reg, r, "maker"), make(reg, r, "maker")) else { return 2 };
        for op in ops_of(&r["ops"]) {
            let _ = apply(&mut src, &op);
            let _ = apply(&mut reference, &op);
        }
        for op in &target_ops {
            let _ = apply(&mut target, op);
        }
        target.clone_from_dyn(src.as_ref());
        let eq = target.eq_dyn(src.as_ref());
        println!("  target after {} ops, overwritten by clone_from: == source: {:?}", target_ops.len(), eq);
        bad |= eq == Some(false);
        for op in [Op::U32, Op::U64, Op::Fill(9), Op::U32, Op::U32] {
            let (a, b) = (apply(&mut reference, &op), apply(&mut target, &op));
            println!("  {:8} original {}   clone_from target {}", op.short(), a.to_json(), b.to_json());
            bad |= a != b;
        }
    }
    finish(bad)
}

/// {"kind":"image-neighbour","type":T,"maker":..,"ops":[..],"image_byte":p,"flip":x}
fn replay_image_neighbour(reg: &dyn Registry, r: &Value) -> i32 {
    let Some(ty) = find_type(reg, r) else { return 2 };
    let (Some(mut g), Some(mut reference)) = (make(reg, r, "maker"), make(reg, r, "maker")) else { return 2 };
    for op in ops_of(&r["ops"]) {
        let _ = apply(&mut g, &op);
        let _ = apply(&mut reference, &op);
    }
    let Some(mut img) = g.ser() else { return 2 };
    let p = r["image_byte"].as_u64().unwrap_or(0) as usize;
    if p >= img.len() {
        return 2;
    }
    img[p] ^= r["flip"].as_u64().unwrap_or(1) as u8;
    let Some(Ok(mut nb)) = ty.de(&img) else {
        println!("  the edited image does not deserialise");
        return 0;
    };
    let eq = nb.eq_dyn(g.as_ref());
    println!("  neighbour (image byte {} changed) == original: {:?}", p, eq);
    let mut differ = false;
    for op in [Op::U32, Op::U64, Op::U32, Op::U32, Op::Fill(9)] {
        let (a, b) = (apply(&mut reference, &op), apply(&mut nb, &op));
        println!("  {:8} original {}   neighbour {}", op.short(), a.to_json(), b.to_json());
        differ |= a != b;
    }
    finish(eq == Some(true) && differ)
}

/// {"kind":"edited-image","type":T,"image":hex}: G' = deserialize(image); deserialize(serialize(G')) must behave like G'
fn replay_edited_image(reg: &dyn Registry, r: &Value) -> i32 {
    let Some(ty) = find_type(reg, r) else { return 2 };
    let img = unhex(r["image"].as_str().unwrap_or(""));
    let (Some(Ok(mut gp)), Some(Ok(mut twin))) = (ty.de(&img), ty.de(&img)) else {
        println!("  the image does not deserialise");
        return 0;
    };
    // optional first stage: advance G' (and its twin) before the snapshot
    for op in ops_of(&r["advance_first"]) {
        let _ = apply(&mut gp, &op);
        let _ = apply(&mut twin, &op);
    }
    let Some(bytes) = gp.ser() else { return 2 };
    let mut rr = match ty.de(&bytes) {
        Some(Ok(x)) => x,
        other => {
            println!("  serialize(G') cannot be restored: {:?}", other.map(|r| r.err()));
            return 1;
        }
    };
    let mut bad = false;
    let bw = ty.info().block_words.unwrap_or(4) * ty.info().word_bits / 8;
    for op in [Op::U32, Op::U64, Op::Fill(bw + 9), Op::U32, Op::U32, Op::U64] {
        let (a, b, c) = (apply(&mut twin, &op), apply(&mut gp, &op), apply(&mut rr, &op));
        let short = |o: &Obs| o.to_json().to_string().chars().take(48).collect::<String>();
        println!("  {:10} G' {}   G' after being serialised {}   deserialize(serialize(G')) {}", op.short(), short(&a), short(&b), short(&c));
        bad |= a != b || a != c;
    }
    finish(bad)
}

/// {"kind":"long-run","type":T,"ctor":{..},"words":n}: draw n native words, report a panic
fn replay_long_run(reg: &dyn Registry, r: &Value) -> i32 {
    let Some(ty) = find_type(reg, r) else { return 2 };
    let Some(mut g) = make(reg, r, "ctor") else { return 2 };
    let words = r["words"].as_u64().unwrap_or(0);
    let w32 = ty.info().word_bits == 32 || ty.info().family == crate::subject::Family::Core;
    let res = crate::ops::guarded(|| {
        for _ in 0..words {
            if w32 {
                g.next_u32();
            } else {
                g.next_u64();
            }
        }
    });
    println!("  {} native words: {:?}", words, res.as_ref().err());
    finish(res.is_err())
}
