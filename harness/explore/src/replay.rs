//! Re-execute one recorded violation on the real code, without the explorer.

use crate::evidence::unhex;
use crate::ops::{apply, Op};
use crate::subject::Registry;
use serde_json::Value;

pub fn replay_file(reg: &dyn Registry, id: &str, path: &str) -> i32 {
    let Ok(s) = std::fs::read_to_string(path) else {
        eprintln!("cannot read {}", path);
        return 2;
    };
    let Ok(v) = serde_json::from_str::<Value>(&s) else {
        eprintln!("cannot parse {}", path);
        return 2;
    };
    println!("replaying {} for {}: {}", path, id, v.get("what").and_then(|x| x.as_str()).unwrap_or(""));
    let r = &v["replay"];
    match r.get("kind").and_then(|k| k.as_str()) {
        Some("lockstep") => crate::checks::replay_lockstep(reg, r),
        Some("history") => replay_history(reg, r),
        _ => {
            println!("no generic replayer for this record; its content is the reproduction recipe:\n{}", serde_json::to_string_pretty(r).unwrap());
            0
        }
    }
}

/// {"kind":"history","type":T,"ctor":{"from_seed":hex}|{"seed_from_u64":x},"ops":[...],"expected":[...]}
pub fn replay_history(reg: &dyn Registry, r: &Value) -> i32 {
    let Some(ty) = r.get("type").and_then(|t| t.as_str()).and_then(|t| reg.get(t).or_else(|| reg.core_types().into_iter().find(|c| c.info().name == t))) else {
        println!("unknown type in replay");
        return 2;
    };
    let mut g = if let Some(h) = r["ctor"].get("from_seed").and_then(|x| x.as_str()) {
        ty.from_seed(&unhex(h))
    } else if let Some(x) = r["ctor"].get("seed_from_u64").and_then(|x| x.as_u64()) {
        ty.seed_from_u64(x)
    } else {
        println!("unknown ctor");
        return 2;
    };
    let ops: Vec<Op> = r["ops"].as_array().map(|a| a.iter().filter_map(Op::from_json).collect()).unwrap_or_default();
    let mut bad = false;
    for (i, op) in ops.iter().enumerate() {
        let o = apply(&mut g, op);
        let exp = r.get("expected").and_then(|e| e.get(i));
        let oj = o.to_json();
        let mark = match exp {
            Some(e) if !e.is_null() && *e != oj => {
                bad = true;
                "  <-- differs from expected"
            }
            _ => "",
        };
        println!("  op {:2} {:12} -> {}{}{}", i, op.short(), oj, exp.map(|e| format!("   expected {}", e)).unwrap_or_default(), mark);
    }
    if bad {
        println!("replay reproduces the violation");
        1
    } else {
        println!("replay shows no disagreement");
        0
    }
}
