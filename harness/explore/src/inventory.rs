//! Static inventory of constructs that could carry hidden shared state (informational, C19).

pub fn scan(root: &str) -> Vec<(String, String, usize)> {
    let pats = ["static ", "thread_local!", "Cell<", "RefCell<", "Atomic", "Mutex", "RwLock", "Once", "lazy_static", "unsafe "];
    let mut out = Vec::new();
    for krate in ["rand_xoshiro", "rand_xorshift", "rand_hc", "rand_isaac", "rand_jitter"] {
        let dir = format!("{}/{}/src", root, krate);
        let Ok(rd) = std::fs::read_dir(&dir) else { continue };
        let mut counts = vec![0usize; pats.len()];
        for e in rd.flatten() {
            let Ok(s) = std::fs::read_to_string(e.path()) else { continue };
            for line in s.lines() {
                let t = line.trim_start();
                if t.starts_with("//") {
                    continue;
                }
                for (i, p) in pats.iter().enumerate() {
                    if t.contains(p) {
                        counts[i] += 1;
                    }
                }
            }
        }
        for (i, p) in pats.iter().enumerate() {
            if counts[i] > 0 {
                out.push((krate.to_string(), p.trim().to_string(), counts[i]));
            }
        }
    }
    out
}
