//! Scripted timers for JitterRng: a benign default reading stream and deviations from it.

use crate::subject::{Gen, Registry, TimerScript};
use refmodels::jitter::{Model, Readings};
use std::sync::Arc;

/// Benign default: strictly increasing readings with irregular increments. `salt` selects the
/// stream; use `benign_readings` to get one that the model certifies as never stuck for the given
/// number of collections at the given rounds.
pub fn raw_readings(salt: u64, len: usize) -> Vec<u64> {
    let mut v = Vec::with_capacity(len);
    let mut t: u64 = 1_000_000 + salt * 7919;
    let mut x: u64 = 0x9E3779B97F4A7C15 ^ salt.wrapping_mul(0xD1B54A32D192ED03);
    for _ in 0..len {
        v.push(t);
        // xorshift* filler: increments in 400..=2447, irregular
        x ^= x >> 12;
        x ^= x << 25;
        x ^= x >> 27;
        let r = x.wrapping_mul(0x2545F4914F6CDD1D) >> 53; // 11 bits
        t += 400 + r;
    }
    v
}

/// Readings per collection when nothing is stuck.
pub fn readings_per_word(rounds: u8) -> usize {
    1 + 3 * (rounds as usize + 1)
}

/// A reading stream for which the model sees no stuck measurement while making `words`
/// collections with `rounds` rounds. Deterministic search over salts.
pub fn benign_readings(seed: u64, rounds: u8, words: usize, extra: usize) -> Vec<u64> {
    let need = readings_per_word(rounds) * words;
    for salt in 0..10_000u64 {
        let r = raw_readings(seed.wrapping_mul(31).wrapping_add(salt), need + extra);
        let mut m = Model::new();
        m.set_rounds(rounds);
        let mut rd = Readings::new(&r, 0);
        let mut ok = true;
        for _ in 0..words {
            if m.next_u64(&mut rd).is_err() {
                ok = false;
                break;
            }
        }
        if ok && m.stuck_events == 0 && rd.pos == need {
            return r;
        }
    }
    panic!("no benign reading stream found");
}

pub fn jitter_with(reg: &dyn Registry, readings: Vec<u64>, rounds: Option<u8>) -> (Box<dyn Gen>, Arc<TimerScript>) {
    let script = TimerScript::new(readings);
    let mut g = reg.jitter(script.clone());
    if let Some(r) = rounds {
        g.jitter().unwrap().set_rounds(r);
    }
    (g, script)
}
