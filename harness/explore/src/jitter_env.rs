//! Scripted timers for JitterRng: a benign default reading stream and deviations from it.

use crate::subject::{Gen, Registry, TimerScript};
use refmodels::jitter::{Model, Readings};
use std::sync::Arc;

/// Benign default: strictly increasing readings with irregular increments. `salt` selects the
/// stream; use `benign_readings` to get one that the model certifies as never stuck for the given
/// number of collections at the given rounds.
pub fn raw_readings(salt: u64, len: usize) -> Vec<u64> {
    let mut v = Vec::with_capacity(len);
    let mut t: u64 = 1_000_000 + salt * 7919;
    let mut x: u64 = 0x9E3779B97F4A7C15 ^ salt.wrapping_mul(0xD1B54A32D192ED03);
    for _ in 0..len {
        v.push(t);
        // xorshift* filler: increments in 400..=2447, irregular
        x ^= x >> 12;
        x ^= x << 25;
        x ^= x >> 27;
        let r = x.wrapping_mul(0x2545F4914F6CDD1D) >> 53; // 11 bits
        t += 400 + r;
    }
    v
}

/// Readings per collection when nothing is stuck.
pub fn readings_per_word(rounds: u8) -> usize {
    1 + 3 * (rounds as usize + 1)
}

/// A reading stream for which the model sees no stuck measurement while making `words`
/// collections with `rounds` rounds. Deterministic search over salts.
pub fn benign_readings(seed: u64, rounds: u8, words: usize, extra: usize) -> Vec<u64> {
    let need = readings_per_word(rounds) * words;
    for salt in 0..10_000u64 {
        let r = raw_readings(seed.wrapping_mul(31).wrapping_add(salt), need + extra);
        let mut m = Model::new();
        m.set_rounds(rounds);
        let mut rd = Readings::new(&r, 0);
        let mut ok = true;
        for _ in 0..words {
            if m.next_u64(&mut rd).is_err() {
                ok = false;
                break;
            }
        }
        if ok && m.stuck_events == 0 && rd.pos == need {
            return r;
        }
    }
    panic!("no benign reading stream found");
}

pub fn jitter_with(reg: &dyn Registry, readings: Vec<u64>, rounds: Option<u8>) -> (Box<dyn Gen>, Arc<TimerScript>) {
    let script = TimerScript::new(readings);
    let mut g = reg.jitter(script.clone());
    if let Some(r) = rounds {
        g.jitter().unwrap().set_rounds(r);
    }
    (g, script)
}

// ------------------------------------------------------------------------------------------------
// Deviations from the benign stream (E4)
// ------------------------------------------------------------------------------------------------

#[derive(Clone, Copy, Debug, PartialEq, Eq, Hash)]
pub enum Dev {
    /// repeat the previous reading
    Repeat,
    /// repeat the reading three positions back: a zero delta when this is a probe reading
    /// (probe readings are 3 apart in a collection and in test_timer)
    Repeat3,
    /// repeat the reading two positions back: a zero delta at the *priming* probe of a collection
    /// (reading 2 against the priming reading 0)
    Repeat2,
    /// the 3-reading delta of the window before the previous one (d, x, d)
    SameDeltaSkip,
    /// same 3-reading delta as the previous window (second difference 0 at a probe)
    SameDelta,
    /// continue the arithmetic progression of 3-reading deltas (third difference 0 at a probe)
    Arith,
    BackOne,
    BackFar,
    Jump31m1,
    Jump31,
    Jump32,
    Jump32p7,
    /// the probe reading three positions back plus 2^32 / 3*2^32: the raw difference of the two probe
    /// readings is a non-zero multiple of 2^32, the 32-bit delta is zero
    ProbePlus32,
    ProbePlus3x32,
    /// the same against the priming reading (two positions back)
    PrimePlus32,
    Wrap,
    /// a zero reading
    Zero,
}

pub const DEV_MENU: [Dev; 16] = [Dev::Repeat, Dev::Repeat2, Dev::Repeat3, Dev::SameDeltaSkip, Dev::SameDelta, Dev::Arith, Dev::BackOne, Dev::BackFar, Dev::Jump31m1, Dev::Jump31, Dev::Jump32, Dev::Jump32p7, Dev::ProbePlus32, Dev::ProbePlus3x32, Dev::PrimePlus32, Dev::Wrap];

/// Apply deviations (position, kind), in increasing position order, to the increments of `base`:
/// the deviating reading is computed from the readings before it, later readings keep the base
/// increments.
pub fn deviate(base: &[u64], devs: &[(usize, Dev)]) -> Vec<u64> {
    let mut t: Vec<u64> = Vec::with_capacity(base.len());
    for i in 0..base.len() {
        let inc = if i == 0 { base[0] } else { base[i].wrapping_sub(base[i - 1]) };
        let mut v = if i == 0 { inc } else { t[i - 1].wrapping_add(inc) };
        if let Some(&(_, kind)) = devs.iter().find(|(p, _)| *p == i) {
            let prev = if i > 0 { t[i - 1] } else { 0 };
            let back = |k: usize| if i >= k { t[i - k] } else { 0 };
            v = match kind {
                Dev::Repeat => prev,
                Dev::Repeat2 => back(2),
                Dev::Repeat3 => back(3),
                Dev::SameDeltaSkip => back(3).wrapping_add(back(6).wrapping_sub(back(9))),
                Dev::SameDelta => back(3).wrapping_add(back(3).wrapping_sub(back(6))),
                Dev::Arith => {
                    let d1 = back(3).wrapping_sub(back(6));
                    let d2 = back(6).wrapping_sub(back(9));
                    back(3).wrapping_add(d1.wrapping_mul(2).wrapping_sub(d2))
                }
                Dev::BackOne => prev.wrapping_sub(1),
                Dev::BackFar => prev.wrapping_sub(5_000_000_123),
                Dev::Jump31m1 => prev.wrapping_add((1 << 31) - 1),
                Dev::Jump31 => prev.wrapping_add(1 << 31),
                Dev::Jump32 => prev.wrapping_add(1 << 32),
                Dev::Jump32p7 => prev.wrapping_add((1 << 32) + 7),
                Dev::ProbePlus32 => back(3).wrapping_add(1 << 32),
                Dev::ProbePlus3x32 => back(3).wrapping_add(3 << 32),
                Dev::PrimePlus32 => back(2).wrapping_add(1 << 32),
                Dev::Wrap => u64::MAX - 2,
                Dev::Zero => 0,
            };
        }
        t.push(v);
    }
    t
}

/// `base` with a run of `k` consecutive stuck measurements (kind Repeat3 / SameDelta / Arith) whose
/// first deviating probe reading is reading number `first_probe` (probe readings are 3 apart).
pub fn with_stuck_run(base: &[u64], first_probe: usize, k: usize, kind: Dev) -> Vec<u64> {
    let devs: Vec<(usize, Dev)> = (0..k).map(|j| (first_probe + 3 * j, kind)).collect();
    deviate(base, &devs)
}

/// Run lengths that straddle every power of two up to `max` (any retry bound / narrow counter).
pub fn run_lengths(max: usize) -> Vec<usize> {
    let mut v: Vec<usize> = (1..=10).collect();
    let mut p = 16usize;
    while p <= max {
        v.extend([p - 1, p, p + 1]);
        p *= 2;
    }
    v
}

/// The pool value (set through the hook before the first call) for which the first `next_u64` on
/// these readings returns `target`: the pool -> output map of one collection is GF(2)-affine, so it
/// is extracted on the 64 basis pools and solved. None if the extracted map is singular / not affine
/// (then C15 reports it).
pub fn solve_pool_for_first_output(reg: &dyn Registry, readings: &[u64], rounds: u8, target: u64) -> Option<u64> {
    use refmodels::gf2::{BitVec, Mat};
    let f = |p: u64| -> u64 {
        let (mut g, _) = jitter_with(reg, readings.to_vec(), Some(rounds));
        g.jitter().unwrap().set_pool(p);
        g.next_u64()
    };
    let c = f(0);
    let col: Vec<BitVec> = (0..64).map(|i| BitVec { n: 64, w: vec![f(1u64 << i) ^ c] }).collect();
    let m = Mat { rows: 64, cols: 64, col };
    let x = m.solve(&BitVec { n: 64, w: vec![target ^ c] })?.w[0];
    if f(x) == target {
        Some(x)
    } else {
        None
    }
}

/// Output values a value-keyed shortcut would single out.
pub const SPECIAL_WORDS: [u64; 10] = [0, u64::MAX, 0x0000_0000_9E37_79B9, 0xDEAD_BEEF_0000_0000, 0x0000_0000_FFFF_FFFF, 0xFFFF_FFFF_0000_0000, 1, 0x8000_0000_0000_0000, 0x1357_9BDF_1357_9BDF, 0x0000_0001_0000_0001];

/// Relations between the halves of the first two collected words that a "continuous test" or a
/// cache keyed on the last word would single out. Each is a list of bit equalities between output
/// bits (bit index = 64 * word + bit).
pub fn two_word_relations() -> Vec<(&'static str, Vec<(usize, usize)>)> {
    let eq32 = |a: usize, b: usize| -> Vec<(usize, usize)> { (0..32).map(|i| (a + i, b + i)).collect() };
    vec![
        ("w2.lo == w1.lo", eq32(64, 0)),
        ("w2.lo == w1.hi", eq32(64, 32)),
        ("w2.hi == w1.hi", eq32(96, 32)),
        ("w2.hi == w1.lo", eq32(96, 0)),
        ("w2 == w1", (0..64).map(|i| (64 + i, i)).collect()),
        ("w1.hi == w1.lo and w2.lo == w1.lo", {
            let mut v = eq32(32, 0);
            v.extend(eq32(64, 0));
            v
        }),
    ]
}

/// A pool (written through the hook before the first call) for which the first two `next_u64`
/// results on these readings satisfy all the given bit equalities. The map pool -> (w1, w2) is
/// GF(2)-affine; it is extracted on the basis pools and the linear system is solved.
pub fn solve_pool_for_relation(reg: &dyn Registry, readings: &[u64], rounds: u8, eqs: &[(usize, usize)]) -> Option<u64> {
    use refmodels::gf2::{BitVec, Mat};
    let f = |p: u64| -> [u64; 2] {
        let (mut g, _) = jitter_with(reg, readings.to_vec(), Some(rounds));
        g.jitter().unwrap().set_pool(p);
        [g.next_u64(), g.next_u64()]
    };
    let bit = |w: &[u64; 2], i: usize| (w[i / 64] >> (i % 64)) & 1;
    let c = f(0);
    let cols: Vec<[u64; 2]> = (0..64)
        .map(|i| {
            let y = f(1u64 << i);
            [y[0] ^ c[0], y[1] ^ c[1]]
        })
        .collect();
    // system A x = r, one row per equality: (row_a ^ row_b) . x = c_a ^ c_b
    let k = eqs.len();
    let mut a = Mat::zero(k, 64);
    let mut r = BitVec::zero(k);
    for (row, &(ba, bb)) in eqs.iter().enumerate() {
        for j in 0..64 {
            if bit(&cols[j], ba) ^ bit(&cols[j], bb) == 1 {
                a.col[j].set(row, true);
            }
        }
        r.set(row, bit(&c, ba) ^ bit(&c, bb) == 1);
    }
    let x = a.solve(&r)?.w[0];
    let y = f(x);
    if eqs.iter().all(|&(ba, bb)| bit(&y, ba) == bit(&y, bb)) {
        Some(x)
    } else {
        None
    }
}

