//! Thin binding of the crates under test to the `explore` seams.

use explore::subject::*;
use rand_core::block::BlockRngCore;
use rand_core::{RngCore, SeedableRng};
use rayon::prelude::*;
use refmodels::xoshiro::Kind;
use std::any::Any;
use std::fmt::Debug;
use std::marker::PhantomData;
use std::sync::atomic::{AtomicBool, Ordering};
use std::sync::{Arc, Mutex};

// ------------------------------------------------------------------------------------------------
// per-type capabilities
// ------------------------------------------------------------------------------------------------
pub trait Subject: RngCore + Clone + Debug + Send + Sync + Sized + 'static {
    fn s_jump(&mut self) {
        panic!("jump not offered")
    }
    fn s_long_jump(&mut self) {
        panic!("long_jump not offered")
    }
    fn s_eq(&self, _o: &Self) -> Option<bool> {
        None
    }
    fn s_ser(&self) -> Option<Vec<u8>> {
        None
    }
    fn s_de(_b: &[u8]) -> Option<Result<Self, String>> {
        None
    }
    fn s_de_in_place(&mut self, _b: &[u8]) -> Option<Result<(), String>> {
        None
    }
    /// `Default::default()` if the type implements `Default` (a seedless constructor)
    fn s_default() -> Option<Self> {
        None
    }
    /// two values read one after the other from one byte stream
    fn s_de_two(_b: &[u8]) -> Option<Result<(Self, Self), String>> {
        None
    }
    fn s_ser_json(&self) -> Option<Vec<u8>> {
        None
    }
    fn s_de_json(_b: &[u8]) -> Option<Result<Self, String>> {
        None
    }
}

pub struct Wrap<T>(pub T);

impl<T: Subject> Gen for Wrap<T> {
    fn next_u32(&mut self) -> u32 {
        self.0.next_u32()
    }
    fn next_u64(&mut self) -> u64 {
        self.0.next_u64()
    }
    fn fill_bytes(&mut self, dest: &mut [u8]) {
        self.0.fill_bytes(dest)
    }
    fn jump(&mut self) {
        self.0.s_jump()
    }
    fn long_jump(&mut self) {
        self.0.s_long_jump()
    }
    fn clone_box(&self) -> Box<dyn Gen> {
        Box::new(Wrap(self.0.clone()))
    }
    fn clone_from_dyn(&mut self, src: &dyn Gen) {
        let o = src.as_any().downcast_ref::<Wrap<T>>().expect("clone_from across types");
        self.0.clone_from(&o.0)
    }
    fn eq_dyn(&self, other: &dyn Gen) -> Option<bool> {
        let o = other.as_any().downcast_ref::<Wrap<T>>().expect("eq_dyn across types");
        // a panic inside `==` is the crate's, not the harness's: counted and reported by C10 / C14
        match std::panic::catch_unwind(std::panic::AssertUnwindSafe(|| self.0.s_eq(&o.0))) {
            Ok(r) => r,
            Err(_) => {
                EQ_PANICS.fetch_add(1, std::sync::atomic::Ordering::Relaxed);
                None
            }
        }
    }
    fn debug(&self, alternate: bool) -> String {
        if alternate {
            format!("{:#?}", self.0)
        } else {
            format!("{:?}", self.0)
        }
    }
    fn ser(&self) -> Option<Vec<u8>> {
        self.0.s_ser()
    }
    fn ser_json(&self) -> Option<Vec<u8>> {
        self.0.s_ser_json()
    }
    fn de_in_place(&mut self, bytes: &[u8]) -> Option<Result<(), String>> {
        self.0.s_de_in_place(bytes)
    }
    fn as_any(&self) -> &dyn Any {
        self
    }
}

macro_rules! subject {
    ($t:ty; jump=$j:tt, eq=$e:tt, serde=$s:tt) => {
        impl Subject for $t {
            fn s_default() -> Option<Self> {
                // autoref dispatch on the concrete type: Some(Default::default()) iff the type is Default
                (&DefaultProbe::<$t>(PhantomData)).get()
            }
            subject!(@jump $j);
            subject!(@eq $e);
            subject!(@serde $s);
        }
    };
    (@jump yes) => {
        fn s_jump(&mut self) { self.jump() }
        fn s_long_jump(&mut self) { self.long_jump() }
    };
    (@jump no) => {};
    (@eq yes) => {
        fn s_eq(&self, o: &Self) -> Option<bool> {
            let e = self == o;
            // `!=` must be the negation of `==` (a hand-written `ne`)
            #[allow(clippy::nonminimal_bool)]
            if (self != o) == e {
                EQ_NE_INCONSISTENT.fetch_add(1, std::sync::atomic::Ordering::Relaxed);
            }
            Some(e)
        }
    };
    (@eq no) => {};
    (@serde yes) => {
        fn s_ser(&self) -> Option<Vec<u8>> { Some(bincode::serialize(self).expect("bincode serialize")) }
        fn s_de(b: &[u8]) -> Option<Result<Self, String>> { Some(bincode::deserialize::<Self>(b).map_err(|e| e.to_string())) }
        fn s_de_in_place(&mut self, b: &[u8]) -> Option<Result<(), String>> { Some({ use bincode::Options; let mut de = bincode::Deserializer::from_slice(b, bincode::DefaultOptions::new().with_fixint_encoding().allow_trailing_bytes()); serde::Deserialize::deserialize_in_place(&mut de, self).map_err(|e| e.to_string()) }) }
        fn s_de_two(b: &[u8]) -> Option<Result<(Self, Self), String>> {
            let mut cur = std::io::Cursor::new(b);
            let r = (|| -> Result<(Self, Self), String> {
                let x: Self = bincode::deserialize_from(&mut cur).map_err(|e| e.to_string())?;
                let y: Self = bincode::deserialize_from(&mut cur).map_err(|e| e.to_string())?;
                Ok((x, y))
            })();
            Some(r)
        }
        fn s_ser_json(&self) -> Option<Vec<u8>> { Some(serde_json::to_vec(self).expect("json serialize")) }
        fn s_de_json(b: &[u8]) -> Option<Result<Self, String>> { Some(serde_json::from_slice::<Self>(b).map_err(|e| e.to_string())) }
    };
    (@serde no) => {};
}

use rand_hc::{Hc128Core, Hc128Rng};
use rand_isaac::isaac::IsaacCore;
use rand_isaac::isaac64::Isaac64Core;
use rand_isaac::{Isaac64Rng, IsaacRng};
use rand_jitter::JitterRng;
use rand_xorshift::XorShiftRng;
use rand_xoshiro::*;

subject!(Xoroshiro64Star; jump=no, eq=yes, serde=yes);
subject!(Xoroshiro64StarStar; jump=no, eq=yes, serde=yes);
subject!(Xoroshiro128Plus; jump=yes, eq=yes, serde=yes);
subject!(Xoroshiro128PlusPlus; jump=yes, eq=yes, serde=yes);
subject!(Xoroshiro128StarStar; jump=yes, eq=yes, serde=yes);
subject!(Xoshiro128Plus; jump=yes, eq=yes, serde=yes);
subject!(Xoshiro128PlusPlus; jump=yes, eq=yes, serde=yes);
subject!(Xoshiro128StarStar; jump=yes, eq=yes, serde=yes);
subject!(Xoshiro256Plus; jump=yes, eq=yes, serde=yes);
subject!(Xoshiro256PlusPlus; jump=yes, eq=yes, serde=yes);
subject!(Xoshiro256StarStar; jump=yes, eq=yes, serde=yes);
subject!(Xoshiro512Plus; jump=yes, eq=yes, serde=yes);
subject!(Xoshiro512PlusPlus; jump=yes, eq=yes, serde=yes);
subject!(Xoshiro512StarStar; jump=yes, eq=yes, serde=yes);
subject!(SplitMix64; jump=no, eq=yes, serde=yes);
subject!(XorShiftRng; jump=no, eq=yes, serde=yes);
subject!(Hc128Rng; jump=no, eq=yes, serde=no);
subject!(IsaacRng; jump=no, eq=no, serde=yes);
subject!(Isaac64Rng; jump=no, eq=no, serde=yes);

// ------------------------------------------------------------------------------------------------
// bare cores behind an adapter: every Gen operation produces one fresh block
// ------------------------------------------------------------------------------------------------
pub trait CoreSubject: BlockRngCore + SeedableRng + Clone + Debug + PartialEq + Send + Sync + Sized + 'static {
    fn words(r: &Self::Results) -> Vec<u64>;
    const ITEM_BYTES: usize;
    fn c_ser(&self) -> Option<Vec<u8>> {
        None
    }
    fn c_de(_b: &[u8]) -> Option<Result<Self, String>> {
        None
    }
    fn c_de_in_place(&mut self, _b: &[u8]) -> Option<Result<(), String>> {
        None
    }
    fn c_ser_json(&self) -> Option<Vec<u8>> {
        None
    }
    fn c_de_json(_b: &[u8]) -> Option<Result<Self, String>> {
        None
    }
}
impl CoreSubject for Hc128Core {
    fn words(r: &Self::Results) -> Vec<u64> {
        r.iter().map(|&x| x as u64).collect()
    }
    const ITEM_BYTES: usize = 4;
}
impl CoreSubject for IsaacCore {
    fn words(r: &Self::Results) -> Vec<u64> {
        r.as_ref().iter().map(|&x| x as u64).collect()
    }
    const ITEM_BYTES: usize = 4;
    fn c_ser(&self) -> Option<Vec<u8>> {
        Some(bincode::serialize(self).expect("bincode serialize"))
    }
    fn c_de(b: &[u8]) -> Option<Result<Self, String>> {
        Some(bincode::deserialize::<Self>(b).map_err(|e| e.to_string()))
    }
    fn c_de_in_place(&mut self, b: &[u8]) -> Option<Result<(), String>> {
        Some({ use bincode::Options; let mut de = bincode::Deserializer::from_slice(b, bincode::DefaultOptions::new().with_fixint_encoding().allow_trailing_bytes()); serde::Deserialize::deserialize_in_place(&mut de, self).map_err(|e| e.to_string()) })
    }
    fn c_ser_json(&self) -> Option<Vec<u8>> {
        Some(serde_json::to_vec(self).expect("json serialize"))
    }
    fn c_de_json(b: &[u8]) -> Option<Result<Self, String>> {
        Some(serde_json::from_slice::<Self>(b).map_err(|e| e.to_string()))
    }
}
impl CoreSubject for Isaac64Core {
    fn words(r: &Self::Results) -> Vec<u64> {
        r.as_ref().iter().copied().collect()
    }
    const ITEM_BYTES: usize = 8;
    fn c_ser(&self) -> Option<Vec<u8>> {
        Some(bincode::serialize(self).expect("bincode serialize"))
    }
    fn c_de(b: &[u8]) -> Option<Result<Self, String>> {
        Some(bincode::deserialize::<Self>(b).map_err(|e| e.to_string()))
    }
    fn c_de_in_place(&mut self, b: &[u8]) -> Option<Result<(), String>> {
        Some({ use bincode::Options; let mut de = bincode::Deserializer::from_slice(b, bincode::DefaultOptions::new().with_fixint_encoding().allow_trailing_bytes()); serde::Deserialize::deserialize_in_place(&mut de, self).map_err(|e| e.to_string()) })
    }
    fn c_ser_json(&self) -> Option<Vec<u8>> {
        Some(serde_json::to_vec(self).expect("json serialize"))
    }
    fn c_de_json(b: &[u8]) -> Option<Result<Self, String>> {
        Some(serde_json::from_slice::<Self>(b).map_err(|e| e.to_string()))
    }
}

/// A bare block core with the results buffer its user keeps next to it. Single-word reads reuse that
/// buffer from block to block (as BlockRng does); `fill_bytes` hands the core a fresh buffer for every
/// block; a clone of the wrapper clones the core only and starts with a fresh buffer (the buffer is the
/// caller's, not part of the core).
/// `OFF` u32 words of padding in front of the core (repr(C)): with OFF = 1 a core of alignment 4 sits at
/// an address that is 4 mod 8 in the (at least 8-aligned) heap allocation, with OFF = 0 at 0 mod 8.
#[repr(C)]
pub struct CoreWrap<C: CoreSubject, const OFF: usize>(pub [u32; OFF], pub C, pub Buf<C::Results>);

/// the results buffers are plain arrays of integers
pub struct Buf<R>(pub R);
unsafe impl<R> Send for Buf<R> {}
unsafe impl<R> Sync for Buf<R> {}

impl<C: CoreSubject, const OFF: usize> CoreWrap<C, OFF> {
    pub fn new(c: C) -> Self {
        CoreWrap([0u32; OFF], c, Buf(C::Results::default()))
    }
    fn block(&mut self) -> Vec<u64> {
        self.1.generate(&mut (self.2).0);
        C::words(&(self.2).0)
    }
    fn block_fresh(&mut self) -> Vec<u64> {
        let mut r = C::Results::default();
        self.1.generate(&mut r);
        C::words(&r)
    }
}

impl<C: CoreSubject, const OFF: usize> Gen for CoreWrap<C, OFF> {
    fn next_u32(&mut self) -> u32 {
        self.block()[0] as u32
    }
    fn next_u64(&mut self) -> u64 {
        let b = self.block();
        if C::ITEM_BYTES == 8 {
            b[0]
        } else {
            (b[1] << 32) | b[0]
        }
    }
    fn fill_bytes(&mut self, dest: &mut [u8]) {
        let mut off = 0;
        while off < dest.len() {
            let b = self.block_fresh();
            for w in b {
                let bytes = w.to_le_bytes();
                for k in 0..C::ITEM_BYTES {
                    if off < dest.len() {
                        dest[off] = bytes[k];
                        off += 1;
                    }
                }
            }
        }
    }
    fn jump(&mut self) {
        panic!("jump not offered")
    }
    fn long_jump(&mut self) {
        panic!("long_jump not offered")
    }
    fn clone_box(&self) -> Box<dyn Gen> {
        Box::new(CoreWrap::<C, OFF>::new(self.1.clone()))
    }
    fn clone_from_dyn(&mut self, src: &dyn Gen) {
        let o = src.as_any().downcast_ref::<CoreWrap<C, OFF>>().expect("clone_from across types");
        self.1.clone_from(&o.1)
    }
    fn eq_dyn(&self, other: &dyn Gen) -> Option<bool> {
        let o = other.as_any().downcast_ref::<CoreWrap<C, OFF>>().expect("eq_dyn across types");
        match std::panic::catch_unwind(std::panic::AssertUnwindSafe(|| {
            let e = self.1 == o.1;
            if (self.1 != o.1) == e {
                EQ_NE_INCONSISTENT.fetch_add(1, std::sync::atomic::Ordering::Relaxed);
            }
            e
        })) {
            Ok(e) => Some(e),
            Err(_) => {
                EQ_PANICS.fetch_add(1, std::sync::atomic::Ordering::Relaxed);
                None
            }
        }
    }
    fn debug(&self, alternate: bool) -> String {
        if alternate {
            format!("{:#?}", self.1)
        } else {
            format!("{:?}", self.1)
        }
    }
    fn ser(&self) -> Option<Vec<u8>> {
        self.1.c_ser()
    }
    fn ser_json(&self) -> Option<Vec<u8>> {
        self.1.c_ser_json()
    }
    fn de_in_place(&mut self, bytes: &[u8]) -> Option<Result<(), String>> {
        self.1.c_de_in_place(bytes)
    }
    fn as_any(&self) -> &dyn Any {
        self
    }
}

// ------------------------------------------------------------------------------------------------
// GenType implementations
// ------------------------------------------------------------------------------------------------
pub trait SeedSubject: Subject + SeedableRng {}
impl<T: Subject + SeedableRng> SeedSubject for T {}

fn mk_seed<T: SeedableRng>(bytes: &[u8]) -> T::Seed {
    let mut s = T::Seed::default();
    let m = s.as_mut();
    assert_eq!(m.len(), bytes.len(), "seed length");
    m.copy_from_slice(bytes);
    s
}

/// adapter: drive `&mut dyn Gen` as an RngCore (for `from_rng(&mut parent)`)
struct AsRng<'a>(&'a mut dyn Gen);
impl<'a> RngCore for AsRng<'a> {
    fn next_u32(&mut self) -> u32 {
        self.0.next_u32()
    }
    fn next_u64(&mut self) -> u64 {
        self.0.next_u64()
    }
    fn fill_bytes(&mut self, d: &mut [u8]) {
        self.0.fill_bytes(d)
    }
}

pub struct TypeOf<T> {
    pub info: TypeInfo,
    pub kind: Option<Kind>,
    _p: PhantomData<fn() -> T>,
}

impl<T: SeedSubject> GenType for TypeOf<T> {
    fn info(&self) -> &TypeInfo {
        &self.info
    }
    fn from_seed(&self, seed: &[u8]) -> Box<dyn Gen> {
        Box::new(Wrap(T::from_seed(mk_seed::<T>(seed))))
    }
    fn seed_from_u64(&self, x: u64) -> Box<dyn Gen> {
        Box::new(Wrap(T::seed_from_u64(x)))
    }
    fn from_rng(&self, src: &mut ScriptSource) -> Box<dyn Gen> {
        Box::new(Wrap(T::from_rng(src)))
    }
    fn try_from_rng(&self, src: &mut FallibleSource) -> Result<Box<dyn Gen>, SourceError> {
        T::try_from_rng(src).map(|g| Box::new(Wrap(g)) as Box<dyn Gen>)
    }
    fn from_rng_of(&self, parent: &mut dyn Gen) -> Box<dyn Gen> {
        Box::new(Wrap(T::from_rng(&mut AsRng(parent))))
    }
    fn de(&self, bytes: &[u8]) -> Option<Result<Box<dyn Gen>, String>> {
        T::s_de(bytes).map(|r| r.map(|g| Box::new(Wrap(g)) as Box<dyn Gen>))
    }
    fn de_json(&self, bytes: &[u8]) -> Option<Result<Box<dyn Gen>, String>> {
        T::s_de_json(bytes).map(|r| r.map(|g| Box::new(Wrap(g)) as Box<dyn Gen>))
    }
    fn default_ctor(&self) -> Option<Box<dyn Gen>> {
        T::s_default().map(|g| Box::new(Wrap(g)) as Box<dyn Gen>)
    }
    fn de_two(&self, bytes: &[u8]) -> Option<Result<(Box<dyn Gen>, Box<dyn Gen>), String>> {
        T::s_de_two(bytes).map(|r| r.map(|(a, b)| (Box::new(Wrap(a)) as Box<dyn Gen>, Box::new(Wrap(b)) as Box<dyn Gen>)))
    }
    fn sweep(&self, job: &SweepJob) -> SweepResult {
        sweep::<T>(&self.info, self.kind, job)
    }
}

pub struct CoreTypeOf<C, const OFF: usize> {
    pub info: TypeInfo,
    _p: PhantomData<fn() -> C>,
}

impl<C: CoreSubject, const OFF: usize> GenType for CoreTypeOf<C, OFF> {
    fn info(&self) -> &TypeInfo {
        &self.info
    }
    fn from_seed(&self, seed: &[u8]) -> Box<dyn Gen> {
        Box::new(CoreWrap::<C, OFF>::new(C::from_seed(mk_seed::<C>(seed))))
    }
    fn seed_from_u64(&self, x: u64) -> Box<dyn Gen> {
        Box::new(CoreWrap::<C, OFF>::new(C::seed_from_u64(x)))
    }
    fn from_rng(&self, src: &mut ScriptSource) -> Box<dyn Gen> {
        Box::new(CoreWrap::<C, OFF>::new(C::from_rng(src)))
    }
    fn try_from_rng(&self, src: &mut FallibleSource) -> Result<Box<dyn Gen>, SourceError> {
        C::try_from_rng(src).map(|g| Box::new(CoreWrap::<C, OFF>::new(g)) as Box<dyn Gen>)
    }
    fn from_rng_of(&self, parent: &mut dyn Gen) -> Box<dyn Gen> {
        Box::new(CoreWrap::<C, OFF>::new(C::from_rng(&mut AsRng(parent))))
    }
    fn de(&self, bytes: &[u8]) -> Option<Result<Box<dyn Gen>, String>> {
        C::c_de(bytes).map(|r| r.map(|g| Box::new(CoreWrap::<C, OFF>::new(g)) as Box<dyn Gen>))
    }
    fn de_json(&self, bytes: &[u8]) -> Option<Result<Box<dyn Gen>, String>> {
        C::c_de_json(bytes).map(|r| r.map(|g| Box::new(CoreWrap::<C, OFF>::new(g)) as Box<dyn Gen>))
    }
    fn sweep(&self, _job: &SweepJob) -> SweepResult {
        SweepResult::default()
    }
}

// ------------------------------------------------------------------------------------------------
// sweeps
// ------------------------------------------------------------------------------------------------
#[inline(always)]
fn deposit(seed: &mut [u8], lanes: &[(usize, usize)], mut v: u64) {
    for &(off, width) in lanes {
        let part = v & ((1u64 << width) - 1);
        v >>= width;
        // clear and set `width` bits starting at bit `off`
        for k in 0..width {
            let b = off + k;
            let bit = ((part >> k) & 1) as u8;
            seed[b / 8] = (seed[b / 8] & !(1 << (b % 8))) | (bit << (b % 8));
        }
    }
}

fn sweep<T: SeedSubject>(info: &TypeInfo, kind: Option<Kind>, job: &SweepJob) -> SweepResult {
    let failure: Mutex<Option<(String, Vec<u8>)>> = Mutex::new(None);
    let stop = AtomicBool::new(false);
    const CHUNK: u64 = 1 << 14;
    match job {
        SweepJob::StepCube { background, lanes, use_u32, check_state } => {
            let bits: usize = lanes.iter().map(|l| l.1).sum();
            assert!(bits <= 32);
            let total: u64 = 1u64 << bits;
            let is_xs = info.family == Family::XorShift;
            if kind.is_none() && !is_xs {
                return SweepResult::default();
            }
            let nchunks = (total + CHUNK - 1) / CHUNK;
            let done: u64 = (0..nchunks)
                .into_par_iter()
                .map(|c| {
                    if stop.load(Ordering::Relaxed) {
                        return 0u64;
                    }
                    let mut seed = background.clone();
                    let mut n = 0u64;
                    for v in c * CHUNK..((c + 1) * CHUNK).min(total) {
                        deposit(&mut seed, lanes, v);
                        if seed.iter().all(|&b| b == 0) {
                            continue; // the all-zero seed is remapped: C08's business
                        }
                        n += 1;
                        let seed_ref = &seed;
                        let verdict: Result<Option<String>, ()> = std::panic::catch_unwind(std::panic::AssertUnwindSafe(|| {
                        let seed = seed_ref;
                        let mut g = T::from_seed(mk_seed::<T>(seed));
                        let (exp, succ): (u64, Vec<u8>) = if is_xs {
                            let mut s = refmodels::xor128::state_from_seed(&seed);
                            let r = refmodels::xor128::step(&mut s);
                            (r as u64, refmodels::xor128::seed_from_state(&s))
                        } else {
                            let k = kind.unwrap();
                            let mut s = refmodels::xoshiro::state_from_seed(k, &seed);
                            let r = if *use_u32 && k == Kind::SplitMix64 {
                                refmodels::xoshiro::splitmix64_next_u32(&mut s[0]) as u64
                            } else {
                                let r = refmodels::xoshiro::step(k, &mut s);
                                if *use_u32 && info.word_bits == 64 {
                                    match info.u32_proj {
                                        'h' => r >> 32,
                                        'l' => r & 0xffff_ffff,
                                        _ => unreachable!(),
                                    }
                                } else {
                                    r
                                }
                            };
                            (r, refmodels::xoshiro::seed_from_state(k, &s))
                        };
                        let got = if *use_u32 || info.word_bits == 32 { g.next_u32() as u64 } else { g.next_u64() };
                        let mut bad = None;
                        if got != exp {
                            bad = Some(format!("output {:#x} != reference {:#x}", got, exp));
                        } else if *check_state {
                            let mut e = T::from_seed(mk_seed::<T>(&succ));
                            if g.s_eq(&e) != Some(true) {
                                // `==` is another property's subject: decide on the following outputs
                                let words = 2 * info.seed_len / (info.word_bits / 8) + 4;
                                let differ = (0..words).any(|_| if info.word_bits == 32 { g.next_u32() != e.next_u32() } else { g.next_u64() != e.next_u64() });
                                if differ {
                                    bad = Some("successor state != reference successor".to_string());
                                }
                            }
                        }
                        bad
                        })).map_err(|_| ());
                        let bad = match verdict {
                            Ok(b) => b,
                            Err(()) => Some("the crate panicked on this input".to_string()),
                        };
                        if let Some(b) = bad {
                            stop.store(true, Ordering::Relaxed);
                            let mut f = failure.lock().unwrap();
                            if f.is_none() {
                                *f = Some((b, seed.clone()));
                            }
                            break;
                        }
                    }
                    n
                })
                .sum();
            let f = failure.into_inner().unwrap();
            SweepResult { elements: done, failure: f.as_ref().map(|x| x.0.clone()), failing_input: f.map(|x| x.1) }
        }
        SweepJob::U64Cube { base, shift, bits, check_expansion } => {
            let total: u64 = 1u64 << bits;
            let len = info.seed_len;
            let expansion: fn(u64, usize) -> Vec<u8> = match info.family {
                Family::Xoshiro => {
                    if kind == Some(Kind::SplitMix64) {
                        |x, _| x.to_le_bytes().to_vec()
                    } else {
                        refmodels::seeding::splitmix_expand
                    }
                }
                Family::XorShift | Family::Hc128 => refmodels::seeding::pcg32_expand,
                _ => return SweepResult::default(),
            };
            let zero: Option<T> = if info.linear_bits.is_some() { T::s_de(&vec![0u8; len]).and_then(|r| r.ok()) } else { None };
            let mask = if *bits == 64 { u64::MAX } else { ((1u64 << bits) - 1) << shift };
            let nchunks = (total + CHUNK - 1) / CHUNK;
            let done: u64 = (0..nchunks)
                .into_par_iter()
                .map(|c| {
                    if stop.load(Ordering::Relaxed) {
                        return 0u64;
                    }
                    let mut n = 0u64;
                    for v in c * CHUNK..((c + 1) * CHUNK).min(total) {
                        let x = (base & !mask) | (v << shift);
                        n += 1;
                        let verdict: Result<Option<String>, ()> = std::panic::catch_unwind(std::panic::AssertUnwindSafe(|| {
                        let g = T::seed_from_u64(x);
                        let mut bad = None;
                        if *check_expansion && g.s_eq(&T::from_seed(mk_seed::<T>(&expansion(x, len)))) != Some(true) {
                            bad = Some("seed_from_u64(x) != from_seed(documented expansion of x)".to_string());
                        } else if let Some(z) = &zero {
                            if g.s_eq(z) == Some(true) {
                                bad = Some("seed_from_u64(x) is the all-zero state".to_string());
                            }
                        }
                        bad
                        })).map_err(|_| ());
                        let bad = match verdict {
                            Ok(b) => b,
                            Err(()) => Some("the crate panicked on this input".to_string()),
                        };
                        if let Some(b) = bad {
                            stop.store(true, Ordering::Relaxed);
                            let mut f = failure.lock().unwrap();
                            if f.is_none() {
                                *f = Some((b, x.to_le_bytes().to_vec()));
                            }
                            break;
                        }
                    }
                    n
                })
                .sum();
            let f = failure.into_inner().unwrap();
            SweepResult { elements: done, failure: f.as_ref().map(|x| x.0.clone()), failing_input: f.map(|x| x.1) }
        }
    }
}

// ------------------------------------------------------------------------------------------------
// JitterRng over a scripted timer
// ------------------------------------------------------------------------------------------------
/// The timer of a scripted JitterRng: a cursor over shared readings. In `forking` mode a clone of
/// the cursor (made when the generator is cloned) is independent: same readings, same position.
pub struct Cursor {
    script: Arc<TimerScript>,
    forking: bool,
}

thread_local! {
    static LAST_FORK: std::cell::RefCell<Option<Arc<TimerScript>>> = const { std::cell::RefCell::new(None) };
}

impl Clone for Cursor {
    fn clone(&self) -> Cursor {
        let script = if self.forking { self.script.fork() } else { self.script.clone() };
        LAST_FORK.with(|l| *l.borrow_mut() = Some(script.clone()));
        Cursor { script, forking: self.forking }
    }
}

/// A cloneable closure-like timer (JitterRng needs `F: Fn() -> u64 + Send + Sync`, and `Clone` to
/// be cloneable); stable Rust cannot implement Fn for a struct, so the generator is generic over a
/// closure type produced by `timer_closure` and cloning goes through `Cursor::clone`.
fn timer_closure(c: Cursor) -> impl Fn() -> u64 + Send + Sync + Clone + 'static {
    // capture the whole Cursor (edition-2021 closures would otherwise capture only `c.script`, and
    // cloning the closure would bypass Cursor::clone)
    move || {
        let cur: &Cursor = &c;
        cur.script.read()
    }
}

pub struct JitterGen<F: Fn() -> u64 + Send + Sync + Clone + 'static> {
    rng: JitterRng<F>,
    script: Arc<TimerScript>,
    /// Display text of the error the last test_timer call returned
    last_err_text: Option<String>,
    /// duplicates the generator by plain copy if its type is `Copy` (decided where the concrete timer
    /// type is known, by autoref dispatch)
    copy_fn: Option<fn(&JitterRng<F>) -> Option<JitterRng<F>>>,
}

pub struct DefaultProbe<T>(pub PhantomData<T>);
pub trait ViaDefault<T> {
    fn get(&self) -> Option<T>;
}
impl<T: Default> ViaDefault<T> for DefaultProbe<T> {
    fn get(&self) -> Option<T> {
        Some(T::default())
    }
}
pub trait NoDefault<T> {
    fn get(&self) -> Option<T>;
}
impl<T> NoDefault<T> for &DefaultProbe<T> {
    fn get(&self) -> Option<T> {
        None
    }
}

/// autoref-based dispatch: `(&Dup(&x)).dup()` is a plain copy when `T: Copy`, None otherwise
pub struct Dup<'a, T>(pub &'a T);
pub trait DupViaCopy<T> {
    fn dup(&self) -> Option<T>;
}
impl<'a, T: Copy> DupViaCopy<T> for Dup<'a, T> {
    fn dup(&self) -> Option<T> {
        Some(*self.0)
    }
}
pub trait DupNone<T> {
    fn dup(&self) -> Option<T>;
}
impl<'a, T> DupNone<T> for &Dup<'a, T> {
    fn dup(&self) -> Option<T> {
        None
    }
}

impl<F: Fn() -> u64 + Send + Sync + Clone + 'static> JitterOps for JitterGen<F> {
    fn timer_stats(&mut self, var_rounds: bool) -> i64 {
        self.rng.timer_stats(var_rounds)
    }
    fn set_rounds(&mut self, rounds: u8) {
        self.rng.set_rounds(rounds)
    }
    fn test_timer(&mut self) -> TimerResult {
        use rand_jitter::TimerError as E;
        let res = self.rng.test_timer();
        self.last_err_text = res.as_ref().err().map(|e| e.to_string());
        match res {
            Ok(r) => TimerResult::Ok(r),
            Err(E::NoTimer) => TimerResult::NoTimer,
            Err(E::CoarseTimer) => TimerResult::CoarseTimer,
            Err(E::NotMonotonic) => TimerResult::NotMonotonic,
            Err(E::TinyVariations) => TimerResult::TinyVariations,
            Err(E::TooManyStuck) => TimerResult::TooManyStuck,
            Err(e) => TimerResult::Other(format!("{:?}", e)),
        }
    }
    fn pool(&self) -> u64 {
        self.rng.verif_pool()
    }
    fn set_pool(&mut self, v: u64) {
        self.rng.verif_set_pool(v)
    }
    fn stir(&mut self) {
        self.rng.verif_stir_pool()
    }
    fn half_pending(&self) -> bool {
        self.rng.verif_half_pending()
    }
    fn timer_consumed(&self) -> usize {
        self.script.consumed()
    }
    fn last_timer_error_display(&self) -> Option<String> {
        self.last_err_text.clone()
    }
}

impl<F: Fn() -> u64 + Send + Sync + Clone + 'static> Gen for JitterGen<F> {
    fn next_u32(&mut self) -> u32 {
        self.rng.next_u32()
    }
    fn next_u64(&mut self) -> u64 {
        self.rng.next_u64()
    }
    fn fill_bytes(&mut self, dest: &mut [u8]) {
        self.rng.fill_bytes(dest)
    }
    fn jump(&mut self) {
        panic!("jump not offered")
    }
    fn long_jump(&mut self) {
        panic!("long_jump not offered")
    }
    fn clone_box(&self) -> Box<dyn Gen> {
        LAST_FORK.with(|l| *l.borrow_mut() = None);
        let rng = self.rng.clone();
        // the cursor the cloned timer reads from (the clone of the closure cloned its Cursor)
        let script = LAST_FORK.with(|l| l.borrow_mut().take()).unwrap_or_else(|| self.script.clone());
        Box::new(JitterGen { rng, script, last_err_text: None, copy_fn: self.copy_fn })
    }
    fn bitwise_copy_box(&self) -> Option<Box<dyn Gen>> {
        let f = self.copy_fn?;
        let rng = f(&self.rng)?;
        Some(Box::new(JitterGen { rng, script: self.script.clone(), last_err_text: None, copy_fn: self.copy_fn }))
    }
    fn clone_from_dyn(&mut self, src: &dyn Gen) {
        let o = src.as_any().downcast_ref::<JitterGen<F>>().expect("clone_from across types");
        LAST_FORK.with(|l| *l.borrow_mut() = None);
        self.rng.clone_from(&o.rng);
        // if the timer was cloned, this generator now reads from the cloned cursor; if clone_from left
        // the old timer in place, it keeps reading from its own
        if let Some(sc) = LAST_FORK.with(|l| l.borrow_mut().take()) {
            self.script = sc;
        }
    }
    fn eq_dyn(&self, _other: &dyn Gen) -> Option<bool> {
        None
    }
    fn debug(&self, alternate: bool) -> String {
        if alternate {
            format!("{:#?}", self.rng)
        } else {
            format!("{:?}", self.rng)
        }
    }
    fn ser(&self) -> Option<Vec<u8>> {
        None
    }
    fn as_any(&self) -> &dyn Any {
        self
    }
    fn jitter(&mut self) -> Option<&mut dyn JitterOps> {
        Some(self)
    }
}

fn make_jitter(script: Arc<TimerScript>, forking: bool) -> Box<dyn Gen> {
    let timer = timer_closure(Cursor { script: script.clone(), forking });
    Box::new(JitterGen { rng: JitterRng::new_with_timer(timer), script, last_err_text: None, copy_fn: None })
}

/// Zero-sized timers: three distinct `fn` item types reading from process-wide script slots.
static ZST_SLOTS: [Mutex<Option<Arc<TimerScript>>>; 3] = [Mutex::new(None), Mutex::new(None), Mutex::new(None)];
fn zst_read(k: usize) -> u64 {
    let s = ZST_SLOTS[k].lock().unwrap().clone().expect("zst timer slot not set");
    s.read()
}
fn zst_timer_0() -> u64 {
    zst_read(0)
}
fn zst_timer_1() -> u64 {
    zst_read(1)
}
fn zst_timer_2() -> u64 {
    zst_read(2)
}
fn make_jitter_zst(slot: usize, script: Arc<TimerScript>) -> Box<dyn Gen> {
    *ZST_SLOTS[slot].lock().unwrap() = Some(script.clone());
    match slot {
        0 => Box::new(JitterGen { rng: JitterRng::new_with_timer(zst_timer_0), script, last_err_text: None, copy_fn: Some(|r| (&Dup(r)).dup()) }),
        1 => Box::new(JitterGen { rng: JitterRng::new_with_timer(zst_timer_1), script, last_err_text: None, copy_fn: Some(|r| (&Dup(r)).dup()) }),
        _ => Box::new(JitterGen { rng: JitterRng::new_with_timer(zst_timer_2), script, last_err_text: None, copy_fn: Some(|r| (&Dup(r)).dup()) }),
    }
}

// ------------------------------------------------------------------------------------------------
// registry
// ------------------------------------------------------------------------------------------------
fn xinfo(kind: Kind, has_jump: bool, u32_proj: char) -> TypeInfo {
    TypeInfo {
        name: kind.name(),
        krate: "rand_xoshiro",
        family: Family::Xoshiro,
        seed_len: kind.seed_len(),
        word_bits: kind.word_bits(),
        linear_bits: if kind.is_linear() { Some(kind.state_bits()) } else { None },
        has_jump,
        has_eq: true,
        has_serde: true,
        block_words: None,
        u32_proj,
        hides_state: false,
    }
}

macro_rules! xt {
    ($t:ty, $k:expr, $j:expr, $p:expr) => {
        Box::leak(Box::new(TypeOf::<$t> { info: xinfo($k, $j, $p), kind: Some($k), _p: PhantomData })) as &'static dyn GenType
    };
}

pub struct Reg {
    types: Vec<&'static dyn GenType>,
    cores: Vec<&'static dyn GenType>,
    cores_at_4: Vec<&'static dyn GenType>,
    jitter_info: TypeInfo,
}

impl Reg {
    pub fn new() -> Reg {
        let mut types: Vec<&'static dyn GenType> = vec![
            xt!(Xoroshiro64Star, Kind::Xoroshiro64Star, false, '-'),
            xt!(Xoroshiro64StarStar, Kind::Xoroshiro64StarStar, false, '-'),
            xt!(Xoroshiro128Plus, Kind::Xoroshiro128Plus, true, 'h'),
            xt!(Xoroshiro128PlusPlus, Kind::Xoroshiro128PlusPlus, true, 'l'),
            xt!(Xoroshiro128StarStar, Kind::Xoroshiro128StarStar, true, 'l'),
            xt!(Xoshiro128Plus, Kind::Xoshiro128Plus, true, '-'),
            xt!(Xoshiro128PlusPlus, Kind::Xoshiro128PlusPlus, true, '-'),
            xt!(Xoshiro128StarStar, Kind::Xoshiro128StarStar, true, '-'),
            xt!(Xoshiro256Plus, Kind::Xoshiro256Plus, true, 'h'),
            xt!(Xoshiro256PlusPlus, Kind::Xoshiro256PlusPlus, true, 'h'),
            xt!(Xoshiro256StarStar, Kind::Xoshiro256StarStar, true, 'h'),
            xt!(Xoshiro512Plus, Kind::Xoshiro512Plus, true, 'h'),
            xt!(Xoshiro512PlusPlus, Kind::Xoshiro512PlusPlus, true, 'h'),
            xt!(Xoshiro512StarStar, Kind::Xoshiro512StarStar, true, 'h'),
            xt!(SplitMix64, Kind::SplitMix64, false, 'm'),
        ];
        let mk = |name, krate, family, word_bits, linear_bits, has_eq, has_serde, block_words, hides| TypeInfo {
            name,
            krate,
            family,
            seed_len: if name == "XorShiftRng" { 16 } else { 32 },
            word_bits,
            linear_bits,
            has_jump: false,
            has_eq,
            has_serde,
            block_words,
            u32_proj: if family == Family::Isaac64 { 'b' } else { '-' },
            hides_state: hides,
        };
        types.push(Box::leak(Box::new(TypeOf::<XorShiftRng> {
            info: mk("XorShiftRng", "rand_xorshift", Family::XorShift, 32, Some(128), true, true, None, true),
            kind: None,
            _p: PhantomData,
        })));
        types.push(Box::leak(Box::new(TypeOf::<Hc128Rng> {
            info: mk("Hc128Rng", "rand_hc", Family::Hc128, 32, None, true, false, Some(16), true),
            kind: None,
            _p: PhantomData,
        })));
        types.push(Box::leak(Box::new(TypeOf::<IsaacRng> {
            info: mk("IsaacRng", "rand_isaac", Family::Isaac, 32, None, false, true, Some(256), true),
            kind: None,
            _p: PhantomData,
        })));
        types.push(Box::leak(Box::new(TypeOf::<Isaac64Rng> {
            info: mk("Isaac64Rng", "rand_isaac", Family::Isaac64, 64, None, false, true, Some(256), true),
            kind: None,
            _p: PhantomData,
        })));
        let cores: Vec<&'static dyn GenType> = vec![
            Box::leak(Box::new(CoreTypeOf::<Hc128Core, 0> { info: mk("Hc128Core", "rand_hc", Family::Core, 32, None, true, false, Some(16), true), _p: PhantomData })),
            Box::leak(Box::new(CoreTypeOf::<IsaacCore, 0> { info: mk("IsaacCore", "rand_isaac", Family::Core, 32, None, true, true, Some(256), true), _p: PhantomData })),
            Box::leak(Box::new(CoreTypeOf::<Isaac64Core, 0> { info: mk("Isaac64Core", "rand_isaac", Family::Core, 64, None, true, true, Some(256), true), _p: PhantomData })),
        ];
        // the same cores placed at an address that is 4 mod 8 (alignment-dependent comparisons / copies)
        let cores_at_4: Vec<&'static dyn GenType> = vec![
            Box::leak(Box::new(CoreTypeOf::<Hc128Core, 1> { info: mk("Hc128Core", "rand_hc", Family::Core, 32, None, true, false, Some(16), true), _p: PhantomData })),
            Box::leak(Box::new(CoreTypeOf::<IsaacCore, 1> { info: mk("IsaacCore", "rand_isaac", Family::Core, 32, None, true, true, Some(256), true), _p: PhantomData })),
        ];
        let jitter_info = TypeInfo {
            name: "JitterRng",
            krate: "rand_jitter",
            family: Family::Jitter,
            seed_len: 0,
            word_bits: 64,
            linear_bits: None,
            has_jump: false,
            has_eq: false,
            has_serde: false,
            block_words: None,
            u32_proj: 'b',
            hides_state: true,
        };
        Reg { types, cores, cores_at_4, jitter_info }
    }
}

impl Registry for Reg {
    fn types(&self) -> Vec<&'static dyn GenType> {
        self.types.clone()
    }
    fn core_types(&self) -> Vec<&'static dyn GenType> {
        self.cores.clone()
    }
    fn core_types_placed_at_4(&self) -> Vec<&'static dyn GenType> {
        self.cores_at_4.clone()
    }
    fn jitter(&self, script: Arc<TimerScript>) -> Box<dyn Gen> {
        make_jitter(script, false)
    }
    fn jitter_forking(&self, script: Arc<TimerScript>) -> Box<dyn Gen> {
        make_jitter(script, true)
    }
    fn jitter_zst(&self, slot: usize, script: Arc<TimerScript>) -> Box<dyn Gen> {
        make_jitter_zst(slot, script)
    }
    fn jitter_info(&self) -> &TypeInfo {
        &self.jitter_info
    }
    fn seed_type_format_probe(&self) -> (u64, Option<String>) {
        // Debug of the public seed wrapper type under every formatting flag combination of the probe set
        let mut n = 0u64;
        for fill in [0x00u8, 0xff, 0x5a] {
            let seed = rand_xoshiro::Seed512([fill; 64]);
            let r = std::panic::catch_unwind(|| {
                let mut total = 0usize;
                total += format!("{:?}", seed).len();
                total += format!("{:#?}", seed).len();
                total += format!("{:.0?}", seed).len();
                total += format!("{:.1?}", seed).len();
                total += format!("{:.63?}", seed).len();
                total += format!("{:.64?}", seed).len();
                total += format!("{:.65?}", seed).len();
                total += format!("{:.4096?}", seed).len();
                total += format!("{:200?}", seed).len();
                total += format!("{:<7.300?}", seed).len();
                total += format!("{:#.70?}", seed).len();
                total += format!("{:x?}", seed).len();
                total += format!("{:#X?}", seed).len();
                total += format!("{:+.2?}", seed).len();
                total
            });
            n += 14;
            if let Err(e) = r {
                let msg = e.downcast_ref::<String>().cloned().or_else(|| e.downcast_ref::<&str>().map(|s| s.to_string())).unwrap_or_else(|| "panic".into());
                return (n, Some(format!("formatting Seed512([{:#x}; 64]) with Debug panicked: {}", fill, msg)));
            }
            // the usual seed-type traits
            let mut s2 = seed.clone();
            if s2.as_ref().len() != 64 || s2.as_mut().len() != 64 || rand_xoshiro::Seed512::default().as_ref() != [0u8; 64] {
                return (n, Some("Seed512 as_ref / as_mut / default do not cover 64 bytes".into()));
            }
        }
        (n, None)
    }
    fn eq_ne_inconsistencies(&self) -> u64 {
        EQ_NE_INCONSISTENT.load(std::sync::atomic::Ordering::Relaxed)
    }
    fn eq_panics(&self) -> u64 {
        EQ_PANICS.load(std::sync::atomic::Ordering::Relaxed)
    }
    fn isaac_array_probe(&self) -> (u64, Option<String>) {
        fn probe<C: CoreSubject>(name: &str, flip: impl Fn(&mut C::Results, usize)) -> (u64, Option<String>)
        where
            C::Results: Clone + PartialEq,
        {
            let mut n = 0;
            let mut core = C::seed_from_u64(12345);
            let mut a = C::Results::default();
            core.generate(&mut a);
            let len = C::words(&a).len();
            for i in 0..len {
                let mut b = a.clone();
                n += 1;
                if !(a == b) {
                    return (n, Some(format!("{}: an array does not equal its clone", name)));
                }
                flip(&mut b, i);
                n += 1;
                if a == b {
                    return (n, Some(format!("{}: arrays differing in slot {} compare equal", name, i)));
                }
                flip(&mut b, i);
                n += 1;
                if !(a == b) {
                    return (n, Some(format!("{}: arrays equal again in slot {} compare unequal", name, i)));
                }
            }
            (n, None)
        }
        let (n1, f1) = probe::<IsaacCore>("IsaacArray<u32>", |r, i| r.as_mut()[i] ^= 0x8000_0001);
        if f1.is_some() {
            return (n1, f1);
        }
        let (n2, f2) = probe::<Isaac64Core>("IsaacArray<u64>", |r, i| r.as_mut()[i] ^= 0x8000_0000_0000_0001);
        (n1 + n2, f2)
    }
    fn source_inventory(&self) -> Vec<(String, String, usize)> {
        explore::inventory::scan("/repo")
    }
}

// compile-time facts for C19: every generator type is Send + Sync (JitterRng where its timer is)
#[allow(dead_code)]
fn assert_send_sync() {
    fn ss<T: Send + Sync>() {}
    ss::<Xoroshiro64Star>();
    ss::<Xoroshiro64StarStar>();
    ss::<Xoroshiro128Plus>();
    ss::<Xoroshiro128PlusPlus>();
    ss::<Xoroshiro128StarStar>();
    ss::<Xoshiro128Plus>();
    ss::<Xoshiro128PlusPlus>();
    ss::<Xoshiro128StarStar>();
    ss::<Xoshiro256Plus>();
    ss::<Xoshiro256PlusPlus>();
    ss::<Xoshiro256StarStar>();
    ss::<Xoshiro512Plus>();
    ss::<Xoshiro512PlusPlus>();
    ss::<Xoshiro512StarStar>();
    ss::<SplitMix64>();
    ss::<XorShiftRng>();
    ss::<Hc128Rng>();
    ss::<Hc128Core>();
    ss::<IsaacRng>();
    ss::<IsaacCore>();
    ss::<Isaac64Rng>();
    ss::<Isaac64Core>();
    ss::<JitterRng<fn() -> u64>>();
}

// ------------------------------------------------------------------------------------------------
// logging: rand_jitter's optional `log` feature is on in the harness build, with a logger that
// formats every record at every level, so that the argument expressions of the crate's log
// statements are evaluated in every check
// ------------------------------------------------------------------------------------------------
/// comparisons (`==` / `!=`) that panicked
pub static EQ_PANICS: std::sync::atomic::AtomicU64 = std::sync::atomic::AtomicU64::new(0);
/// comparisons in which `a != b` was not the negation of `a == b`
pub static EQ_NE_INCONSISTENT: std::sync::atomic::AtomicU64 = std::sync::atomic::AtomicU64::new(0);
pub static LOG_RECORDS: std::sync::atomic::AtomicU64 = std::sync::atomic::AtomicU64::new(0);
struct SinkLogger;
impl log::Log for SinkLogger {
    fn enabled(&self, _: &log::Metadata) -> bool {
        true
    }
    fn log(&self, record: &log::Record) {
        use std::fmt::Write;
        struct Null(usize);
        impl Write for Null {
            fn write_str(&mut self, s: &str) -> std::fmt::Result {
                self.0 += s.len();
                Ok(())
            }
        }
        let mut n = Null(0);
        let _ = write!(n, "{}", record.args());
        std::hint::black_box(n.0);
        LOG_RECORDS.fetch_add(1, std::sync::atomic::Ordering::Relaxed);
    }
    fn flush(&self) {}
}
static SINK: SinkLogger = SinkLogger;
pub fn install_logger() {
    let _ = log::set_logger(&SINK);
    log::set_max_level(log::LevelFilter::Trace);
}
