//! mc <ID> <quick|thorough>            run the check for one property
//! mc <ID> --replay <file>             re-execute one recorded violation without the explorer
//! mc solo ...                         (C19) run one instance history alone in this fresh process

use explore::evidence::{Ctx, Tier};
use explore::subject::Registry;

fn main() {
    let args: Vec<String> = std::env::args().collect();
    if args.len() < 3 {
        eprintln!("usage: mc <ID> <quick|thorough> | mc <ID> --replay <file>");
        std::process::exit(2);
    }
    explore::ops::install_quiet_panic_hook();
    subjects::install_logger();
    let reg = subjects::Reg::new();
    if args[1] == "solo" {
        std::process::exit(explore::checks::solo_main(&reg, &args[2..]));
    }
    if args[1] == "c18aux" {
        // write the value-directed seeds for the C18 corpus
        let seed: u64 = std::env::var("VERIF_SEED").ok().and_then(|s| s.parse::<i128>().ok()).map(|v| v as u64).unwrap_or(0);
        let v = explore::checks::c18aux::jump_special_seeds(&reg, seed);
        let mut text = String::new();
        for (t, op, s) in v {
            text.push_str(&format!("{} {} {}\n", t, op, explore::evidence::hex(&s)));
        }
        std::fs::write(&args[2], text).expect("write aux file");
        std::process::exit(0);
    }
    if args[1] == "rare-cache" {
        // precompute the reference-guided rare-event search (depends only on the reference models)
        let seed: u64 = std::env::var("VERIF_SEED").ok().and_then(|s| s.parse::<i128>().ok()).map(|v| v as u64).unwrap_or(0);
        for k in [explore::rare::Kind::Hc128, explore::rare::Kind::Isaac, explore::rare::Kind::Isaac64] {
            let (e, w) = explore::rare::events_for(k, seed, args.get(2).map(|s| s == "thorough").unwrap_or(false));
            println!("{:?}: {} events in {} reference words", k, e.len(), w);
        }
        std::process::exit(0);
    }
    if args[1] == "rare" {
        let kind = match args[2].as_str() { "hc" => explore::rare::Kind::Hc128, "isaac" => explore::rare::Kind::Isaac, _ => explore::rare::Kind::Isaac64 };
        let n: u64 = args[3].parse().unwrap();
        let t = std::time::Instant::now();
        let (ev, words) = explore::rare::find_events(kind, 0, n, 1 << 20, 4);
        println!("{} words in {:.1}s: {} events", words, t.elapsed().as_secs_f64(), ev.len());
        for e in ev { println!("  {} at {} value {:#x}", e.what, e.word_index, e.value); }
        std::process::exit(0);
    }
    let id = args[1].clone();
    if args[2] == "--replay" {
        let path = args.get(3).expect("replay file");
        std::process::exit(explore::replay::replay_file(&reg, &id, path));
    }
    let tier = match args[2].as_str() {
        "quick" => Tier::Quick,
        "thorough" => Tier::Thorough,
        t => {
            eprintln!("unknown tier {}", t);
            std::process::exit(2);
        }
    };
    let seed: u64 = std::env::var("VERIF_SEED").ok().and_then(|s| s.parse::<i128>().ok()).map(|v| v as u64).unwrap_or(0);
    if let Err(e) = refmodels::self_check_all() {
        eprintln!("MACHINERY-FAILURE reference model self-check failed: {}", e);
        std::process::exit(2);
    }
    let ctx = Ctx::new(&id, tier, seed);
    let r = std::panic::catch_unwind(std::panic::AssertUnwindSafe(|| explore::checks::run(&id, &reg as &dyn Registry, &ctx)));
    match r {
        Ok(Some(out)) => {
            let code = ctx.finish(out.level, out.keys);
            std::process::exit(code);
        }
        Ok(None) => {
            eprintln!("no check for {}", id);
            std::process::exit(2);
        }
        Err(_) => {
            eprintln!("MACHINERY-FAILURE the harness itself panicked while checking {}", id);
            std::process::exit(2);
        }
    }
}
