use rand_jitter::JitterRng;
use rand_core::RngCore;
use std::sync::{Arc, atomic::{AtomicU64, AtomicUsize, Ordering}};

#[test]
fn c13_ok0() {
    // deltas between probe readings alternate d, d+1 (variation 1 each probe) but need non-stuck etc.
    let n = Arc::new(AtomicUsize::new(0));
    let t = Arc::new(AtomicU64::new(1000));
    let n2 = n.clone();
    let timer = move || {
        let i = n2.fetch_add(1, Ordering::Relaxed);
        // reading schedule: 0 prime; then per probe 4 readings: time, lc, lc, time2
        let add = if i == 0 { 0 } else {
            let p = (i - 1) / 4; let k = (i - 1) % 4;
            if k == 3 { // time2 - time = delta_p ; make delta vary by +-1 but with non-constant 2nd diff
                // total from time to time2 = 3 increments; set this one so that sum = 50 + pattern
                let pat = [0u64, 1, 3, 2, 0, 1][p % 6];
                50 + pat*0 + (p as u64 % 2) 
            } else { 7 }
        };
        t.fetch_add(add, Ordering::Relaxed) + add
    };
    let mut rng = JitterRng::new_with_timer(timer);
    let r = rng.test_timer();
    println!("test_timer -> {:?} after {} readings", r, n.load(Ordering::Relaxed));
    if let Ok(r) = r { rng.set_rounds(r); }
}

#[test]
fn c14_overflow() {
    let n = Arc::new(AtomicUsize::new(0));
    let n2 = n.clone();
    let timer = move || {
        let i = n2.fetch_add(1, Ordering::Relaxed) as u64;
        let base = 1000 + i * i * i + 17 * i;
        if i >= 8 { base + (1u64 << 31) } else { base }
    };
    let mut rng = JitterRng::new_with_timer(timer);
    rng.set_rounds(3);
    let v = rng.next_u64();
    println!("{v:x}");
}
