#!/bin/bash
# tools/try_seed.sh <patch.diff> <tier> <ID> [<ID>...]   apply a seeded change to /repo, run checks, always revert
P=$1; TIER=$2; shift 2
cd /repo || exit 2
if ! git diff --quiet; then echo "/repo has uncommitted changes; refusing"; exit 2; fi
git apply "$P" || { echo "patch does not apply"; exit 2; }
trap 'git -C /repo checkout -- . ; git -C /repo clean -fdq -e target' EXIT
for id in "$@"; do
  out=$(/verif/check $id $TIER 2>&1); code=$?
  echo "== $id exit=$code"
  echo "$out" | grep -E "VIOLATION|KNOWN-FINDING|MACHINERY|violation\[|^C[0-9]+ " | head -8
done
