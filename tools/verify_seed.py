#!/usr/bin/env python3
"""Independently confirm one sub-agent change: baseline suite passes with it, the build with all
features works, the demonstration fails with it and passes without it. Runs in the property's own
scratch worktree (/tmp/wt/<id>), never in /repo. Writes /verif/seeded/<id>-<v>/ on success."""
import json, os, re, shutil, subprocess, sys

def sh(cmd, cwd, timeout=1800):
    r = subprocess.run(cmd, cwd=cwd, shell=True, capture_output=True, text=True, timeout=timeout)
    return r.returncode, r.stdout + r.stderr

def count_tests(out):
    passed = failed = 0
    for m in re.finditer(r'test result: \w+\. (\d+) passed; (\d+) failed', out):
        passed += int(m.group(1)); failed += int(m.group(2))
    return passed, failed

def main():
    pid, v = sys.argv[1], sys.argv[2]
    stage_root = sys.argv[3] if len(sys.argv) > 3 else '/tmp/seedstage'
    wt_root = sys.argv[4] if len(sys.argv) > 4 else '/tmp/wt'
    st = f'{stage_root}/{pid}/{v}'
    wt = f'{wt_root}/{pid}'
    rec = {'property': pid, 'variant': v, 'steps': []}
    def step(name, ok, detail=''):
        rec['steps'].append({'step': name, 'ok': ok, 'detail': detail[-600:]})
        return ok
    sh('git checkout -- . && git clean -fdq -e _out -e target', wt)
    head = open(f'{st}/demo.rs').readline()
    m = re.match(r'// place at (\S+) ; run: (.*)', head)
    place, run = m.group(1), m.group(2).strip()
    ok = True
    rc, out = sh(f'git apply --check {st}/patch.diff', wt)
    ok &= step('patch applies to clean HEAD', rc == 0, out)
    # demo on the unchanged tree
    os.makedirs(os.path.dirname(f'{wt}/{place}'), exist_ok=True)
    shutil.copy(f'{st}/demo.rs', f'{wt}/{place}')
    is_c18 = os.path.exists(f'{st}/compare.sh')
    if is_c18:
        rc, out = sh(f'sh {st}/compare.sh {wt}', wt)
        ok &= step('compare.sh on unchanged tree says SAME', 'SAME' in out and 'DIFFERENT' not in out, out)
    else:
        rc, out = sh(run, wt)
        p, f = count_tests(out)
        ok &= step('demo passes on unchanged tree', rc == 0 and f == 0 and p > 0, out)
    os.path.exists(f'{wt}/{place}') and os.remove(f'{wt}/{place}')
    # with the patch
    rc, out = sh(f'git apply {st}/patch.diff', wt)
    rc, out = sh('cargo test --workspace --offline --no-fail-fast', wt)
    p, f = count_tests(out)
    rec['baseline_with_patch'] = {'passed_incl_doctests': p, 'failed': f}
    ok &= step('existing suite passes with the patch', rc == 0 and f == 0 and p >= 49, out)
    rc, out = sh('cargo build --workspace --offline --all-features', wt)
    ok &= step('all-features build with the patch', rc == 0, out)
    shutil.copy(f'{st}/demo.rs', f'{wt}/{place}')
    if is_c18:
        rc, out = sh(f'sh {st}/compare.sh {wt}', wt)
        ok &= step('compare.sh with patch says DIFFERENT', 'DIFFERENT' in out, out)
    else:
        rc, out = sh(run, wt)
        p, f = count_tests(out)
        ok &= step('demo fails with the patch', rc != 0, out)
    os.path.exists(f'{wt}/{place}') and os.remove(f'{wt}/{place}')
    sh('git checkout -- . && git clean -fdq -e _out -e target', wt)
    rec['confirmed'] = bool(ok)
    dst = f'/verif/seeded/{pid}-{v}'
    os.makedirs(dst, exist_ok=True)
    shutil.copy(f'{st}/patch.diff', f'{dst}/patch.diff')
    shutil.copy(f'{st}/demo.rs', f'{dst}/demo.rs')
    if is_c18:
        shutil.copy(f'{st}/compare.sh', f'{dst}/compare.sh')
    meta = json.load(open(f'{st}/meta.json'))
    out = {'breaks_property': pid, 'variant': v,
           'summary': meta.get('summary'), 'needs_to_manifest': meta.get('needs_to_manifest'), 'why_existing_tests_pass': meta.get('why_tests_pass'),
           'demo': {'place_at': place, 'run': run},
           'independent_confirmation': rec, 'detected_by': None}
    json.dump(out, open(f'{dst}/meta.json', 'w'), indent=1)
    print(pid, v, 'CONFIRMED' if ok else 'NOT CONFIRMED', [s['step'] for s in rec['steps'] if not s['ok']])

main()
