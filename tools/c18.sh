#!/bin/bash
exec python3 /verif/tools/c18.py "$@"
