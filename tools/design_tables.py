#!/usr/bin/env python3
"""Regenerate the generated tables of DESIGN.md (between the BEGIN/END markers) from seeded/matrix.json,
seeded/*/meta.json and evidence/*.json."""
import json, glob, os, re

IDS = [f'C{i:02d}' for i in range(1, 20)]

def matrix_md():
    m = json.load(open('/verif/seeded/matrix.json'))
    lines = ['| change | what it does (needs to manifest) | quick checks that report it | first violation key of the owning check |', '|---|---|---|---|']
    for name in sorted(m):
        meta = json.load(open(f'/verif/seeded/{name}/meta.json'))
        row = m[name]
        det = [c for c in IDS if c in row and row[c]['exit'] == 1]
        und = [c for c in IDS if c in row and row[c]['exit'] not in (0, 1)]
        notrun = [c for c in IDS if c not in row]
        own = name.split('-')[0]
        key = (row[own]['keys'] or [''])[0]
        summ = (meta.get('summary') or '').replace('\n', ' ').replace('|', '/')
        need = (meta.get('needs_to_manifest') or '').replace('\n', ' ').replace('|', '/')
        text = summ[:170].rsplit(' ', 1)[0] + ' … — needs: ' + need[:150].rsplit(' ', 1)[0] + ' …'
        d = ', '.join(f'**{c}**' if c == own else c for c in det) or '—'
        if und:
            d += ' (undecided: ' + ', '.join(und) + ')'
        if notrun:
            d += f' (only {", ".join(c for c in IDS if c in row)} run)'
        lines.append(f'| {name} | {text} | {d} | `{key}` |')
    own_ok = sum(1 for n in m if m[n][n.split('-')[0]]['exit'] == 1)
    lines.append('')
    lines.append(f'{own_ok} of {len(m)} changes are reported by the check of the property they were written against (bold).')
    return '\n'.join(lines)

def cost_md():
    lines = ['| check | quick: states / transitions / traces-or-evaluations | wall (s) |', '|---|---|---|']
    for i in IDS:
        p = f'/verif/evidence/{i}.json'
        if not os.path.exists(p):
            continue
        e = json.load(open(p))
        c = e['coverage']
        lines.append(f"| {i} ({e['tier']}) | {c.get('states', c.get('evaluations'))} / {c.get('transitions', '-')} / {c.get('traces_validated_against_impl', c.get('evaluations'))} | {e['wall_s']:.1f} |")
    return '\n'.join(lines)

def main():
    p = '/verif/DESIGN.md'
    s = open(p).read()
    for tag, gen in [('SEED_MATRIX', matrix_md), ('QUICK_COST', cost_md)]:
        body = f'<!-- BEGIN {tag} -->\n{gen()}\n<!-- END {tag} -->'
        if f'{tag}_PLACEHOLDER' in s:
            s = s.replace(f'{tag}_PLACEHOLDER', body)
        else:
            s = re.sub(rf'<!-- BEGIN {tag} -->.*?<!-- END {tag} -->', lambda _m: body, s, flags=re.S)
    open(p, 'w').write(s)

main()
