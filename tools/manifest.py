#!/usr/bin/env python3
"""Regenerate /verif/MANIFEST.json from the table below. A property is claimed iff it is in BUILT."""
import json

BUILT = []  # filled below

CHECKS = {
    "C01": dict(
        engine="E2+E3",
        cat="model_checking",
        technique="exhaustive enumeration of structured seed alphabets and complete 2^24/2^32 sub-cubes in lock-step with a reference model; GF(2) transition matrix extracted from the code compared with the reference matrix and bound by weight<=2/3 conformance replay",
        text="Every non-zero seed of the alphabets O/W1/W2/WZ/BYTE, dense chained seeds, all carry-operand products and complete sub-cubes of each scrambler operand are stepped in lock-step with an independent transcription of the Blackman-Vigna C sources (output and successor state); for the 14 linear engines the transition matrix extracted from the implementation equals the reference matrix, which extends the step comparison to all 2^n states of the linear model.",
        note="reference models from the published sources, self-validated against published vectors on every run; linearity of the engine beyond weight 2 (quick) / 3 (thorough) for the all-states claim; scrambler inputs outside the enumerated sub-cubes are not covered for the 64-bit two-operand adders",
        ref="4/C01"),
    "C04": dict(
        engine="E3+E2", cat="model_checking",
        technique="128x128 GF(2) step matrix extracted from the code == xor128 reference matrix (all 2^128 states of the model), bound by exhaustive weight<=3 conformance replay; lock-step enumeration of seed alphabets, dense chains and complete sub-cubes",
        text="XorShiftRng is fully linear, so equality of the transition matrix extracted from the implementation with the matrix of Marsaglia's xor128 decides the step for every state; the model is bound to the code by replaying its predictions on every state of weight <= 3, walking zeros, all-ones and dense chains, and from_seed decoding is enumerated on every non-zero seed of O/W1/W2/WZ/BYTE in lock-step with the reference.",
        note="xor128 reference validated against the paper's outputs; algebraic terms of degree > 3 hidden from the replay are not excluded",
        ref="4/C04"),
    "C06": dict(
        engine="E3", cat="model_checking",
        technique="step, jump and long_jump matrices extracted from the code on all basis states; J = T^(2^(n/2)) and L = T^(2^(3n/4)) decided by repeated squaring for all 2^n states; exhaustive low-weight conformance replay and direct commutation checks on the real code",
        text="For each of the 12 jump-capable types the three GF(2) matrices are extracted from the implementation and the jump identities are decided on that model for every state; predictions are replayed on all weight-2 (and weight-3 where stated) states, and the linearity-free relations jump/step/long_jump commute are enumerated directly on the code.",
        note="linearity beyond the replayed weights; state image via the crates' serde feature validated by from_seed(image) == generator",
        ref="4/C06"),
    "C07": dict(
        engine="E3", cat="model_checking",
        technique="order of the GF(2) transition matrix extracted from the code: rank n, T^(2^n) = T, T^((2^n-1)/p) != I for all 13 prime factors; conformance replay binds the matrix to the code; collisions searched on the real code when binding fails",
        text="ord(T) = 2^n - 1 for the matrix extracted from the implementation is equivalent to the non-zero states forming one cycle of length 2^n - 1; it is decided for all 15 linear types (7 distinct engines) and the matrix is bound to the code by exhaustive low-weight replay. A singular or non-linear step is turned into a concrete colliding pair of states on the real code.",
        note="primality of the factors of 2^512-1 (Miller-Rabin 40 bases + product check each run); linearity beyond replayed weights",
        ref="4/C07"),
    "C02": dict(
        engine="E2", cat="model_checking",
        technique="exhaustive enumeration of structured seed alphabets (every 1-, 2- and 3-bit key/IV pattern, walking zeros, byte probes, dense chains) against a specification-level HC-128 model, over >2 table cycles and through both entry points",
        text="Every seed of Z/O/W1/W2/W3/WZ/BYTE and dense chained seeds is compared word by word with an independent transcription of Wu's specification (P/Q tables, one word per step) for 2200 words via Hc128Rng::next_u32 and 8 blocks via Hc128Core::generate; a subset runs 2^16..2^20 words; all 1024 (phase, j) step indices are confirmed exercised.",
        note="specification model validated against the paper's vectors each run; seeds outside the alphabet are not enumerated (the key/IV enter only through 16 copied words, every bit of which is toggled alone, in pairs and in triples)",
        ref="4/C02"),
    "C03": dict(
        engine="E2", cat="model_checking",
        technique="exhaustive enumeration of structured seed alphabets (1-, 2-, 3-bit patterns, byte probes, dense chains) against readable.c-style ISAAC / ISAAC-64 models over 3..4000 blocks; seed_from_u64(0) against the unseeded reference",
        text="Both generators are compared word by word with independent models of Jenkins' reference code for every seed of the alphabets over all 768 words of the first three blocks, for hundreds of blocks on a subset, and for the unseeded reference; all 256 values of both indirection indices are confirmed exercised.",
        note="models validated against reference vectors each run; seeds outside the alphabet not enumerated",
        ref="4/C03"),
    "C05": dict(
        engine="E1", cat="model_checking",
        technique="explicit-state BFS over all next_u32/next_u64/fill_bytes(n) histories up to a depth on the real code in product with a bookkeeping model, merged on (words consumed, half pending) after a state-equality check, from every buffer offset",
        text="All interleavings up to depth 4 (quick) / 6 (thorough) of the three output calls over 18-20 lengths are executed on the real generators from every start offset of a block; each returned value must be the stated projection of the words an identically seeded native-width twin returns, and the block+2 following words must continue the twin's stream.",
        note="word values come from the implementation twin (relational oracle); projections transcribed from the property; depth bound; JitterRng with scripted non-stuck timers only",
        ref="4/C05"),
    "C10": dict(
        engine="E1", cat="model_checking",
        technique="exhaustive enumeration of history states (depth 2-3, all start offsets, 3+k seeds); every state cloned and every pair of states compared with ==, equal pairs run under all continuations of depth 2",
        text="For 20 generator types and the three public cores, every reachable state of the bounded history space is cloned and the clone compared with a replayed original under all continuations; every pair of states (millions) is compared with == and equal pairs must have identical futures; IsaacArray equality is probed slot by slot.",
        note="bounded history depth and continuation depth; states rebuilt by replay (no reliance on Clone)",
        ref="4/C10"),
    "C11": dict(
        engine="E1", cat="model_checking",
        technique="snapshot (bincode) taken in every state of the bounded history space, at every point of a 600/1400-step history (crash-point sweep over every buffer index and half-word flag) and in the initial state of every alphabet seed; restored generator compared with a never-serialised replay",
        text="For the 18 serialisable types a snapshot is taken at every enumerated point; the restored generator must compare equal (where == exists) and return the same values under all continuations of depth 2 / for the next 300-600 words, and serialising must not disturb the original.",
        note="bincode 1.3.3 as format; bounded depth",
        ref="4/C11"),
    "C17": dict(
        engine="E1", cat="model_checking",
        technique="exhaustive enumeration of histories (depth 3-4, all start offsets) x 5 seeds: Debug texts compared pairwise across seeds and scanned for every state/buffer/output word taken from the implementation",
        text="{:?} and {:#?} of the eight state-hiding types are byte-identical across seeds for every enumerated history and contain none of the words of the state image, the seed, the pool or the next two blocks of output; JitterRng gives one single text over all histories, timers and pool values.",
        note="bounded depth; secret words >= 2^16 only (smaller values collide with the public index)",
        ref="4/C17"),
    "C08": dict(
        engine="E2+E4", cat="model_checking",
        technique="exhaustive enumeration of every constructor over structured seed alphabets, the u64 alphabet (incl. the SplitMix64 zero-output preimages), complete 2^22/2^32 sub-cubes of the u64 argument, and source scripts with 0..8 leading all-zero blocks",
        text="from_seed, seed_from_u64, from_rng and try_from_rng of the 14 linear xoshiro types and XorShiftRng never return the all-zero state on any enumerated input; the zero seed is replaced by the documented generator, an all-zero source block is remapped or redrawn, and every non-zero alphabet seed is used verbatim (state image == seed, hence injective).",
        note="documented replacement values; u64 arguments outside the alphabet and sub-cubes are not enumerated (the structural argument about SplitMix64 zero outputs is covered by including all eight preimages)",
        ref="4/C08"),
    "C09": dict(
        engine="E2+E4", cat="fault_enumeration",
        technique="exhaustive enumeration of (leading zero blocks, first failing source call, fault mode) for an instrumented TryRngCore source, of byte-probe source scripts, and of u64 arguments (alphabet, ranges, complete sub-cubes) against the documented expansions",
        text="For all 20 seedable types seed_from_u64(x) equals from_seed of the documented expansion, from_rng builds exactly the generator of the bytes the source delivered and leaves the source advanced by exactly one seed's worth (redraws for XorShiftRng only), and try_from_rng returns the same generator for a source that does not fail and the source's own error for every (failing call, fault mode) that precedes acceptance.",
        note="expansion models (SplitMix64, PCG32, ISAAC one/two-pass init) written independently; ISAAC generators compared by serde image of the fresh core",
        ref="4/C09"),
    "C12": dict(
        engine="E4xE1", cat="model_checking",
        technique="all operation histories up to depth 3/4 x every placement of <= 1 (short histories: 2) timer deviations of 12 kinds over the readings consumed, compared step by step (value, readings consumed, final pool) with a reference model of the documented procedure",
        text="JitterRng driven by scripted call-counting timers returns, for every enumerated history and deviation placement, exactly the values, reading counts and final pool of the documented Jitterentropy procedure run on the same readings; test_timer is included with a deviation at every 23rd / every one of its 1601 readings.",
        note="reference model in refmodels::jitter; more than 2 simultaneous deviations only as bursts in C14; rounds > 3 run without deviations",
        ref="4/C12"),
    "C13": dict(
        engine="E4", cat="model_checking",
        technique="exhaustive enumeration of complete 1601-reading timer scripts (every variation sum 1..6000 and every log2 boundary, threshold scripts, all periodic delta patterns of period <= 3/4) against an oracle computed from the statement",
        text="For every enumerated timer, Ok(r) is returned only when no documented failure condition holds, with 1 <= r <= 128, r*bitlen(mean) >= 128 and set_rounds(r) not panicking; every Err names a condition that holds on the script. Every table value of r and every TimerError variant is observed.",
        note="conditions computed from the readings on the documented schedule (confirmed on the run); genuine defect fixed in 048a21d (Ok(0) for mean 1)",
        ref="4/C13"),
    "C14": dict(
        engine="E1+E2+E4", cat="model_checking",
        technique="panic oracle (catch_unwind in an overflow-checked build) over all histories to depth 3/4, every fill length, long block runs, all constructors on their alphabets incl. failing sources, and for JitterRng every single deviation and all 12^3 three-probe bursts of extreme deltas",
        text="No enumerated operation of any generator panics, overflows or indexes out of bounds; JitterRng survives every single timer deviation and every burst of three extreme consecutive probe deltas in collections and in test_timer.",
        note="set_rounds(0) (documented panic) not driven; counter wrap at 2^64 out of reach; genuine defect fixed in 8a4c6ed (i32 subtraction overflow in the stuck test)",
        ref="4/C14"),
    "C15": dict(
        engine="E3", cat="model_checking",
        technique="affine GF(2) models of the LFSR fold (pool x time), the stir step and six whole-collection maps extracted from the code through the pool hook; ranks decided on the model; conformance replay on all inputs of weight <= 2/3; colliding inputs solved for and confirmed on the real code when the model does not bind",
        text="rank 64 of the pool part and of the time part of the fold, of the stir step and of every pool->output collection map means each is one-to-one for all 2^64 values; the models are bound to the code by exhaustive low-weight replay, and a non-linear or rank-deficient mixer is reported with two concrete colliding inputs.",
        note="hook (feature rngs_verif) reads/writes the pool; linearity beyond replayed weights",
        ref="4/C15"),
    "C16": dict(
        engine="E1xE4", cat="model_checking",
        technique="all histories of depth 4/5 over output calls and clone operations for rounds 1,2,3,64,255 on scripted non-stuck timers; each step checked for its value against a native-width twin and for the number of timer readings on the generator's own cursor",
        text="Two consecutive next_u32 return low then high half of one collected value with the timer read only during the first; every other output call performs a fresh collection of the expected number of readings; a clone's first output always comes from a fresh collection. The one literal deviation (fill_bytes of 1..4 bytes with a half pending reuses the half, by design of the crate) is a recorded known finding.",
        note="non-stuck scripted timers; clones get an identical timer (independent cursor); known finding C16:fill-tail-reuses-pending-half",
        ref="4/C16"),
    "C18": dict(
        engine="E6", cat="exploration",
        technique="complete configuration matrix {opt 0,3} x {overflow-checks+debug-assertions on,off} x {serde on,off}: the same enumerated corpus (histories, constructors, jumps, scripted-timer JitterRng incl. hostile timers) replayed by the same source in all 8 builds, per-item digests compared",
        text="Every item of a fixed enumerated corpus (all histories to depth 2/3 over the output alphabet from 4 seeds and 2 buffer offsets for 19 types, byte-probe and pair-of-bits seeds, u64 ranges, long runs, JitterRng deviations/bursts/test_timer patterns) produces the same digest - or the same panic - in all 8 build configurations.",
        note="corpus is finite and fixed; configurations are the complete matrix stated in the property; the serde axis only changes what is compiled",
        ref="4/C18"),
    "C19": dict(
        engine="E5", cat="model_checking",
        technique="exhaustive enumeration of operation-granularity interleavings x thread assignments of 2-3 generator instances on real OS threads under a token-passing scheduler; oracle = the same instance history run alone in a fresh child process; Send/Sync by a compile-time probe",
        text="For 176 configurations (same-type seed pairs incl. zero seeds, cross-type pairs, zero seeds of increasing state size, JitterRng pairs incl. test_timer, three-instance runs) every interleaving of the [construct, op, op] histories and every assignment of steps to two threads is executed; each instance's observations equal its solo run in a fresh process. All generator types are Send + Sync (compile-time probe).",
        note="operation granularity is complete because no generator path contains a synchronisation operation (inventory printed); JitterRng::new() (wall clock) excluded; schedules are serialised, so the memory model is not exercised",
        ref="4/C19"),
}

PLAN_REASON = "check not built yet (work in progress; DESIGN.md section 4 has the plan)"


def main():
    ids = [json.loads(l)['id'] for l in open('/verif/properties.jsonl')]
    built = [i for i in ids if i in CHECKS and CHECKS[i].get('built', True)]
    checks = []
    for i in built:
        c = CHECKS[i]
        checks.append({
            "property_id": i,
            "quick_cmd": f"./check {i} quick",
            "thorough_cmd": f"./check {i} thorough",
            "evidence_file": f"/verif/evidence/{i}.json",
            "replay_cmd_template": f"./check {i} --replay {{path}}",
            "engine": c["engine"],
            "level_claimed": {"category": c["cat"], "text": c["text"], "design_ref": "DESIGN.md section " + c["ref"]},
            "level_note": c["note"],
            "technique": c["technique"],
        })
    m = {
        "version": 1,
        "setup_cmd": "./setup.sh",
        "hooks": {
            "guard": "cargo feature rngs_verif (crate rand_jitter)",
            "enable": "the harness depends on rand_jitter by path with features = [\"rngs_verif\"] (harness/subjects/Cargo.toml); no RUSTFLAGS needed",
            "baseline_off_cmd": "cd /repo && cargo test --workspace --no-fail-fast --offline",
            "source_commits": ["3c40075"],
            "add_only": True,
        },
        "engines": [
            {"name": "E1 product explorer (operation histories x bookkeeping model)", "path": "harness/explore/src/checks", "serves_properties": ["C05", "C10", "C11", "C16", "C17"], "kind_free_text": "explicit-state BFS over histories on the real code, merged on an abstract key after a convergence check"},
            {"name": "E2 alphabet / sub-cube enumerator", "path": "harness/subjects/src/lib.rs (sweep), harness/explore/src/alphabet.rs", "serves_properties": ["C01", "C02", "C03", "C04", "C08", "C09"], "kind_free_text": "complete enumeration of finite structured input spaces against reference models"},
            {"name": "E3 linear-model extraction + conformance replay", "path": "harness/explore/src/linear.rs, harness/refmodels/src/gf2.rs", "serves_properties": ["C01", "C04", "C06", "C07", "C15"], "kind_free_text": "GF(2) model extracted from the implementation, decided algebraically for all states, bound to the code by exhaustive low-weight replay"},
            {"name": "E4 environment-deviation explorer", "path": "harness/explore/src/checks", "serves_properties": ["C08", "C09", "C12", "C13", "C14", "C16"], "kind_free_text": "all placements of <=d deviations from a benign timer / source script"},
            {"name": "E5 schedule explorer", "path": "harness/explore/src/checks/c19.rs", "serves_properties": ["C19"], "kind_free_text": "all operation-granularity interleavings x thread assignments on real OS threads"},
            {"name": "E6 configuration matrix", "path": "harness/c18_replay, tools/c18.sh", "serves_properties": ["C18"], "kind_free_text": "same corpus replayed in all 8 build configurations"},
        ],
        "checks": checks,
        "notes": "All checks are run by ./check <ID> <tier>, which rebuilds the harness against /repo's working tree (path dependencies). exit 0 held / 1 violation / 2 machinery failure. known_findings.json lists recorded findings and fixed defects.",
        "not_applicable": [{"property_id": i, "reason": PLAN_REASON} for i in ids if i not in built],
    }
    json.dump(m, open('/verif/MANIFEST.json', 'w'), indent=1)
    print("claimed:", built)


if __name__ == '__main__':
    main()
