#!/usr/bin/env python3
"""Regenerate /verif/MANIFEST.json from the table below. A property is claimed iff it is in BUILT."""
import json

BUILT = []  # filled below

CHECKS = {
    "C01": dict(
        engine="E2+E3",
        cat="model_checking",
        technique="exhaustive enumeration of structured seed alphabets and complete 2^24/2^32 sub-cubes in lock-step with a reference model; GF(2) transition matrix extracted from the code compared with the reference matrix and bound by weight<=2/3 conformance replay",
        text="Every non-zero seed of the alphabets O/W1/W2/WZ/BYTE, dense chained seeds, all carry-operand products and complete sub-cubes of each scrambler operand are stepped in lock-step with an independent transcription of the Blackman-Vigna C sources (output and successor state); for the 14 linear engines the transition matrix extracted from the implementation equals the reference matrix, which extends the step comparison to all 2^n states of the linear model. Added since: value-directed states (reference scramblers inverted for outputs 0 / all ones / half-zero; T^k preimages of special states for k = 255, 256, 65535, 65536; SplitMix64 counters -j*PHI), operands on which a multiplication split into partial products has a deciding carry (first and second stage of the * and ** scramblers), lock-step chains of 2^17+64 steps. Rounds 5-6: SplitMix64 counters for which an intermediate value of either finaliser (after each xor-shift and multiply) is zero / small / just above 2^32 or 2^33 / all ones, both output widths compared with the reference. Round 7: a second, lighter pass in a plain optimised build of the harness (no overflow checks, no debug assertions): code behind cfg!(debug_assertions) exists in only one of the two builds. Round 8: operands whose first partial product of the ** scramblers is special (zero / all ones / 2^32 boundary), solved by inverting the odd multipliers.",
        note="reference models from the published sources, self-validated against published vectors on every run; linearity of the engine beyond weight 2 (quick) / 3 (thorough) for the all-states claim; scrambler inputs outside the enumerated sub-cubes are not covered for the 64-bit two-operand adders",
        ref="4/C01"),
    "C04": dict(
        engine="E3+E2", cat="model_checking",
        technique="128x128 GF(2) step matrix extracted from the code == xor128 reference matrix (all 2^128 states of the model), bound by exhaustive weight<=3 conformance replay; lock-step enumeration of seed alphabets, dense chains and complete sub-cubes",
        text="XorShiftRng is fully linear, so equality of the transition matrix extracted from the implementation with the matrix of Marsaglia's xor128 decides the step for every state; the model is bound to the code by replaying its predictions on every state of weight <= 3, walking zeros, all-ones and dense chains, and from_seed decoding is enumerated on every non-zero seed of O/W1/W2/WZ/BYTE in lock-step with the reference. Added since: states whose image or next output is special (solved on the reference matrix), T^k preimages for k around 2^8 and 2^16, 2^20-step chains. Round 7: second pass in the plain build (see C01); verdicts about states are confirmed on outputs, not on == or the snapshot layout.",
        note="xor128 reference validated against the paper's outputs; algebraic terms of degree > 3 hidden from the replay are not excluded",
        ref="4/C04"),
    "C06": dict(
        engine="E3", cat="model_checking",
        technique="step, jump and long_jump matrices extracted from the code on all basis states; J = T^(2^(n/2)) and L = T^(2^(3n/4)) decided by repeated squaring for all 2^n states; exhaustive low-weight conformance replay and direct commutation checks on the real code",
        text="For each of the 12 jump-capable types the three GF(2) matrices are extracted from the implementation and the jump identities are decided on that model for every state; predictions are replayed on all weight-2 (and weight-3 where stated) states, and the linearity-free relations jump/step/long_jump commute are enumerated directly on the code. Added since: states whose jump / long_jump image has a special word pattern (zero word, equal words, sum zero), solved on the extracted matrices and replayed on the code. Rounds 5-6: the jump polynomial is recovered from the extracted step matrix; states are solved so that (a) the accumulator after every word boundary of the polynomial and (b) the running state T^i s at every step i = 1..n-1 has a special word pattern, and jump / long_jump from them are compared with the matrix power. Round 8: states that jump / long_jump leave unchanged in one word (kernel of a word row of J xor I), solved on the extracted matrices and replayed; a jump that panics counts only where stepping from the same state does not; the commutation relations are decided on the next 8 outputs and still run (on from_seed objects) when no state can be injected.",
        note="linearity beyond the replayed weights; state image via the crates' serde feature validated by from_seed(image) == generator",
        ref="4/C06"),
    "C07": dict(
        engine="E3", cat="model_checking",
        technique="order of the GF(2) transition matrix extracted from the code: rank n, T^(2^n) = T, T^((2^n-1)/p) != I for all 13 prime factors; conformance replay binds the matrix to the code; collisions searched on the real code when binding fails",
        text="ord(T) = 2^n - 1 for the matrix extracted from the implementation is equivalent to the non-zero states forming one cycle of length 2^n - 1; it is decided for all 15 linear types (7 distinct engines) and the matrix is bound to the code by exhaustive low-weight replay. A singular or non-linear step is turned into a concrete colliding pair of states on the real code. Added since: the API clause checked directly (from_seed alphabet, seed_from_u64 over the u64 alphabet incl. SplitMix64 zero-output preimages, from_rng over sources with up to 65536 leading all-zero blocks never yield the zero state), value-directed deep states. Rounds 5-6: the API clause also over try_from_rng. Round 7: a seedless constructor (Default), if the type has one, is checked like every other seeding path. Round 8: the stepping clause is also checked directly: no enumerated non-zero state (alphabets, value-directed states, API results) reaches the zero state within 4 steps.",
        note="primality of the factors of 2^512-1 (Miller-Rabin 40 bases + product check each run); linearity beyond replayed weights",
        ref="4/C07"),
    "C02": dict(
        engine="E2", cat="model_checking",
        technique="exhaustive enumeration of structured seed alphabets (every 1-, 2- and 3-bit key/IV pattern, walking zeros, byte probes, dense chains) against a specification-level HC-128 model, over >2 table cycles and through both entry points",
        text="Every seed of Z/O/W1/W2/W3/WZ/BYTE and dense chained seeds is compared word by word with an independent transcription of Wu's specification (P/Q tables, one word per step) for 2200 words via Hc128Rng::next_u32 and 8 blocks via Hc128Core::generate; a subset runs 2^16..2^20 words; all 1024 (phase, j) step indices are confirmed exercised. Added since: reference-guided rare-event search (the reference model is run over 2^14 / 2^16 seeds x 2^20 words; every position with two equal successive words, a zero / all-ones word or four equal low bytes is then visited in lock-step on the real code), 2^21-word runs. Rounds 5-6: the rare-event search also records steps whose table increment is zero and steps whose h-index word has its upper 24 bits zero. Round 7: second pass in the plain build (see C01).",
        note="specification model validated against the paper's vectors each run; seeds outside the alphabet are not enumerated (the key/IV enter only through 16 copied words, every bit of which is toggled alone, in pairs and in triples)",
        ref="4/C02"),
    "C03": dict(
        engine="E2", cat="model_checking",
        technique="exhaustive enumeration of structured seed alphabets (1-, 2-, 3-bit patterns, byte probes, dense chains) against readable.c-style ISAAC / ISAAC-64 models over 3..4000 blocks; seed_from_u64(0) against the unseeded reference",
        text="Both generators are compared word by word with independent models of Jenkins' reference code for every seed of the alphabets over all 768 words of the first three blocks, for hundreds of blocks on a subset, and for the unseeded reference; all 256 values of both indirection indices are confirmed exercised. Added since: the same comparison through the bare block cores IsaacCore / Isaac64Core, 2^14 / 2^18-block runs, and lock-step through the rare events found on the reference models. Round 9: the reference ISAAC step also records value coincidences inside a step (a looked-up word equal to the old word of the rewritten slot in another slot, an unchanged rewrite, equal or zero look-ups, a zero accumulator; about 2^-32 per step each), visited in lock-step like the stream events; the ISAAC-64 reference step records the analogous 32-bit-half coincidences.",
        note="models validated against reference vectors each run; seeds outside the alphabet not enumerated",
        ref="4/C03"),
    "C05": dict(
        engine="E1", cat="model_checking",
        technique="explicit-state BFS over all next_u32/next_u64/fill_bytes(n) histories up to a depth on the real code in product with a bookkeeping model, merged on (words consumed, half pending) after a state-equality check, from every buffer offset",
        text="All interleavings up to depth 4 (quick) / 6 (thorough) of the three output calls over 18-20 lengths are executed on the real generators from every start offset of a block; each returned value must be the stated projection of the words an identically seeded native-width twin returns, and the block+2 following words must continue the twin's stream. Added since: depth 2 from every buffer index of the block generators (with and without a pending half), destinations that do not start on a word boundary (fill_bytes into a misaligned slice), bulk lengths 8192 / 8197, starts 1000 / 65536 blocks deep and at call counts around 2^8 / 2^16, starts right before rare stream events, JitterRng with value-directed pools, coarse clocks and long runs of stuck measurements. Rounds 5-6: value-directed projection starts (carry- and multiplication-boundary operands of the scramblers), every one- and two-bit state of the generators with n <= 128 bits, JitterRng with rounds 127..255, requests of 64 KiB+3 and 1 MiB+5 bytes. Round 8: call paths that reach one stream position but do not compare equal are kept as separate states and explored further (their outputs decide; a failed == is C10's).",
        note="word values come from the implementation twin (relational oracle); projections transcribed from the property; depth bound; JitterRng with scripted non-stuck timers only",
        ref="4/C05"),
    "C10": dict(
        engine="E1", cat="model_checking",
        technique="exhaustive enumeration of history states (depth 2-3, all start offsets, 3+k seeds); every state cloned and every pair of states compared with ==, equal pairs run under all continuations of depth 2",
        text="For 20 generator types and the three public cores, every reachable state of the bounded history space is cloned and the clone compared with a replayed original under all continuations; every pair of states (millions) is compared with == and equal pairs must have identical futures; IsaacArray equality is probed slot by slot. Added since: Clone::clone_from into a fresh generator and into a generator in another state, states at every buffer index, serde-image neighbours (every single-byte change of a state's image: a neighbour that compares equal must have the same future), native-width twins, clones around call counts 2^8 / 2^16, clones at rare stream events, 2^17 / 2^18-state birthday pair sets for Hc128Core. Rounds 5-6: every == is accompanied by != (must be its negation); block cores keep a persistent results buffer for word reads, get a fresh one per block in fill_bytes, and a clone starts with a fresh buffer. Round 7: comparisons that panic inside the crate are reported, not crashed on. Round 8: the block cores are also placed at an address that is 4 but not 8 modulo 8 (a wrapper with a leading u32), so clones / comparisons of cores are exercised at both alignments; the all-pairs sweep has a wall budget (240 s quick / 1 h thorough), a cut is reported as a cap with the pairs actually compared.",
        note="bounded history depth and continuation depth; states rebuilt by replay (no reliance on Clone)",
        ref="4/C10"),
    "C11": dict(
        engine="E1", cat="model_checking",
        technique="snapshot (bincode) taken in every state of the bounded history space, at every point of a 600/1400-step history (crash-point sweep over every buffer index and half-word flag) and in the initial state of every alphabet seed; restored generator compared with a never-serialised replay",
        text="For the 18 serialisable types a snapshot is taken at every enumerated point; the restored generator must compare equal (where == exists) and return the same values under all continuations of depth 2 / for the next 300-600 words, and serialising must not disturb the original. Added since: generators restored from edited images (every byte xor 0x01/0x80 and a zero / all-ones word at every byte offset of the image of three states per type): the restored generator is itself a serialisable generator and must survive a further snapshot/restore with the same future; snapshots around call counts 2^8 / 2^16 and at rare stream events; after 2^32 words (thorough). Rounds 5-6: every snapshot also through serde_json, restored in place (deserialize_in_place) into a fresh generator and one in another state, two snapshots read back from one stream, a snapshot of a restored generator; the bare cores too; generators restored from edited images are advanced across a block boundary and snapshotted again.",
        note="bincode 1.3.3 as format; bounded depth",
        ref="4/C11"),
    "C17": dict(
        engine="E1", cat="model_checking",
        technique="exhaustive enumeration of histories (depth 3-4, all start offsets) x 5 seeds: Debug texts compared pairwise across seeds and scanned for every state/buffer/output word taken from the implementation",
        text="{:?} and {:#?} of the eight state-hiding types are byte-identical across seeds for every enumerated history and contain none of the words of the state image, the seed, the pool or the next two blocks of output; JitterRng gives one single text over all histories, timers and pool values. Added since: 68 timers with one deviation (17 kinds x 4 positions), runs of 1..1030 stuck measurements, value-directed pools, states at every buffer index, Debug text at rare stream events against another seed at the same position. Rounds 5-6: XorShiftRng states that have, or reach within two steps, a special word pattern. Round 8: two generators of one type with different seeds at the same buffer position after different numbers of generated blocks must print the same text.",
        note="bounded depth; secret words >= 2^16 only (smaller values collide with the public index)",
        ref="4/C17"),
    "C08": dict(
        engine="E2+E4", cat="model_checking",
        technique="exhaustive enumeration of every constructor over structured seed alphabets, the u64 alphabet (incl. the SplitMix64 zero-output preimages), complete 2^22/2^32 sub-cubes of the u64 argument, and source scripts with 0..8 leading all-zero blocks",
        text="from_seed, seed_from_u64, from_rng and try_from_rng of the 14 linear xoshiro types and XorShiftRng never return the all-zero state on any enumerated input; the zero seed is replaced by the documented generator, an all-zero source block is remapped or redrawn, and every non-zero alphabet seed is used verbatim (state image == seed, hence injective). Added since: up to 65536 (2^18 thorough) leading all-zero source blocks, seeds and blocks made of the documented replacement constants, u64 arguments obtained by inverting SplitMix64 so that an expansion word is zero / half-zero / all ones. Rounds 5-6: source blocks with special word patterns (zero word, equal words, words summing / xoring to zero). Round 7: Default::default() where it exists; the verbatim comparison is made only where the snapshot is the plain state.",
        note="documented replacement values; u64 arguments outside the alphabet and sub-cubes are not enumerated (the structural argument about SplitMix64 zero outputs is covered by including all eight preimages)",
        ref="4/C08"),
    "C09": dict(
        engine="E2+E4", cat="fault_enumeration",
        technique="exhaustive enumeration of (leading zero blocks, first failing source call, fault mode) for an instrumented TryRngCore source, of byte-probe source scripts, and of u64 arguments (alphabet, ranges, complete sub-cubes) against the documented expansions",
        text="For all 20 seedable types seed_from_u64(x) equals from_seed of the documented expansion, from_rng builds exactly the generator of the bytes the source delivered and leaves the source advanced by exactly one seed's worth (redraws for XorShiftRng only), and try_from_rng returns the same generator for a source that does not fail and the source's own error for every (failing call, fault mode) that precedes acceptance. Added since: the three public block cores as seedable types of their own, up to 65536 leading zero blocks, partial-write fault mode, documented-constant blocks. Rounds 5-6: special-pattern source blocks; every generator type seeded from every generator type of the crates (from_rng(&mut parent)), child and parent both compared with twins; ISAAC generators identified independently of the serde layout. Round 8: bare cores whose snapshot has another layout are compared on behaviour (two generated blocks against the reference).",
        note="expansion models (SplitMix64, PCG32, ISAAC one/two-pass init) written independently; ISAAC generators compared by serde image of the fresh core",
        ref="4/C09"),
    "C12": dict(
        engine="E4xE1", cat="model_checking",
        technique="all operation histories up to depth 3/4 x every placement of <= 1 (short histories: 2) timer deviations of 16 kinds over the readings consumed, runs of up to 4097 / 65537 consecutive stuck measurements, compared step by step (value, readings consumed, final pool) with a reference model of the documented procedure",
        text="JitterRng driven by scripted call-counting timers returns, for every enumerated history and deviation placement, exactly the values, reading counts and final pool of the documented Jitterentropy procedure run on the same readings; test_timer is included with a deviation at every 23rd / every one of its 1601 readings. Added since: 16 deviation kinds (incl. probe deltas that are non-zero multiples of 2^32, ties at the priming probe), runs of 1..4097 (65537 thorough) consecutive stuck measurements of three kinds at every measurement of the first two collections, coarse clocks (granularity 2, 100, 1000, 2^20), one object living through 2^16+8 collections. Rounds 5-6: test_timer in the middle of a stream (a half pending across it, twice in a row, after set_rounds) with deviations. Round 7: time stamps that return to earlier values (all sequences of four probe deltas over {-2b..2b}), start pools (hook) for which a fold / a whole collection leaves the pool unchanged or the second word repeats the first (solved on the reference model); second pass in the plain build.",
        note="reference model in refmodels::jitter; more than 2 simultaneous deviations only as bursts in C14; rounds > 3 run without deviations",
        ref="4/C12"),
    "C13": dict(
        engine="E4", cat="model_checking",
        technique="exhaustive enumeration of complete 1601-reading timer scripts (every variation sum 1..6000 and every log2 boundary, threshold scripts, all periodic delta patterns of period <= 3/4) against an oracle computed from the statement",
        text="For every enumerated timer, Ok(r) is returned only when no documented failure condition holds, with 1 <= r <= 128, r*bitlen(mean) >= 128 and set_rounds(r) not panicking; every Err names a condition that holds on the script. Every table value of r and every TimerError variant is observed. Added since: threshold families straddling every limit (stuck 270/271 incl. ties that exist only in wrapping 32-bit arithmetic, multiples of 100 on backward probes and with raw 2^32 offsets, backward counts, variation sums around 600 and 4800 on the (stuck, sum) grid), each also after a previous test_timer / next_u64 on the same object. Rounds 5-6: staircase scripts (every delta repeated r times then stepped), and the Display text of a returned error must not name a documented condition that does not hold. Round 7: differences of 2^63 and more inside a probe, a counter that wraps around inside a probe, variation sums 4560..4860 with 1..3 backward probes. Round 8: every script also after a previous successful test_timer on a healthy timer on the same object.",
        note="conditions computed from the readings on the documented schedule (confirmed on the run); genuine defect fixed in 048a21d (Ok(0) for mean 1)",
        ref="4/C13"),
    "C14": dict(
        engine="E1+E2+E4", cat="model_checking",
        technique="panic oracle (catch_unwind in an overflow-checked build) over all histories to depth 3/4, every fill length, long block runs, all constructors on their alphabets incl. failing sources, and for JitterRng every single deviation and all 12^3 three-probe bursts of extreme deltas",
        text="No enumerated operation of any generator panics, overflows or indexes out of bounds; JitterRng survives every single timer deviation and every burst of three extreme consecutive probe deltas in collections and in test_timer. Added since: rand_jitter's log feature is on with a logger that formats every record, so the argument expressions of the crate's log statements are evaluated; states that have, or whose successor / jump image has, a special word pattern (reference matrices); long stuck runs; a JitterRng life of 2^16+8 collections with a clone; 2^18 / 2^22-block runs; re-entrant and failing sources. Rounds 5-6: Debug of the Seed512 wrapper under 14 formatting-flag combinations; rounds 254 / 255 with every deviation kind at the first measurements; rand_jitter's std feature is on.",
        note="set_rounds(0) (documented panic) not driven; counter wrap at 2^64 out of reach; genuine defect fixed in 8a4c6ed (i32 subtraction overflow in the stuck test)",
        ref="4/C14"),
    "C15": dict(
        engine="E3", cat="model_checking",
        technique="affine GF(2) models of the LFSR fold (pool x time), the stir step and six whole-collection maps extracted from the code through the pool hook; ranks decided on the model; conformance replay on all inputs of weight <= 2/3; colliding inputs solved for and confirmed on the real code when the model does not bind",
        text="rank 64 of the pool part and of the time part of the fold, of the stir step and of every pool->output collection map means each is one-to-one for all 2^64 values; the models are bound to the code by exhaustive low-weight replay, and a non-linear or rank-deficient mixer is reported with two concrete colliding inputs. Added since: two-call maps (timer_stats then a collection, two collections, a fold after a previous fold - anything a call remembers for the next), collections with a stuck priming measurement and with runs of 9..1030 stuck measurements, maps through clone() / clone_from(), inputs solved for special outputs. Rounds 5-6: pool -> pool maps over whole test_timer calls (Ok and each failure mode) and over a fold with a half word pending. Round 8: a map that cannot be evaluated (script exhausted, panic inside the call) is undecided, not a verdict.",
        note="hook (feature rngs_verif) reads/writes the pool; linearity beyond replayed weights",
        ref="4/C15"),
    "C16": dict(
        engine="E1xE4", cat="model_checking",
        technique="all histories of depth 4/5 over output calls and clone / clone_from operations for rounds 1,2,3,64,255 on scripted timers (benign, value-directed pools, long stuck runs); each step checked for its value against a native-width twin and for the number of timer readings on the generator's own cursor",
        text="Two consecutive next_u32 return low then high half of one collected value with the timer read only during the first; every other output call performs a fresh collection of the expected number of readings; a clone's first output always comes from a fresh collection. The one literal deviation (fill_bytes of 1..4 bytes with a half pending reuses the half, by design of the crate) is a recorded known finding. Added since: Clone::clone_from into a fresh generator and into one with a half of its own pending, value-directed pools (first collected word zero / zero half / relations between two successive words), timers with runs of 31..1030 stuck measurements in the first three collections (reading counts taken per collection from the native twin); a clone's expected values come from a native-width twin built from the clone's own pool, so only the stated relation is demanded. Rounds 5-6: set_rounds steps inside histories (twin re-based), output calls aborted by a failing (panicking) timer at reading 0 / 4 / last with the generator used again afterwards, duplicates made by plain copy where the type is Copy. Round 7: a fresh collection must take at least `rounds` measurements (also on non-monotonic clocks whose stamps return to the collection's first stamp). Round 8: scripts carry a reading margin beyond the documented cost; a call that runs past the scripted readings is undecided, not a verdict.",
        note="clones get an identical timer (independent cursor); known finding C16:fill-tail-reuses-pending-half",
        ref="4/C16"),
    "C18": dict(
        engine="E6", cat="exploration",
        technique="complete configuration matrix {opt 0,3} x {overflow-checks+debug-assertions on,off} x {optional features (serde, log, std) off,on}: the same enumerated corpus (histories, constructors, jumps, scripted-timer JitterRng incl. hostile timers) replayed by the same source in all 8 builds, per-item digests compared",
        text="Every item of a fixed enumerated corpus (all histories to depth 2/3 over the output alphabet from 4 seeds and 2 buffer offsets for 19 types, byte-probe and pair-of-bits seeds, u64 ranges, long runs, JitterRng deviations/bursts/test_timer patterns) produces the same digest - or the same panic - in all 8 build configurations. Added since: the features axis turns on every optional feature (serde, and rand_jitter's log with a formatting logger); 2^16-block (HC-128) / 2^18-block (ISAAC) runs and a 6000-collection JitterRng life from one object; value-directed seeds from the reference matrices (state, successor or jump image special); 17 deviation kinds; stuck runs up to 4097. Rounds 5-6: misaligned fills in the corpus; the features axis also turns on rand_jitter's std feature. Round 7: from_rng / try_from_rng items (up to 400 000 leading zero blocks for XorShiftRng), test_timer scripts with exact variation sums at every boundary of the rounds estimate; a replayer that aborts in some configurations and completes in others is a violation.",
        note="corpus is finite and fixed; configurations are the complete matrix stated in the property; the serde axis only changes what is compiled",
        ref="4/C18"),
    "C19": dict(
        engine="E5", cat="model_checking",
        technique="exhaustive enumeration of operation-granularity interleavings x thread assignments of 2-3 generator instances on real OS threads under a token-passing scheduler; oracle = the same instance history run alone in a fresh child process; Send/Sync by a compile-time probe",
        text="For 176 configurations (same-type seed pairs incl. zero seeds, cross-type pairs, zero seeds of increasing state size, JitterRng pairs incl. test_timer, three-instance runs) every interleaving of the [construct, op, op] histories and every assignment of steps to two threads is executed; each instance's observations equal its solo run in a fresh process. All generator types are Send + Sync (compile-time probe). Added since: re-entrant constructions (the source handed to from_rng constructs another generator before / after delivering its bytes), overlapping operations (another instance runs a whole operation inside timer read #k of a JitterRng operation, every k, on the same thread and on another thread), JitterRng instances whose timers are zero-sized fn items of different types, arithmetic coincidences between the deltas of two instances, long stuck runs on one instance. Round 7: clone families (operations on a clone, incl. set_rounds / jumps / test_timer, must not change what the original returns, and vice versa). Round 9: same-type pairs of different seeds that collide under weak digests (swapped words, h*31+w over 32-bit / 64-bit words and bytes, equal prefix / suffix), 385 configurations in all.",
        note="operation granularity is complete because no generator path contains a synchronisation operation (inventory printed); JitterRng::new() (wall clock) excluded; schedules are serialised, so the memory model is not exercised",
        ref="4/C19"),
}

PLAN_REASON = "check not built yet (work in progress; DESIGN.md section 4 has the plan)"


def main():
    ids = [json.loads(l)['id'] for l in open('/verif/properties.jsonl')]
    built = [i for i in ids if i in CHECKS and CHECKS[i].get('built', True)]
    checks = []
    for i in built:
        c = CHECKS[i]
        checks.append({
            "property_id": i,
            "quick_cmd": f"./check {i} quick",
            "thorough_cmd": f"./check {i} thorough",
            "evidence_file": f"/verif/evidence/{i}.json",
            "replay_cmd_template": f"./check {i} --replay {{path}}",
            "engine": c["engine"],
            "level_claimed": {"category": c["cat"], "text": c["text"], "design_ref": "DESIGN.md section " + c["ref"]},
            "level_note": c["note"],
            "technique": c["technique"],
        })
    m = {
        "version": 1,
        "setup_cmd": "./setup.sh",
        "hooks": {
            "guard": "cargo feature rngs_verif (crate rand_jitter)",
            "enable": "the harness depends on rand_jitter by path with features = [\"rngs_verif\", \"log\", \"std\"] (harness/subjects/Cargo.toml; log and std are the crate's own optional features, rngs_verif the hook guard); no RUSTFLAGS needed",
            "baseline_off_cmd": "cd /repo && cargo test --workspace --no-fail-fast --offline",
            "source_commits": ["3c40075"],
            "add_only": True,
        },
        "engines": [
            {"name": "E1 product explorer (operation histories x bookkeeping model)", "path": "harness/explore/src/checks", "serves_properties": ["C05", "C10", "C11", "C16", "C17"], "kind_free_text": "explicit-state BFS over histories on the real code, merged on an abstract key after a convergence check"},
            {"name": "E2 alphabet / sub-cube enumerator", "path": "harness/subjects/src/lib.rs (sweep), harness/explore/src/alphabet.rs", "serves_properties": ["C01", "C02", "C03", "C04", "C08", "C09"], "kind_free_text": "complete enumeration of finite structured input spaces against reference models"},
            {"name": "E3 linear-model extraction + conformance replay", "path": "harness/explore/src/linear.rs, harness/refmodels/src/gf2.rs", "serves_properties": ["C01", "C04", "C06", "C07", "C15"], "kind_free_text": "GF(2) model extracted from the implementation, decided algebraically for all states, bound to the code by exhaustive low-weight replay"},
            {"name": "E4 environment-deviation explorer", "path": "harness/explore/src/checks", "serves_properties": ["C08", "C09", "C12", "C13", "C14", "C16"], "kind_free_text": "all placements of <=d deviations from a benign timer / source script"},
            {"name": "E5 schedule explorer", "path": "harness/explore/src/checks/c19.rs", "serves_properties": ["C19"], "kind_free_text": "all operation-granularity interleavings x thread assignments on real OS threads"},
            {"name": "E6 configuration matrix", "path": "harness/c18_replay, tools/c18.sh", "serves_properties": ["C18"], "kind_free_text": "same corpus replayed in all 8 build configurations"},
        ],
        "checks": checks,
        "notes": "All checks are run by ./check <ID> <tier>, which rebuilds the harness against /repo's working tree (path dependencies). exit 0 held / 1 violation / 2 machinery failure. known_findings.json lists recorded findings and fixed defects.",
        "not_applicable": [{"property_id": i, "reason": PLAN_REASON} for i in ids if i not in built],
    }
    json.dump(m, open('/verif/MANIFEST.json', 'w'), indent=1)
    print("claimed:", built)


if __name__ == '__main__':
    main()
