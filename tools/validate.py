#!/usr/bin/env python3
"""Validate MANIFEST.json and every evidence file against the schemas (uses the tooling venv if jsonschema is absent)."""
import json, sys, glob, os
try:
    import jsonschema
except ImportError:
    os.execv('/opt/veriftools/pyvenv/bin/python3', ['/opt/veriftools/pyvenv/bin/python3'] + sys.argv)
ok = True
m = json.load(open('/verif/MANIFEST.json'))
jsonschema.validate(m, json.load(open('/root/.vp/MANIFEST.schema.json')))
print('MANIFEST ok:', len(m['checks']), 'checks,', len(m.get('not_applicable', [])), 'not applicable')
es = json.load(open('/root/.vp/EVIDENCE.schema.json'))
for f in sorted(glob.glob('/verif/evidence/*.json')):
    try:
        jsonschema.validate(json.load(open(f)), es)
        print('evidence ok:', f)
    except Exception as e:
        ok = False
        print('EVIDENCE INVALID:', f, str(e)[:300])
ids = [json.loads(l)['id'] for l in open('/verif/properties.jsonl')]
claimed = {c['property_id'] for c in m['checks']}
na = {c['property_id'] for c in m.get('not_applicable', [])}
for i in ids:
    if (i in claimed) == (i in na):
        ok = False
        print('property', i, 'must be exactly one of claimed / not_applicable')
sys.exit(0 if ok else 1)
