#!/usr/bin/env python3
"""Run every quick check against every seeded change (applied to /repo, reverted straight afterwards) and
record the detection matrix in /verif/seeded/matrix.json."""
import json, os, subprocess, sys, glob, time

IDS = [f'C{i:02d}' for i in range(1, 20)]

def sh(cmd, cwd='/verif', timeout=3600):
    r = subprocess.run(cmd, cwd=cwd, shell=True, capture_output=True, text=True, timeout=timeout)
    return r.returncode, r.stdout + r.stderr

def main():
    only = sys.argv[1:]
    out_path = '/verif/seeded/matrix.json'
    matrix = json.load(open(out_path)) if os.path.exists(out_path) else {}
    seeds = sorted(glob.glob('/verif/seeded/C*-*/patch.diff'))
    for p in seeds:
        name = os.path.basename(os.path.dirname(p))
        if only and name not in only:
            continue
        rc, o = sh('git diff --quiet', '/repo')
        if rc != 0:
            print('/repo is dirty; refusing'); return 2
        rc, o = sh(f'git apply {p}', '/repo')
        if rc != 0:
            print(name, 'patch does not apply', o); continue
        row = {}
        t0 = time.time()
        try:
            def one(cid):
                rc, o = sh(f'./check {cid} quick')
                keys = sorted({l.split('key=')[1].split(' ::')[0] for l in o.splitlines() if l.startswith('violation[')})
                return cid, {'exit': rc, 'keys': keys[:6]}
            # the first check builds the harness against the changed tree; the rest run four at a time
            # (C18 has its own builds)
            # MATRIX_CHECKS=C05,C16: re-run only these checks and merge them into the existing row
            subset = [c for c in os.environ.get('MATRIX_CHECKS', '').split(',') if c]
            if subset:
                row = dict(matrix.get(name, {}))
            cid, r = one(IDS[7])
            if not subset or cid in subset:
                row[cid] = r
            import concurrent.futures
            order = ['C18', 'C05', 'C10', 'C17', 'C01', 'C12', 'C19'] + [c for c in IDS if c not in ('C08', 'C18', 'C05', 'C10', 'C17', 'C01', 'C12', 'C19')]
            if subset:
                order = [c for c in order if c in subset]
            with concurrent.futures.ThreadPoolExecutor(max_workers=4) as ex:
                for cid, r in ex.map(one, order):
                    row[cid] = r
        finally:
            sh('git checkout -- . && git clean -fdq -e target', '/repo')
        matrix[name] = row
        json.dump(matrix, open(out_path, 'w'), indent=1)
        det = [c for c in IDS if c in row and row[c]['exit'] == 1]
        mach = [c for c in IDS if c in row and row[c]['exit'] not in (0, 1)]
        print(f'{name}: detected by {det} machinery {mach} ({time.time()-t0:.0f}s)', flush=True)
    return 0

sys.exit(main())
