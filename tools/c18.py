#!/usr/bin/env python3
"""C18 - identical streams across build profiles and feature sets (E6, configuration matrix).

Builds harness/c18_replay in the complete matrix {opt-level 0, 3} x {overflow-checks +
debug-assertions on, off} x {optional features off, on: serde of the three crates that have
it, rand_jitter's std feature and its log feature with a logger that formats every record}, replays the same enumerated corpus in each
and compares the per-item digests. exit 0 held / 1 violation / 2 machinery failure."""
import json, os, subprocess, sys, time, shutil

ROOT = '/verif'
CR = ROOT + '/harness/c18_replay'
PROFILES = ['o0c', 'o0n', 'o3c', 'o3n']
FEATS = ['', 'serde']


def main():
    mode = sys.argv[1] if len(sys.argv) > 1 else 'quick'
    if mode == '--replay':
        return replay(sys.argv[2])
    build_only = mode == 'build'
    tier = 'quick' if build_only else mode
    depth = 2 if tier == 'quick' else 3
    seed = os.environ.get('VERIF_SEED', '0')
    t0 = time.time()
    env = dict(os.environ, CARGO_NET_OFFLINE='true', CARGO_TERM_COLOR='never', CARGO_TARGET_DIR=CR + '/target')
    bins = CR + '/target/bins'
    os.makedirs(bins, exist_ok=True)
    if not os.path.exists(CR + '/Cargo.lock'):
        shutil.copy('/repo/Cargo.lock', CR + '/Cargo.lock')
    outputs = {}
    procs = {}
    build_s = 0.0
    import concurrent.futures
    tb0 = time.time()

    def build_profile(p):
        # one target directory per profile so that the four profiles build concurrently
        penv = dict(env, CARGO_TARGET_DIR=f'{CR}/target/{p}-dir')
        res = []
        for f in FEATS:
            name = f'{p}-{f or "plain"}'
            cmd = ['cargo', 'build', '--offline', '--profile', p]
            if f:
                cmd += ['--features', f]
            r = subprocess.run(cmd, cwd=CR, env=penv, capture_output=True, text=True)
            if r.returncode != 0:
                return (name, r.stderr[-3000:])
            dst = f'{bins}/c18-{name}'
            shutil.copy(f'{CR}/target/{p}-dir/{p}/c18_replay', dst)
            res.append((name, dst))
        return res

    with concurrent.futures.ThreadPoolExecutor(max_workers=4) as ex:
        results = list(ex.map(build_profile, PROFILES))
    build_s = time.time() - tb0
    for r in results:
        if isinstance(r, tuple):
            print(f'MACHINERY-FAILURE: c18_replay does not build in configuration {r[0]}', file=sys.stderr)
            print(r[1], file=sys.stderr)
            return 2
    aux = CR + '/target/c18aux.txt'
    if not build_only:
        # value-directed seeds (states whose jump image has a special word pattern) computed by the main
        # harness from the step matrix it extracts from the implementation
        r = subprocess.run([ROOT + '/harness/target/release/mc', 'c18aux', aux], capture_output=True, text=True, env=env)
        if r.returncode != 0 or not os.path.exists(aux):
            open(aux, 'w').write('')
        for r in results:
            for name, dst in r:
                procs[name] = subprocess.Popen([dst, str(depth), seed, aux], stdout=subprocess.PIPE, stderr=subprocess.PIPE, text=True)
        # determinism self-check: one configuration is replayed twice (concurrently with the rest)
        twin = subprocess.Popen([results[2][0][1], str(depth), seed, aux], stdout=subprocess.PIPE, stderr=subprocess.PIPE, text=True)
    if build_only:
        print(f'c18_replay built in 8 configurations in {build_s:.1f}s')
        return 0
    crashed = {}
    for name, pr in procs.items():
        so, se = pr.communicate()
        if pr.returncode != 0:
            crashed[name] = (pr.returncode, se[-1500:])
            continue
        outputs[name] = so.splitlines()
    if crashed and not outputs:
        for name, (rc, se) in crashed.items():
            print(f'MACHINERY-FAILURE: c18_replay crashed in configuration {name}: rc={rc}', file=sys.stderr)
            print(se, file=sys.stderr)
        return 2
    if crashed:
        # the replayer died (abort, stack overflow, unsafe-precondition check) in some configurations and ran
        # to completion in others: the builds do not behave alike
        twin.communicate()
        os.makedirs(ROOT + '/replays', exist_ok=True)
        path = f'{ROOT}/replays/C18-crash.json'
        json.dump({'property': 'C18', 'key': 'C18:process-abort', 'crashed': {k: {'rc': v[0], 'stderr_tail': v[1]} for k, v in crashed.items()},
                   'completed': sorted(outputs), 'depth': depth, 'seed': seed,
                   'how': 'run harness/c18_replay/target/bins/c18-<config> <depth> <seed> harness/c18_replay/target/c18aux.txt in a crashed and in a completed configuration'}, open(path, 'w'), indent=1)
        for name, (rc, se) in crashed.items():
            last = [l for l in se.splitlines() if l.strip()][-2:]
            print(f'violation[1] key=C18:process-abort :: the corpus replayer aborted (rc={rc}) in configuration {name} but ran to completion in {sorted(outputs)}: ' + ' | '.join(last), file=sys.stderr)
        print(f'VIOLATION property=C18 replay={path}')
        ev = {'property_id': 'C18', 'tier': tier, 'seed': int(seed), 'level': 'exploration',
              'coverage': {'evaluations': sum(len(v) for v in outputs.values()), 'distinct_nontrivial': 0,
                           'rule': 'the corpus replayer aborted in some build configurations and completed in others; no item comparison was possible',
                           'samples': [{'crashed': sorted(crashed), 'completed': sorted(outputs)}], 'exhaustive': False},
              'violations': [{'key': 'C18:process-abort', 'replay': path}], 'wall_s': round(time.time() - t0, 2)}
        os.makedirs(ROOT + '/evidence', exist_ok=True)
        json.dump(ev, open(ROOT + '/evidence/C18.json', 'w'), indent=1)
        return 1
    names = list(outputs)
    ref = outputs[names[0]]
    n = len(ref)
    for k in names:
        if len(outputs[k]) != n:
            print(f'MACHINERY-FAILURE: configuration {k} produced {len(outputs[k])} items, {names[0]} produced {n}', file=sys.stderr)
            return 2
    # determinism self-check: the first configuration twice
    r2 = twin.communicate()[0].splitlines()
    if r2 != outputs[results[2][0][0]]:
        print('MACHINERY-FAILURE: the replayer is not deterministic in one configuration', file=sys.stderr)
        return 2
    diffs = []
    panics = {k: 0 for k in names}
    distinct = set()
    for i in range(n):
        label = ref[i].rsplit(' ', 1)[0]
        vals = {}
        for k in names:
            lab, dig = outputs[k][i].rsplit(' ', 1)
            if lab != label:
                print('MACHINERY-FAILURE: item order differs between configurations', file=sys.stderr)
                return 2
            vals[k] = dig
            if dig == 'PANIC':
                panics[k] += 1
        distinct.add(vals[names[0]])
        if len(set(vals.values())) > 1:
            diffs.append((label, vals))
    os.makedirs(ROOT + '/replays', exist_ok=True)
    known = []
    try:
        known = [f for f in json.load(open(ROOT + '/known_findings.json'))['findings'] if f['property'] == 'C18' and f['status'] == 'known']
    except Exception:
        pass
    unlisted = []
    known_hit = {}
    for label, vals in diffs:
        key = 'C18:' + label.split('/')[0] + ':' + '/'.join(label.split('/')[1:2])
        kf = [f for f in known if (f['key'].endswith('*') and key.startswith(f['key'][:-1])) or f['key'] == key]
        if kf:
            known_hit[kf[0]['key']] = kf[0]['what']
        else:
            unlisted.append((key, label, vals))
    for w in known_hit.values():
        print(f'KNOWN-FINDING: property=C18 {w}')
    for idx, (key, label, vals) in enumerate(unlisted[:10]):
        path = f'{ROOT}/replays/C18-{idx+1}.json'
        json.dump({'property': 'C18', 'key': key, 'item': label, 'digests': vals, 'depth': depth, 'seed': seed,
                   'how': 'run harness/c18_replay/target/bins/c18-<config> <depth> <seed> and grep the item label'}, open(path, 'w'), indent=1)
        print(f'violation[{idx+1}] key={key} :: item {label} differs between configurations: ' + ', '.join(f'{k}={v}' for k, v in vals.items()), file=sys.stderr)
        print(f'VIOLATION property=C18 replay={path}')
    wall = time.time() - t0
    ev = {
        'property_id': 'C18', 'tier': tier, 'seed': int(seed), 'level': 'exploration',
        'coverage': {
            'evaluations': n * len(names),
            'distinct_nontrivial': len(distinct),
            'rule': 'items = every history up to the tier depth over {next_u32,next_u64,fill_bytes(0|3|5|9|17|block-3),jump,long_jump} from 4 seeds x 2 buffer offsets for the 19 seedable generator types, all byte-probe and pair-of-bits seeds, u64 arguments (alphabet + consecutive ranges), long runs (2^16 blocks of HC-128, 2^18 blocks of ISAAC / ISAAC-64 from one object, a JitterRng life of 6000 collections with a clone), value-directed seeds that have, or whose successor / jump() / long_jump() image has, a special word pattern (from the reference matrices), and JitterRng histories / single deviations (17 kinds) at every reading / runs of 1..4097 consecutive stuck measurements / bursts of extreme probe deltas / test_timer patterns on scripted timers; each item is replayed in all 8 configurations; distinct_nontrivial = distinct item digests in the first configuration',
            'samples': [ref[0], ref[n // 2], ref[-1]],
            'configurations': names,
            'items_per_configuration': n,
            'items_differing': len(diffs),
            'panicking_items_per_configuration': panics,
            'exhaustive': True,
            'build_seconds': round(build_s, 1),
        },
        'assumptions': ['the corpus is a fixed enumeration replayed by the same source in every configuration', 'the serde feature axis changes only which code is compiled in; the corpus does not call serde'],
        'wall_s': wall, 'violations': len(unlisted),
    }
    os.makedirs(ROOT + '/evidence', exist_ok=True)
    json.dump(ev, open(ROOT + '/evidence/C18.json', 'w'), indent=1)
    print(f'C18 {tier}: configurations={len(names)} items={n} distinct={len(distinct)} differing={len(diffs)} violations={len(unlisted)} build={build_s:.1f}s wall={wall:.1f}s')
    return 1 if unlisted else 0


def replay(path):
    v = json.load(open(path))
    print('item', v['item'])
    bad = False
    digs = {}
    for p in PROFILES:
        for f in FEATS:
            name = f'{p}-{f or "plain"}'
            b = f'{CR}/target/bins/c18-{name}'
            out = subprocess.run([b, str(v['depth']), str(v['seed']), CR + '/target/c18aux.txt'], capture_output=True, text=True).stdout.splitlines()
            for l in out:
                if l.rsplit(' ', 1)[0] == v['item']:
                    digs[name] = l.rsplit(' ', 1)[1]
    for k, d in digs.items():
        print(' ', k, d)
    bad = len(set(digs.values())) > 1
    print('replay reproduces the difference' if bad else 'no difference')
    return 1 if bad else 0


if __name__ == '__main__':
    sys.exit(main())
