#!/usr/bin/env python3
"""Write a minimal evidence file for a check that was decided before the explorer could run
(C19: the Send/Sync probe does not compile)."""
import json, sys, os
pid, tier, violations, what = sys.argv[1], sys.argv[2], int(sys.argv[3]), sys.argv[4]
ev = {"property_id": pid, "tier": tier if tier in ("quick", "thorough") else "quick", "seed": int(os.environ.get("VERIF_SEED", "0")), "level": "other",
      "coverage": {"explanation": what, "evaluations": 23, "distinct_nontrivial": 23, "samples": [what]},
      "assumptions": ["compile-time trait facts only"], "wall_s": 0.0, "violations": violations}
os.makedirs('/verif/evidence', exist_ok=True)
json.dump(ev, open(f'/verif/evidence/{pid}.json', 'w'), indent=1)
