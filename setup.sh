#!/bin/sh
# Build the framework offline from files on disk only.
set -e
cd "$(dirname "$0")"
exit 0
