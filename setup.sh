#!/bin/bash
# Build the framework offline from files on disk only.
set -e
cd "$(dirname "$0")"
export CARGO_NET_OFFLINE=true
( cd harness && cargo build --release --offline -p mc -p send_sync_probe 2>&1 | tail -2 )
python3 tools/c18.py build
