#!/bin/bash
# Build the framework offline from files on disk only.
set -e
cd "$(dirname "$0")"
export CARGO_NET_OFFLINE=true
( cd harness && cargo build --release --offline -p mc -p send_sync_probe 2>&1 | tail -2 )
# the same harness without overflow checks / debug assertions (second pass of C01-C04, C12)
( cd harness && cargo build --profile plain --offline -p mc 2>&1 | tail -1 )
python3 tools/c18.py build
# reference-guided rare-event search (depends only on the reference models): cache it for the seeds
# the checks are usually run with, so that the quick tier does not pay for it
for s in 0 1; do VERIF_SEED=$s harness/target/release/mc rare-cache quick; done
